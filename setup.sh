#!/bin/sh
# Offline setup: regenerate the generated Lean files from /repo, then build the whole Lean library.
# A module that fails to build does not fail the setup: the check of the property it belongs to
# rebuilds its own target and reports the broken obligation itself; the others are unaffected.
HERE="$(cd "$(dirname "$0")" && pwd)"
cd "$HERE" || exit 2
PYTHONDONTWRITEBYTECODE=1 /venv/bin/python tools/regen_all.py
cd lean || exit 2
lake build
rc=$?
if [ $rc -ne 0 ]; then
  echo "setup: lake build reported failures (rc=$rc); per-property checks will report the affected obligations"
fi
lake build OdlModel.Common >/dev/null 2>&1 || exit 1
exit 0
