#!/bin/sh
# Offline setup: regenerate the generated Lean files from /repo, then build the whole Lean library.
HERE="$(cd "$(dirname "$0")" && pwd)"
cd "$HERE" || exit 2
PYTHONDONTWRITEBYTECODE=1 /venv/bin/python tools/regen_all.py
cd lean && lake build
