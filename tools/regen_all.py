#!/venv/bin/python
"""Run every translator (tools/extract/*.py with a `regenerate()` function) against /repo.
Used by setup so that the committed Gen files can never be staler than the source the
first build sees.  Failures are reported but do not abort (the per-property check turns an
extraction failure into a broken obligation)."""
import importlib
import os
import pkgutil
import sys
import traceback

HERE = os.path.dirname(os.path.abspath(__file__))
sys.path.insert(0, HERE)
import extract  # noqa: E402

rc = 0
for m in pkgutil.iter_modules(extract.__path__):
    try:
        mod = importlib.import_module('extract.' + m.name)
        fn = getattr(mod, 'regenerate', None)
        if fn is None:
            continue
        changed = fn()
        print('regen {}: {}'.format(m.name, 'changed' if changed else 'unchanged'))
    except Exception:
        traceback.print_exc()
        print('regen {}: FAILED (left as committed)'.format(m.name))
sys.exit(rc)
