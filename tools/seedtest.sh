#!/bin/sh
# tools/seedtest.sh Cxx /tmp/seed_cxx [tier]  — run ./check Cxx against every seeded bug of a seed directory
# (patch applied in the seed's own scratch worktree; /repo is never touched).
PID="$1"; D="$2"; TIER="${3:-quick}"
HERE="$(cd "$(dirname "$0")/.." && pwd)"
for b in "$D"/out/bug*; do
  [ -f "$b/patch.diff" ] || continue
  git -C "$D/wt" checkout -q -- . ; git -C "$D/wt" clean -fdq
  if ! git -C "$D/wt" apply "$b/patch.diff"; then echo "== $b: PATCH DOES NOT APPLY"; continue; fi
  demo=$(cd "$b" && PYTHONPATH="$D/wt" /venv/bin/python demo.py 2>&1 | tail -1 | cut -c1-150)
  start=$(date +%s)
  out=$(cd "$HERE" && ODL_REPO="$D/wt" ./check "$PID" --tier "$TIER" 2>&1 | tail -4 | cut -c1-400)
  rc=$(echo "$out" | grep -c '^VIOLATION')
  end=$(date +%s)
  echo "== $(basename $b) [$PID]: demo: $demo"
  echo "$out" | sed 's/^/     /'
  echo "   -> violation-lines=$rc  $((end-start))s"
done
git -C "$D/wt" checkout -q -- . ; git -C "$D/wt" clean -fdq
cd "$HERE" && PYTHONDONTWRITEBYTECODE=1 /venv/bin/python tools/regen_all.py >/dev/null 2>&1
