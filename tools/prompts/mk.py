import sys
T = open('/verif/tools/prompts/build_agent.md').read()
SCOPE = {
'C13': ("odl/discr/diff_ops.py only. Core: `finite_diff` (3 methods x 10 pad modes incl. the adjoint modes, boundary rows, "
        "small sizes n=2..5 where boundary rows overlap), then PartialDerivative/Gradient/Divergence/Laplacian on top, their "
        ".adjoint and .derivative. Priority theorems: (1) fd_eq_stencil_ext: for every non-adjoint pad mode/method, all n >= n_min, all f: "
        "model output = textbook stencil on the extended array / dx; (2) fd_adjoint_transpose: for all n, the operator the code returns "
        "as adjoint (method/pad-mode swap tables _ADJ_METHOD/_ADJ_PADDING, sign) is exactly minus-transpose: sum_i g_i (D f)_i = "
        "- sum_j f_j (D' g)_j, proved for all n (summation by parts + finite corner check), (3) involution of the adjoint tables "
        "(extract the dicts from the live module and `decide`). A translator for the boundary rows from the AST is the design's "
        "preferred tie; if that costs too much, hand-write the table in Lean and tie it by EXHAUSTIVE exact correspondence (full "
        "matrices via unit vectors for methods x pads x n=2..9 x dx x pad_const, 1-3 dims, real/complex) — but at least extract the "
        "dicts (_ADJ_METHOD, _ADJ_PADDING, supported modes) from the live module into a Gen file on every run."),
'C14': ("odl/discr/partition.py, grid.py, set/domain.py. Model over Rat: 1-d partition (coords, lo, hi), cell boundaries, cell "
        "sizes, boundary cell fractions, nodes_on_bdry, index(p) incl. floating variant, __getitem__ (ints, slices with steps, "
        "lists, ellipsis), insert/append/squeeze/byaxis on n-d = list of 1-d, uniform_partition parameter completion (any 3 of "
        "min,max,shape,cell_sides with per-side nodes_on_bdry), uniform_partition_fromgrid/fromintv, nonuniform_partition. "
        "Priority theorems (all n): boundaries strictly increasing with ends = lo/hi; each node in its own cell; cell sizes sum "
        "to hi-lo (telescoping); uniform: side*(n - (bl+br)/2) = extent for all 4 flag combos; index_correct; getitem_cells for "
        "unit-step slices; uniform_spec_agree. Correspondence exact on dyadic inputs, dims 1-3, all flags, random index expressions."),
'C16': ("odl/util/numerics.py (resize_array, _apply_padding, _padding_slices_inner/_outer, _intersection_slice_tuples, "
        "apply_on_boundary is NOT in scope) and odl/discr/discr_ops.py::ResizingOperator (+ _resize_discr, adjoint, inverse). "
        "Model 1-d resize (all 5 pad modes x forward/adjoint) as index maps over Nat -> K with Python slice semantics; n-d by "
        "per-axis composition. Priority theorems (all sizes/offsets): overlap copied unchanged; constant/periodic/symmetric/order0 "
        "padding equals the np.pad-style index formula (wrap / reflect without edge / edge); order1 = linear extrapolation; "
        "forward and adjoint are transposes (sum_i y_i (R x)_i = sum_j x_j (R^T y)_j) at least for constant(0), periodic, "
        "symmetric, order0 (order1 too if it closes); crop(extend(x)) = x. Admissibility guards (periodic pad <= n, symmetric "
        "pad < n, order1 n >= 2, adjoint needs pad_const = 0) are explicit error branches in the model and are exercised by a "
        "malformed stream. Correspondence exact on integer arrays, dims 1-3, grow/shrink mixes, all offsets, vs the model AND "
        "(oracle) vs np.pad + full matrix transposes on the real code."),
'C04': ("odl/operator/operator.py operator arithmetic (__add__, __radd__, __sub__, __rsub__, __mul__, __rmul__, __matmul__, "
        "__truediv__, __neg__, __pow__, OperatorSum, OperatorVectorSum, OperatorComp, OperatorPointwiseProduct, "
        "OperatorLeftScalarMult (merging s*(t*A)), OperatorRightScalarMult (merging, its own __mul__), Left/RightVectorMult, "
        "FunctionalLeftVectorMult) and odl/solvers/functional/functional.py overrides (Functional.__mul__/__rmul__/__add__/"
        "__sub__, f*0 -> Constant, 0*f -> Zero, linear f*a -> a*f, FunctionalScalarSum, FunctionalSum, FunctionalComp, "
        "FunctionalProduct, FunctionalQuotient). Two-layer model: surface Expr with `den` = the documented table; `build : Expr -> "
        "Option Impl` replaying the overload dispatch as coded (order of __mul__/__rmul__, shortcuts, merges), `run : Impl -> V -> V`. "
        "Use V = List K / functions over a commutative ring with leaves given by arbitrary functions (nonlinear) or flagged linear. "
        "Priority theorems: build_sound (run (build e) x = den e x for all e, x by induction on e, all scalars incl. 0), "
        "build_type (domain/range/is_linear flags), build_total for well-typed e. Tie: random well-typed trees over executable "
        "leaves (matrix, scaling, pointwise power 2/3, inner-product functional, L2-squared, constant) on rn and cn; compare the "
        "CLASS TREE of the real object (type names recursively + merged scalars) with build e, values with run, and "
        "domain/range/is_linear; evaluate out-of-place and in-place. The oracle is the documented table applied recursively to the "
        "real leaves. A translator for the dispatch (AST -> ordered guard list) is the design's preferred tie for the overloads; "
        "do it if time permits, otherwise the class-tree comparison is the tie."),
'C07': ("odl/solvers/nonsmooth/proximal_operators.py and the .proximal of functionals in default_functionals.py/functional.py. "
        "Priority: (A) abstract layer in a real inner product space (Mathlib): IsProx f sigma P; prox_of_subgradient (resolvent "
        "characterisation => minimiser with quadratic gap => uniqueness, firm non-expansiveness); calculus rules "
        "(translation, argument scaling, positive scaling, quadratic perturbation, separable sum, Moreau/conjugate) as algebra on "
        "that characterisation, with the exact step-size/scaling formulas the code uses. (B) concrete scalar lemmas over a linear "
        "ordered field lifted to all n with positive weights: soft threshold (L1, incl. the code's x - (x-g)/max(|x-g|/(sigma lam),1) "
        "form), L2-squared (scalar and per-point sigma), box/non-negativity projection, Huber, L2 norm (via Cauchy-Schwarz) and group "
        "L1-L2 if they close; conjugate versions via Moreau. proj_simplex/proj_l1: KKT-sufficiency theorem + driver-side feasibility "
        "check if the sorted-prefix induction does not close. Executable model polymorphic in K evaluated at Rat (exact stream; "
        "sqrt-free formulas) and Float (general stream). Tie: every Functional subclass with .proximal (introspection of "
        "odl.solvers) x parameters x spaces (rn, const- and array-weighted rn, uniform_discr with cell volume != 1, product/power "
        "spaces) x sigma; compare with the model where modelled; ORACLE on the real code for ALL (also unmodelled) classes: "
        "objective sigma*f(z)+||z-p... i.e. f(z)+||z-x||^2/(2 sigma) at p vs random/coordinate/segment probes (p must win up to "
        "1e-9 relative), f(p) finite, indicator prox idempotent and feasible, firm non-expansiveness on random pairs. Known "
        "candidates to confirm or refute with a replay: F9 (proximal_linfty / proximal_convex_conj_linfty ignore the space "
        "weighting), F11 (Huber proximal on product spaces raises TypeError) — see DESIGN section 8; if confirmed they become "
        "known_findings entries (do not patch /repo). nuclear norm / Lambert-W (KL cross entropy) are parameters of the model."),
'C20': ("odl/set/sets.py, set/domain.py (IntervalProd), set/space.py, space/base_tensors.py, npy_tensors.py, pspace.py, "
        "weighting.py, discr/grid.py, partition.py, discr_space.py, space_utils.py. Model: descriptors with DecidableEq for every "
        "set/space/weighting class; for each class the fields __eq__ looks at (eqKey) and the fields __hash__ looks at (hashKey) "
        "as coded (hand-written from the code; the harness reads the same attributes from live objects and sends them to the "
        "driver); membership `x in S` := x.space == S; element(S, inp) decision logic (same object iff already member, dtype "
        "conversion, shape error, product-space recursion); astype / real_space / complex_space / byaxis / space indexing / "
        "product-space indexing as descriptor transformers. Priority theorems: eq_equivalence (refl/symm/trans for every class — "
        "where __eq__ is not 'same type and equal eqKey', prove it explicitly or give the counterexample), hash_respects_eq "
        "(eqKey a = eqKey b -> hashKey a = hashKey b), mem_iff_space_eq, element_idem, astype/real/complex involution & "
        "preservation of weighting/exponent, byaxis and pspace index descriptors. Tie: a zoo of several hundred live objects "
        "(all classes, equal-by-construction duplicates, near-duplicates differing in exactly one field, cross-class pairs); for "
        "ALL pairs and sampled triples compare impl a==b, b==a, hash equality (or exception kind) with the model on extracted "
        "descriptors; ORACLE on the real code: reflexive/symmetric/transitive, equal => equal hash (hash must not raise), "
        "x in S <=> x.space == S, element(x) is x, element values/dtype/shape errors, derived-space constructors, element indexing "
        "commutes with asarray."),
}
EXTRA = {
'C04': "One mutation is given to you: `git -C /tmp/c04/wt revert --no-commit b971211` re-introduces a real defect (OperatorRightScalarMult.__mul__ -> __rmul__); your check must flag it.",
'C07': "One mutation is given to you: `git -C /tmp/c07/wt revert --no-commit a0258c8` re-introduces a real defect (IndicatorSumConstraint.proximal raises); your check must flag it.",
'C20': "One mutation is given to you: `git -C /tmp/c20/wt revert --no-commit 02921b9` re-introduces real defects (SetUnion == not reflexive, set hashes raise); your check must flag it.",
}
pid = sys.argv[1]
print(T.replace('{PID}', pid).replace('{pid}', pid.lower()).replace('{SCOPE}', SCOPE[pid]).replace('{EXTRA_MUT}', EXTRA.get(pid, '')))
