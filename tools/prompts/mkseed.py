import json, sys
pid, n = sys.argv[1], sys.argv[2]
T = open({'seed3': '/verif/tools/prompts/seed3_agent.md', 'seed4': '/verif/tools/prompts/seed4_agent.md', 'seed5': '/verif/tools/prompts/seed5_agent.md', 'seed6': '/verif/tools/prompts/seed6_agent.md'}.get(sys.argv[3] if len(sys.argv) > 3 else '', '/verif/tools/prompts/seed_agent.md')).read()
for l in open('/verif/properties.jsonl'):
    p = json.loads(l)
    if p['id'] == pid:
        break
prefix = sys.argv[3] if len(sys.argv) > 3 else 'seed'
wt = '/tmp/{}_{}/wt'.format(prefix, pid.lower())
out = '/tmp/{}_{}/out'.format(prefix, pid.lower())
print(T.replace('{WT}', wt).replace('{OUT}', out).replace('{TITLE}', p['title'])
      .replace('{STATEMENT}', p['statement']).replace('{QUANT}', p['quantifier']['text'])
      .replace('{FILES}', ', '.join(p['anchors']['files'])).replace('{N}', n).replace('{PID}', pid))
