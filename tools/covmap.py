#!/usr/bin/env python3
"""tools/covmap.py [--tier quick] [--jobs N] [Cxx ...]

Measures WHICH SOURCE LINES of /repo/odl the correspondence / oracle streams of each check
actually execute (statement + branch coverage of the real code while `./check Cxx` runs), and
lists, per property, the functions of its anchored files that no stream ever enters and the
branches never taken.  A change in code that no stream executes cannot be noticed by the
correspondence tie (only by a translator, where one exists), so this table is the measured
boundary of the tie: docs/covmap.md (human) and docs/covmap.json (machine).

It is a development / audit tool, not a registered check: it proves nothing and raises no alarm.
Runs every check with `--skip-lean` and ODL_REPO=/repo (so evidence/ is not overwritten).
"""
import argparse
import ast
import json
import os
import subprocess
import sys
from concurrent.futures import ThreadPoolExecutor

HERE = os.path.dirname(os.path.dirname(os.path.abspath(__file__)))
REPO = '/repo'
COVDIR = os.path.join(HERE, 'out', 'covmap')


def run_one(pid, tier):
    data = os.path.join(COVDIR, pid + '.cov')
    if os.path.exists(data):
        os.remove(data)
    env = dict(os.environ, PYTHONPATH=os.path.join(HERE, 'tools'), PYTHONDONTWRITEBYTECODE='1',
               ODL_REPO=REPO, OMP_NUM_THREADS='2', OPENBLAS_NUM_THREADS='2')
    env['PYTHONPATH'] = os.path.join(HERE, 'tools') + ':' + REPO
    cmd = ['/venv/bin/python', '-m', 'coverage', 'run', '--branch', '--source=' + REPO + '/odl',
           '--data-file=' + data, '-m', 'vf.cli', pid, '--tier', tier, '--skip-lean']
    p = subprocess.run(cmd, cwd=HERE, env=env, stdout=subprocess.PIPE, stderr=subprocess.STDOUT,
                       text=True)
    return pid, p.returncode, p.stdout.strip().splitlines()[-1:] if p.stdout.strip() else []


def functions_of(path):
    """[(qualname, first_line, last_line)] for every def in the file (nested names dotted)."""
    tree = ast.parse(open(path).read())
    out = []

    def walk(node, prefix):
        for ch in ast.iter_child_nodes(node):
            if isinstance(ch, (ast.FunctionDef, ast.AsyncFunctionDef)):
                q = prefix + ch.name
                out.append((q, ch.lineno, ch.end_lineno))
                walk(ch, q + '.')
            elif isinstance(ch, ast.ClassDef):
                walk(ch, prefix + ch.name + '.')
            else:
                walk(ch, prefix)
    walk(tree, '')
    return out


def analyse(pid, files):
    import coverage
    data = os.path.join(COVDIR, pid + '.cov')
    cov = coverage.Coverage(data_file=data, branch=True)
    cov.load()
    res = {'files': {}, 'never_entered': [], 'partial': []}
    tot_s = tot_m = 0
    for rel in files:
        path = os.path.join(REPO, rel)
        if not os.path.isfile(path):
            continue
        try:
            _, stmts, excl, missing, _ = cov.analysis2(path)
        except Exception as e:  # file never imported
            res['files'][rel] = {'error': str(e)}
            continue
        sset, mset = set(stmts), set(missing)
        try:
            an = cov._analyze(path)
            mb = an.missing_branch_arcs()
            n_partial = sum(len(v) for v in mb.values())
        except Exception:
            n_partial = None
        res['files'][rel] = {'statements': len(sset), 'missed': len(mset),
                             'untaken_branch_arcs': n_partial}
        tot_s += len(sset)
        tot_m += len(mset)
        for q, a, b in functions_of(path):
            body = [l for l in sset if a < l <= b]   # the def line itself runs at import
            if not body:
                continue
            miss = [l for l in body if l in mset]
            if len(miss) == len(body):
                res['never_entered'].append('{}::{} ({} stmts, l.{})'.format(rel, q, len(body), a))
            elif len(miss) >= 3 and len(miss) * 4 >= len(body):
                res['partial'].append('{}::{} ({}/{} stmts missed: l.{})'.format(
                    rel, q, len(miss), len(body), ','.join(map(str, miss[:8]))))
    res['statements'] = tot_s
    res['missed'] = tot_m
    return res


def main():
    ap = argparse.ArgumentParser()
    ap.add_argument('--tier', default='quick')
    ap.add_argument('--jobs', type=int, default=4)
    ap.add_argument('--no-run', action='store_true', help='only re-analyse existing data files')
    ap.add_argument('pids', nargs='*')
    a = ap.parse_args()
    props = {}
    for l in open(os.path.join(HERE, 'properties.jsonl')):
        p = json.loads(l)
        props[p['id']] = p
    pids = a.pids or sorted(props)
    os.makedirs(COVDIR, exist_ok=True)
    if not a.no_run:
        with ThreadPoolExecutor(a.jobs) as ex:
            for pid, rc, last in ex.map(lambda q: run_one(q, a.tier), pids):
                print(pid, 'rc=%d' % rc, *last, flush=True)
    out = {}
    for pid in pids:
        if os.path.exists(os.path.join(COVDIR, pid + '.cov')):
            out[pid] = analyse(pid, props[pid]['anchors']['files'])
    ddir = os.path.join(HERE, 'docs', 'covmap')
    os.makedirs(ddir, exist_ok=True)
    # one file pair per property (several people may re-measure their own property concurrently)
    for pid, r in out.items():
        json.dump(r, open(os.path.join(ddir, pid + '.json'), 'w'), indent=1, sort_keys=True)
        with open(os.path.join(ddir, pid + '.md'), 'w') as f:
            f.write('## {}\n\n'.format(pid))
            for rel, d in sorted(r['files'].items()):
                f.write('* `{}`: {}\n'.format(rel, d))
            f.write('\nNever entered ({}):\n\n'.format(len(r['never_entered'])))
            for x in r['never_entered']:
                f.write('* {}\n'.format(x))
            f.write('\nLargely unexecuted (>= 25% of statements missed) ({}):\n\n'.format(len(r['partial'])))
            for x in r['partial']:
                f.write('* {}\n'.format(x))
    allr = {}
    for pid in sorted(props):
        q = os.path.join(ddir, pid + '.json')
        if os.path.exists(q):
            allr[pid] = json.load(open(q))
    with open(os.path.join(HERE, 'docs', 'covmap.md'), 'w') as f:
        f.write('# Which lines of the anchored source the checks execute (tools/covmap.py)\n\n'
                'Statement coverage of the REAL code (/repo/odl) measured while each check\'s '
                'correspondence and oracle streams run (quick tier; Lean build skipped). A function '
                'listed under "never entered" in docs/covmap/Cxx.md is outside the correspondence tie '
                'of that property: only a translator (where one reads that function) or another '
                'property\'s streams can notice a change there. Anchored files contain much code the '
                'property does not quantify over (printing, unrelated methods), so 100% is not the '
                'target; the per-property lists are the work list for new strata.\n\n')
        f.write('| property | anchored statements | executed | % | functions never entered |\n|---|---|---|---|---|\n')
        for pid in sorted(allr):
            r = allr[pid]
            s_, m_ = r['statements'], r['missed']
            f.write('| {} | {} | {} | {:.0f} | {} |\n'.format(pid, s_, s_ - m_, 100.0 * (s_ - m_) / max(s_, 1),
                                                          len(r['never_entered'])))
    print('wrote docs/covmap.md, docs/covmap/*.md')


if __name__ == '__main__':
    sys.exit(main())
