"""Translator: odl/discr/discr_utils.py  ->  OdlModel/Gen/InterpEdges.lean   (C15)

Extracted (the data-shaped parts of the interpolation code):
  * `_compute_linear_weights_edge`, `_compute_nearest_weights_edge`: straight-line sequences
    of masked assignments on `w_lo`, `w_hi`, `edge` -> statement lists (`EStmt`)
  * `_NearestInterpolator._evaluate`: `np.where(yi <cmp> c, i [+ a], i [+ b])`
  * `_Interpolator._find_indices`: the dtype cast of the points (numeric guard, `casting=`
    literal, float fallback), side of `searchsorted`, the offset, both clipping statements and
    (textually) the normalised-distance expression.
NOT extracted (hand-written in Model/Interp.lean, tied by correspondence only): the corner loop
of `_PerAxisInterpolator._evaluate`, `_check_interp_input`, the sampling wrapper.
Aliasing: the statement language has no aliases — every weight is a fresh array (`1 - ndist`,
`np.copy(ndist)`, `np.where(..)`); a bare `w = ndist` is rejected.
The grammar is deliberately tiny; anything outside it raises ExtractionError, which the check
treats as a broken obligation (then searches the real code), never as a pass.
"""
import ast
import os
from fractions import Fraction

from vf import core


class ExtractionError(Exception):
    pass


def _u(node):
    return ast.unparse(node)


def _strip_doc(body):
    if body and isinstance(body[0], ast.Expr) and isinstance(body[0].value, ast.Constant) \
            and isinstance(body[0].value.value, str):
        return body[1:]
    return body


def _num(node):
    """numeric literal (possibly negated) -> Fraction"""
    if isinstance(node, ast.UnaryOp) and isinstance(node.op, ast.USub):
        return -_num(node.operand)
    if isinstance(node, ast.Constant) and isinstance(node.value, (int, float)) \
            and not isinstance(node.value, bool):
        return Fraction(node.value)
    raise ExtractionError('not a numeric literal: ' + _u(node))


K_LIT = {Fraction(0): '0', Fraction(1): '1', Fraction(2): '2', Fraction(1, 2): '(1 / 2)'}


def _k(fr):
    if fr not in K_LIT:
        raise ExtractionError('constant {} outside the grammar {{0, 1, 2, 1/2}}'.format(fr))
    return K_LIT[fr]


CMP = {ast.Lt: 'Cmp.lt', ast.LtE: 'Cmp.le', ast.Gt: 'Cmp.gt', ast.GtE: 'Cmp.ge'}


def _mask_of_compare(node, var):
    if not (isinstance(node, ast.Compare) and len(node.ops) == 1 and _u(node.left) == var
            and type(node.ops[0]) in CMP):
        raise ExtractionError('not a comparison of {} with a constant: {}'.format(var, _u(node)))
    return '⟨{}, {}⟩'.format(CMP[type(node.ops[0])], _k(_num(node.comparators[0])))


def _is_call(node, name, nargs=None):
    return isinstance(node, ast.Call) and _u(node.func) == name and not node.keywords and \
        (nargs is None or len(node.args) == nargs)


def _edge_program(fn):
    """function body -> list of Lean `EStmt` terms"""
    if [_u(a) for a in fn.args.args] != ['idcs', 'ndist']:
        raise ExtractionError(fn.name + ': signature changed')
    masks = {}
    prog = []
    seen_init = set()
    body = _strip_doc(fn.body)
    if not body or not isinstance(body[-1], ast.Return) or _u(body[-1].value) != '(w_lo, w_hi, edge)':
        raise ExtractionError(fn.name + ': does not end with `return w_lo, w_hi, edge`')
    for st in body[:-1]:
        src = _u(st)
        if src == 'ndist = np.asarray(ndist)':
            continue
        if isinstance(st, ast.Assign) and len(st.targets) == 1:
            tgt, val = st.targets[0], st.value
            # mask definitions
            if isinstance(tgt, ast.Name) and tgt.id in ('lo', 'hi'):
                inner = val.args[0] if _is_call(val, 'np.where', 1) else val
                masks[tgt.id] = _mask_of_compare(inner, 'ndist')
                continue
            # weight initialisation
            if isinstance(tgt, ast.Name) and tgt.id in ('w_lo', 'w_hi'):
                t = 'Tgt.wlo' if tgt.id == 'w_lo' else 'Tgt.whi'
                if _u(val) == '1 - ndist':
                    e = 'WExpr.oneMinus'
                elif _u(val) == 'np.copy(ndist)':
                    e = 'WExpr.ident'
                elif _u(val) == 'ndist':
                    # `w = ndist` makes w an ALIAS of ndist: the masked updates of w would change
                    # ndist (and every later expression / mask computed from it).  The statement
                    # language evaluates expressions on the original ndist, so this is rejected.
                    raise ExtractionError(fn.name + ': `{}` aliases ndist (np.copy required)'.format(src))
                elif _is_call(val, 'np.where', 3):
                    e = '(WExpr.whereC {} {} {})'.format(_mask_of_compare(val.args[0], 'ndist'),
                                                         _k(_num(val.args[1])), _k(_num(val.args[2])))
                else:
                    raise ExtractionError(fn.name + ': unknown weight expression ' + src)
                prog.append('.initW {} {}'.format(t, e))
                seen_init.add(tgt.id)
                continue
            # edge initialisation
            if isinstance(tgt, ast.Name) and tgt.id == 'edge':
                if _u(val) != '[idcs, idcs + 1]':
                    raise ExtractionError(fn.name + ': edge initialisation changed: ' + src)
                prog.append('.initEdge')
                seen_init.add('edge')
                continue
            # masked assignment  w[mask] = c   /   edge[k][mask] = v
            if isinstance(tgt, ast.Subscript):
                base, idx = tgt.value, tgt.slice
                if not (isinstance(idx, ast.Name) and idx.id in masks):
                    raise ExtractionError(fn.name + ': unknown mask in ' + src)
                m = masks[idx.id]
                if isinstance(base, ast.Name) and base.id in ('w_lo', 'w_hi'):
                    if base.id not in seen_init:
                        raise ExtractionError(fn.name + ': update before initialisation: ' + src)
                    t = 'Tgt.wlo' if base.id == 'w_lo' else 'Tgt.whi'
                    prog.append('.setW {} {} {}'.format(t, m, _k(_num(val))))
                    continue
                if isinstance(base, ast.Subscript) and _u(base.value) == 'edge' and \
                        _u(base.slice) in ('0', '1'):
                    if 'edge' not in seen_init:
                        raise ExtractionError(fn.name + ': update before initialisation: ' + src)
                    v = _num(val)
                    if v.denominator != 1:
                        raise ExtractionError(fn.name + ': non-integer index in ' + src)
                    prog.append('.setEdge {} {} ({})'.format(
                        'true' if _u(base.slice) == '1' else 'false', m, int(v)))
                    continue
        if isinstance(st, ast.AugAssign) and isinstance(st.op, ast.Add) and \
                isinstance(st.target, ast.Subscript):
            base, idx = st.target.value, st.target.slice
            if isinstance(base, ast.Name) and base.id in ('w_lo', 'w_hi') and \
                    isinstance(idx, ast.Name) and idx.id in masks and base.id in seen_init:
                t = 'Tgt.wlo' if base.id == 'w_lo' else 'Tgt.whi'
                prog.append('.addW {} {} {}'.format(t, masks[idx.id], _k(_num(st.value))))
                continue
        raise ExtractionError(fn.name + ': statement outside the grammar: ' + src)
    if seen_init != {'w_lo', 'w_hi', 'edge'}:
        raise ExtractionError(fn.name + ': w_lo, w_hi, edge not all initialised')
    return prog


def _find(tree, path):
    node = tree
    for name in path:
        for ch in node.body:
            if isinstance(ch, (ast.FunctionDef, ast.ClassDef)) and ch.name == name:
                node = ch
                break
        else:
            raise ExtractionError('not found: ' + '.'.join(path))
    return node


def _offset(node, var):
    """`var` or `var + k` -> k"""
    if _u(node) == var:
        return 0
    if isinstance(node, ast.BinOp) and isinstance(node.op, ast.Add) and _u(node.left) == var:
        k = _num(node.right)
        if k.denominator == 1 and k >= 0:
            return int(k)
    raise ExtractionError('not `{0}` or `{0} + k`: {1}'.format(var, _u(node)))


def _size_minus(node):
    """`cvec.size - k` -> k"""
    if isinstance(node, ast.BinOp) and isinstance(node.op, ast.Sub) and _u(node.left) == 'cvec.size':
        k = _num(node.right)
        if k.denominator == 1:
            return int(k)
    raise ExtractionError('not `cvec.size - k`: ' + _u(node))


# ---------------------------------------------------------------------------
# sound normalisations for the two method bodies that are partly pinned as text

class _Inline(ast.NodeTransformer):
    """replace loads of names bound in `env` by their (already inlined) expressions"""

    def __init__(self, env, keep=()):
        self.env, self.keep = env, set(keep)

    def visit_Name(self, node):
        if isinstance(node.ctx, ast.Load) and node.id in self.env and node.id not in self.keep:
            return ast.parse(_u(self.env[node.id]), mode='eval').body
        return node


def _inline(node, env, keep=()):
    return _Inline(env, keep).visit(ast.parse(_u(node), mode='eval').body)


def _target_names(t):
    return [n.id for n in ast.walk(t) if isinstance(n, ast.Name)]


def _stores(fn):
    """how often every name is (re)bound in the function"""
    cnt = {}
    for n in ast.walk(fn):
        if isinstance(n, ast.Name) and isinstance(n.ctx, ast.Store):
            cnt[n.id] = cnt.get(n.id, 0) + 1
    return cnt


def _run_block(stmts, env, out_none, where):
    """Tiny abstract interpreter for `_NearestInterpolator._evaluate`: straight-line bindings of
    names (inlined), a list built by `name = []; for ..: name.append(E)` (= list comprehension),
    branches on `out is None` / `out is not None` decided statically, `out[:] = E`, `return E`.
    Returns (effects, returned expression) or None if the block falls through."""
    effects = []
    i = 0
    while i < len(stmts):
        st = stmts[i]
        i += 1
        if isinstance(st, ast.Assign) and len(st.targets) == 1 and isinstance(st.targets[0], ast.Name):
            env[st.targets[0].id] = _inline(st.value, env)
        elif isinstance(st, ast.For):
            if not (len(st.body) == 1 and not st.orelse and isinstance(st.body[0], ast.Expr) and
                    isinstance(st.body[0].value, ast.Call) and not st.body[0].value.keywords and
                    len(st.body[0].value.args) == 1 and
                    isinstance(st.body[0].value.func, ast.Attribute) and
                    st.body[0].value.func.attr == 'append' and
                    isinstance(st.body[0].value.func.value, ast.Name)):
                raise ExtractionError(where + ': loop is not `for ..: <list>.append(E)`: ' + _u(st))
            name = st.body[0].value.func.value.id
            if _u(env.get(name, ast.Constant(None))) != '[]':
                raise ExtractionError(where + ': list {} not initialised with []'.format(name))
            keep = _target_names(st.target)
            elt = _inline(st.body[0].value.args[0], env, keep)
            comp = ast.ListComp(elt=elt, generators=[ast.comprehension(
                target=st.target, iter=_inline(st.iter, env), ifs=[], is_async=0)])
            env[name] = ast.parse(_u(comp), mode='eval').body
        elif isinstance(st, ast.Assign) and len(st.targets) == 1 and _u(st.targets[0]) in ('out[:]', 'out[...]'):
            effects.append(_u(_inline(st.value, env)))
        elif isinstance(st, ast.If) and _u(st.test) in ('out is None', 'out is not None'):
            take_body = (_u(st.test) == 'out is None') == out_none
            r = _run_block(st.body if take_body else st.orelse, env, out_none, where)
            if r is not None:
                return effects + r[0], r[1]
        elif isinstance(st, ast.Return) and st.value is not None:
            return effects, _u(_inline(st.value, env))
        else:
            raise ExtractionError(where + ': statement outside the grammar: ' + _u(st))
    return None


def _extract_nearest_rule(tree):
    """`_NearestInterpolator._evaluate` -> (mask, then-offset, else-offset).  Accepted up to
    sound normalisations: list built in a loop vs list / generator comprehension, named
    intermediate results, either arrangement of the `out` branches."""
    where = '_NearestInterpolator._evaluate'
    ev = _find(tree, ['_NearestInterpolator', '_evaluate'])
    if [_u(a) for a in ev.args.args] != ['self', 'indices', 'norm_distances', 'out']:
        raise ExtractionError(where + ': signature changed')
    body = _strip_doc(ev.body)
    # (rebinding such as `idx_res = tuple(idx_res)` is handled in program order)
    results = {}
    for out_none in (True, False):
        r = _run_block(body, {}, out_none, where)
        if r is None:
            raise ExtractionError(where + ': no return for out {}'.format('None' if out_none else 'given'))
        results[out_none] = r
    (eff_n, ret_n), (eff_g, ret_g) = results[True], results[False]
    if eff_n or ret_g != 'out' or len(eff_g) != 1 or eff_g[0] != ret_n:
        raise ExtractionError(where + ': out / no-out branches do not deliver the same expression: '
                              + repr(results))
    expr = ast.parse(ret_n, mode='eval').body
    if not (isinstance(expr, ast.Subscript) and _u(expr.value) == 'self.values' and
            isinstance(expr.slice, ast.Call) and _u(expr.slice.func) == 'tuple' and
            len(expr.slice.args) == 1 and not expr.slice.keywords and
            isinstance(expr.slice.args[0], (ast.ListComp, ast.GeneratorExp))):
        raise ExtractionError(where + ': result is not self.values[tuple(<comprehension>)]: ' + ret_n)
    comp = expr.slice.args[0]
    if not (len(comp.generators) == 1 and not comp.generators[0].ifs and
            isinstance(comp.generators[0].target, ast.Tuple) and
            len(comp.generators[0].target.elts) == 2 and
            all(isinstance(e, ast.Name) for e in comp.generators[0].target.elts) and
            _u(comp.generators[0].iter) == 'zip(indices, norm_distances)'):
        raise ExtractionError(where + ': comprehension is not over zip(indices, norm_distances): ' + ret_n)
    iv, yv = [e.id for e in comp.generators[0].target.elts]
    w = comp.elt
    if not _is_call(w, 'np.where', 3):
        raise ExtractionError(where + ': index rule is not np.where(..): ' + _u(w))
    return _mask_of_compare(w.args[0], yv), _offset(w.args[1], iv), _offset(w.args[2], iv)


_PURE_HOIST = ('np.issubdtype',)


def _pure(node):
    for n in ast.walk(node):
        if isinstance(n, ast.Call):
            if _u(n.func) not in _PURE_HOIST or n.keywords:
                return False
        elif not isinstance(n, (ast.Name, ast.Attribute, ast.Constant, ast.UnaryOp, ast.Not,
                                ast.Load, ast.expr_context)):
            return False
    return True


def _extract_find_indices(tree):
    """`_Interpolator._find_indices` -> dict of constants.  Accepted up to sound normalisations:
    loop-invariant pure expressions hoisted in front of the loop (inlined again), and
    `np.clip(idcs, lo, hi, out=idcs)` for the two masked assignments."""
    fi = _find(tree, ['_Interpolator', '_find_indices'])
    fbody = _strip_doc(fi.body)
    loops = [s for s in fbody if isinstance(s, ast.For)]
    if len(loops) != 1 or _u(loops[0].target) != '(xi, cvec)' or \
            _u(loops[0].iter) != 'zip(x, self.coord_vecs)':
        raise ExtractionError('_find_indices loop changed')
    # hoisted loop invariants
    stores = _stores(fi)
    env = {}
    for st in fbody[:fbody.index(loops[0])]:
        if isinstance(st, ast.Assign) and len(st.targets) == 1 and isinstance(st.targets[0], ast.Name):
            name = st.targets[0].id
            if name in ('index_vecs', 'norm_distances'):
                if _u(st.value) != '[]':
                    raise ExtractionError('_find_indices: ' + _u(st))
                continue
            val = _inline(st.value, env)
            if stores.get(name, 0) != 1 or not _pure(val) or \
                    set(_target_names(val)) & {'xi', 'cvec', 'idcs', 'x'}:
                raise ExtractionError('_find_indices: hoisted statement is not a pure loop invariant: ' + _u(st))
            env[name] = val
        else:
            raise ExtractionError('_find_indices: statement before the loop: ' + _u(st))
    tail = [_u(s) for s in fbody[fbody.index(loops[0]) + 1:]]
    if tail != ['return (index_vecs, norm_distances)']:
        raise ExtractionError('_find_indices: statements after the loop: ' + repr(tail))

    def inl(node):
        if not env:
            return node
        mod = ast.parse(_u(node))
        mod = _Inline(env).visit(mod)
        return ast.parse(_u(mod)).body[0]
    lbody = [inl(s) for s in loops[0].body]
    stmts = [s for s in lbody if not isinstance(s, ast.Try)]
    if len(lbody) - len(stmts) != 1 or not isinstance(lbody[0], ast.Try):
        raise ExtractionError('_find_indices: expected exactly one leading try (the dtype cast)')
    # --- the cast of the points to the value dtype
    tr = lbody[0]
    tb = list(tr.body)
    guard = 'false'
    if len(tb) == 2:
        g = tb[0]
        if not (isinstance(g, ast.If) and not g.orelse and
                _u(g.test) == 'not np.issubdtype(self.values.dtype, np.number)' and
                [_u(t) for t in g.body] == ['raise TypeError']):
            raise ExtractionError('_find_indices: unknown guard before the cast: ' + _u(g))
        guard = 'true'
        tb = tb[1:]
    if len(tb) != 1:
        raise ExtractionError('_find_indices: try body changed')
    cast = tb[0]
    if not (isinstance(cast, ast.Assign) and _u(cast.targets[0]) == 'xi' and
            isinstance(cast.value, ast.Call) and _u(cast.value.func) == 'np.asarray(xi).astype' and
            [_u(a) for a in cast.value.args] == ['self.values.dtype'] and
            [k.arg for k in cast.value.keywords] == ['casting'] and
            isinstance(cast.value.keywords[0].value, ast.Constant)):
        raise ExtractionError('_find_indices: cast statement changed: ' + _u(cast))
    rule = {'safe': 'CastRule.safe', 'same_kind': 'CastRule.sameKind'}.get(
        cast.value.keywords[0].value.value)
    if rule is None:
        raise ExtractionError('_find_indices: casting rule {!r} outside the grammar'.format(
            cast.value.keywords[0].value.value))
    if tr.orelse or tr.finalbody or len(tr.handlers) != 1 or _u(tr.handlers[0].type) != 'TypeError':
        raise ExtractionError('_find_indices: handlers of the cast changed')
    hb = tr.handlers[0].body
    if not (len(hb) == 2 and isinstance(hb[0], ast.Expr) and isinstance(hb[0].value, ast.Call) and
            _u(hb[0].value.func) == 'warn' and _u(hb[1]) == 'xi = np.asarray(xi, dtype=float)'):
        raise ExtractionError('_find_indices: fallback of the cast changed: ' + repr([_u(t) for t in hb]))
    if len(stmts) not in (4, 5):
        raise ExtractionError('_find_indices: unexpected statements after the cast: {}'
                              .format([_u(s) for s in stmts]))
    s0 = stmts[0]
    if not (isinstance(s0, ast.Assign) and _u(s0.targets[0]) == 'idcs' and
            isinstance(s0.value, ast.BinOp) and isinstance(s0.value.op, ast.Sub) and
            isinstance(s0.value.left, ast.Call) and _u(s0.value.left.func) == 'np.searchsorted'
            and [_u(a) for a in s0.value.left.args] == ['cvec', 'xi']):
        raise ExtractionError('_find_indices: node search changed: ' + _u(s0))
    side = 'left'
    for kw in s0.value.left.keywords:
        if kw.arg == 'side' and isinstance(kw.value, ast.Constant):
            side = kw.value.value
        else:
            raise ExtractionError('_find_indices: unknown searchsorted keyword ' + _u(kw))
    off = _num(s0.value.right)
    if off.denominator != 1:
        raise ExtractionError('_find_indices: offset ' + str(off))

    def clip(st, op):
        # idcs[idcs <op> B] = V
        if not (isinstance(st, ast.Assign) and isinstance(st.targets[0], ast.Subscript) and
                _u(st.targets[0].value) == 'idcs' and isinstance(st.targets[0].slice, ast.Compare)
                and _u(st.targets[0].slice.left) == 'idcs' and
                isinstance(st.targets[0].slice.ops[0], op)):
            raise ExtractionError('_find_indices: clipping statement changed: ' + _u(st))
        return st.targets[0].slice.comparators[0], st.value
    if len(stmts) == 5:
        lb, lv = clip(stmts[1], ast.Lt)
        hb_, hv = clip(stmts[2], ast.Gt)
        rest = stmts[3:]
    else:
        # np.clip(idcs, lo, hi, out=idcs)  ==  idcs[idcs < lo] = lo; idcs[idcs > hi] = hi
        # (also for lo > hi: both give hi everywhere)
        c = stmts[1]
        call = c.value if isinstance(c, ast.Expr) else None
        if not (call is not None and isinstance(call, ast.Call) and _u(call.func) == 'np.clip' and
                len(call.args) == 3 and _u(call.args[0]) == 'idcs' and
                [(k.arg, _u(k.value)) for k in call.keywords] == [('out', 'idcs')]):
            raise ExtractionError('_find_indices: clipping statement changed: ' + _u(c))
        lb = lv = call.args[1]
        hb_ = hv = call.args[2]
        rest = stmts[2:]
    low_b, low_v = _num(lb), _num(lv)
    if low_b.denominator != 1 or low_v.denominator != 1:
        raise ExtractionError('_find_indices: lower clip not integral')
    hi_b, hi_v = _size_minus(hb_), _size_minus(hv)
    if _u(rest[0]) != 'index_vecs.append(idcs)':
        raise ExtractionError('_find_indices: ' + _u(rest[0]))
    nd = _u(rest[1])
    if nd != 'norm_distances.append((xi - cvec[idcs]) / (cvec[idcs + 1] - cvec[idcs]))':
        raise ExtractionError('_find_indices: normalised distance changed: ' + nd)
    return dict(side='true' if side == 'left' else 'false', off=int(off), lb=int(low_b),
                lv=int(low_v), hb=hi_b, hv=hi_v, guard=guard, rule=rule)


CANONICAL_RULE = ('⟨Cmp.lt, (1 / 2)⟩', 0, 1)
CANONICAL_FIND = dict(side='true', off=1, lb=0, lv=0, hb=2, hv=2, guard='true', rule='CastRule.safe')
LAST_INFO = {}


def extract(repo=core.REPO):
    path = os.path.join(repo, 'odl', 'discr', 'discr_utils.py')
    with open(path) as f:
        tree = ast.parse(f.read())
    # the edge / weight programs are translated statement by statement: fail closed
    lin = _edge_program(_find(tree, ['_compute_linear_weights_edge']))
    nea = _edge_program(_find(tree, ['_compute_nearest_weights_edge']))
    info = {'edge_programs': 'source'}
    # the two method bodies that are partly pinned: syntactic extraction (with sound
    # normalisations) first; if the source has another shape, the artefact is obtained
    # behaviourally from the live class of the tree under test and must equal the model's program
    # on a probe grid covering every branch of the model — otherwise the error stands
    try:
        pick_mask, pick_a, pick_b = _extract_nearest_rule(tree)
        info['nearest_rule'] = 'source'
    except ExtractionError as e:
        from extract import interp_probe
        ok, detail = interp_probe.probe(repo, 'nearest_rule')
        if not ok:
            raise ExtractionError('{} ; live probe: {}'.format(e, detail))
        pick_mask, pick_a, pick_b = CANONICAL_RULE
        info['nearest_rule'] = 'live ({}; source not understood: {})'.format(detail, str(e)[:160])
    try:
        fc = _extract_find_indices(tree)
        info['find_indices'] = 'source'
    except ExtractionError as e:
        from extract import interp_probe
        ok, detail = interp_probe.probe(repo, 'find_indices')
        if not ok:
            raise ExtractionError('{} ; live probe: {}'.format(e, detail))
        fc = dict(CANONICAL_FIND)
        info['find_indices'] = 'live ({}; source not understood: {})'.format(detail, str(e)[:160])
    LAST_INFO.clear()
    LAST_INFO.update(info)
    side, off, low_b, low_v, hi_b, hi_v, guard, rule = (fc['side'] == 'true' and 'left' or 'right',
                                                          fc['off'], fc['lb'], fc['lv'], fc['hb'],
                                                          fc['hv'], fc['guard'], fc['rule'])

    def lst(prog):
        return '[\n    ' + ',\n    '.join(prog) + ']'

    lean = '''/- GENERATED by tools/extract/interp.py from odl/discr/discr_utils.py — do not edit. -/
import OdlModel.Model.Interp
namespace OdlModel.Gen.Interp
open OdlModel.Interp

section
variable {{K : Type}} [Div K] [OfNat K 0] [OfNat K 1] [OfNat K 2]

/-- `_compute_linear_weights_edge`, in program order. -/
def linearProg : List (EStmt K) := {lin}

/-- `_compute_nearest_weights_edge`, in program order. -/
def nearestProg : List (EStmt K) := {nea}

/-- `_NearestInterpolator._evaluate`: `np.where(yi <cmp> c, i + pickThen, i + pickElse)`. -/
def pickMask : Mask K := {pm}
end

def pickThen : Nat := {pa}
def pickElse : Nat := {pb}

/-- `_find_indices`: `np.searchsorted(cvec, xi, side=…)`. -/
def searchSideLeft : Bool := {side}
/-- `idcs = searchsorted(..) - idxOffset`. -/
def idxOffset : Int := {off}
/-- `idcs[idcs < clipLowBound] = clipLowValue`. -/
def clipLowBound : Int := {lb}
def clipLowValue : Int := {lv}
/-- `idcs[idcs > cvec.size - clipHighBound] = cvec.size - clipHighValue`. -/
def clipHighBound : Int := {hb}
def clipHighValue : Int := {hv}

/-- `_find_indices`: the points are cast to the value dtype only behind the guard
`if not np.issubdtype(values.dtype, np.number): raise TypeError` iff true. -/
def castGuardNumeric : Bool := {guard}
/-- `xi.astype(values.dtype, casting=…)`. -/
def castingRule : CastRule := {rule}

end OdlModel.Gen.Interp
'''.format(lin=lst(lin), nea=lst(nea), pm=pick_mask, pa=pick_a, pb=pick_b,
           side='true' if side == 'left' else 'false', off=int(off), lb=int(low_b), lv=int(low_v),
           hb=hi_b, hv=hi_v, guard=guard, rule=rule)
    return lean


def regenerate(repo=core.REPO):
    lean = extract(repo)
    return core.write_if_changed(
        os.path.join(core.LEAN, 'OdlModel', 'Gen', 'InterpEdges.lean'), lean)


if __name__ == '__main__':
    print(extract())
