"""Translator: odl/discr/discr_utils.py  ->  OdlModel/Gen/InterpEdges.lean   (C15)

Extracted (the data-shaped parts of the interpolation code):
  * `_compute_linear_weights_edge`, `_compute_nearest_weights_edge`: straight-line sequences
    of masked assignments on `w_lo`, `w_hi`, `edge` -> statement lists (`EStmt`)
  * `_NearestInterpolator._evaluate`: `np.where(yi <cmp> c, i [+ a], i [+ b])`
  * `_Interpolator._find_indices`: the dtype cast of the points (numeric guard, `casting=`
    literal, float fallback), side of `searchsorted`, the offset, both clipping statements and
    (textually) the normalised-distance expression.
NOT extracted (hand-written in Model/Interp.lean, tied by correspondence only): the corner loop
of `_PerAxisInterpolator._evaluate`, `_check_interp_input`, the sampling wrapper.
Aliasing: the statement language has no aliases — every weight is a fresh array (`1 - ndist`,
`np.copy(ndist)`, `np.where(..)`); a bare `w = ndist` is rejected.
The grammar is deliberately tiny; anything outside it raises ExtractionError, which the check
treats as a broken obligation (then searches the real code), never as a pass.
"""
import ast
import os
from fractions import Fraction

from vf import core


class ExtractionError(Exception):
    pass


def _u(node):
    return ast.unparse(node)


def _strip_doc(body):
    if body and isinstance(body[0], ast.Expr) and isinstance(body[0].value, ast.Constant) \
            and isinstance(body[0].value.value, str):
        return body[1:]
    return body


def _num(node):
    """numeric literal (possibly negated) -> Fraction"""
    if isinstance(node, ast.UnaryOp) and isinstance(node.op, ast.USub):
        return -_num(node.operand)
    if isinstance(node, ast.Constant) and isinstance(node.value, (int, float)) \
            and not isinstance(node.value, bool):
        return Fraction(node.value)
    raise ExtractionError('not a numeric literal: ' + _u(node))


K_LIT = {Fraction(0): '0', Fraction(1): '1', Fraction(2): '2', Fraction(1, 2): '(1 / 2)'}


def _k(fr):
    if fr not in K_LIT:
        raise ExtractionError('constant {} outside the grammar {{0, 1, 2, 1/2}}'.format(fr))
    return K_LIT[fr]


CMP = {ast.Lt: 'Cmp.lt', ast.LtE: 'Cmp.le', ast.Gt: 'Cmp.gt', ast.GtE: 'Cmp.ge'}


def _mask_of_compare(node, var):
    if not (isinstance(node, ast.Compare) and len(node.ops) == 1 and _u(node.left) == var
            and type(node.ops[0]) in CMP):
        raise ExtractionError('not a comparison of {} with a constant: {}'.format(var, _u(node)))
    return '⟨{}, {}⟩'.format(CMP[type(node.ops[0])], _k(_num(node.comparators[0])))


def _is_call(node, name, nargs=None):
    return isinstance(node, ast.Call) and _u(node.func) == name and not node.keywords and \
        (nargs is None or len(node.args) == nargs)


def _edge_program(fn):
    """function body -> list of Lean `EStmt` terms"""
    if [_u(a) for a in fn.args.args] != ['idcs', 'ndist']:
        raise ExtractionError(fn.name + ': signature changed')
    masks = {}
    prog = []
    seen_init = set()
    body = _strip_doc(fn.body)
    if not body or not isinstance(body[-1], ast.Return) or _u(body[-1].value) != '(w_lo, w_hi, edge)':
        raise ExtractionError(fn.name + ': does not end with `return w_lo, w_hi, edge`')
    for st in body[:-1]:
        src = _u(st)
        if src == 'ndist = np.asarray(ndist)':
            continue
        if isinstance(st, ast.Assign) and len(st.targets) == 1:
            tgt, val = st.targets[0], st.value
            # mask definitions
            if isinstance(tgt, ast.Name) and tgt.id in ('lo', 'hi'):
                inner = val.args[0] if _is_call(val, 'np.where', 1) else val
                masks[tgt.id] = _mask_of_compare(inner, 'ndist')
                continue
            # weight initialisation
            if isinstance(tgt, ast.Name) and tgt.id in ('w_lo', 'w_hi'):
                t = 'Tgt.wlo' if tgt.id == 'w_lo' else 'Tgt.whi'
                if _u(val) == '1 - ndist':
                    e = 'WExpr.oneMinus'
                elif _u(val) == 'np.copy(ndist)':
                    e = 'WExpr.ident'
                elif _u(val) == 'ndist':
                    # `w = ndist` makes w an ALIAS of ndist: the masked updates of w would change
                    # ndist (and every later expression / mask computed from it).  The statement
                    # language evaluates expressions on the original ndist, so this is rejected.
                    raise ExtractionError(fn.name + ': `{}` aliases ndist (np.copy required)'.format(src))
                elif _is_call(val, 'np.where', 3):
                    e = '(WExpr.whereC {} {} {})'.format(_mask_of_compare(val.args[0], 'ndist'),
                                                         _k(_num(val.args[1])), _k(_num(val.args[2])))
                else:
                    raise ExtractionError(fn.name + ': unknown weight expression ' + src)
                prog.append('.initW {} {}'.format(t, e))
                seen_init.add(tgt.id)
                continue
            # edge initialisation
            if isinstance(tgt, ast.Name) and tgt.id == 'edge':
                if _u(val) != '[idcs, idcs + 1]':
                    raise ExtractionError(fn.name + ': edge initialisation changed: ' + src)
                prog.append('.initEdge')
                seen_init.add('edge')
                continue
            # masked assignment  w[mask] = c   /   edge[k][mask] = v
            if isinstance(tgt, ast.Subscript):
                base, idx = tgt.value, tgt.slice
                if not (isinstance(idx, ast.Name) and idx.id in masks):
                    raise ExtractionError(fn.name + ': unknown mask in ' + src)
                m = masks[idx.id]
                if isinstance(base, ast.Name) and base.id in ('w_lo', 'w_hi'):
                    if base.id not in seen_init:
                        raise ExtractionError(fn.name + ': update before initialisation: ' + src)
                    t = 'Tgt.wlo' if base.id == 'w_lo' else 'Tgt.whi'
                    prog.append('.setW {} {} {}'.format(t, m, _k(_num(val))))
                    continue
                if isinstance(base, ast.Subscript) and _u(base.value) == 'edge' and \
                        _u(base.slice) in ('0', '1'):
                    if 'edge' not in seen_init:
                        raise ExtractionError(fn.name + ': update before initialisation: ' + src)
                    v = _num(val)
                    if v.denominator != 1:
                        raise ExtractionError(fn.name + ': non-integer index in ' + src)
                    prog.append('.setEdge {} {} ({})'.format(
                        'true' if _u(base.slice) == '1' else 'false', m, int(v)))
                    continue
        if isinstance(st, ast.AugAssign) and isinstance(st.op, ast.Add) and \
                isinstance(st.target, ast.Subscript):
            base, idx = st.target.value, st.target.slice
            if isinstance(base, ast.Name) and base.id in ('w_lo', 'w_hi') and \
                    isinstance(idx, ast.Name) and idx.id in masks and base.id in seen_init:
                t = 'Tgt.wlo' if base.id == 'w_lo' else 'Tgt.whi'
                prog.append('.addW {} {} {}'.format(t, masks[idx.id], _k(_num(st.value))))
                continue
        raise ExtractionError(fn.name + ': statement outside the grammar: ' + src)
    if seen_init != {'w_lo', 'w_hi', 'edge'}:
        raise ExtractionError(fn.name + ': w_lo, w_hi, edge not all initialised')
    return prog


def _find(tree, path):
    node = tree
    for name in path:
        for ch in node.body:
            if isinstance(ch, (ast.FunctionDef, ast.ClassDef)) and ch.name == name:
                node = ch
                break
        else:
            raise ExtractionError('not found: ' + '.'.join(path))
    return node


def _offset(node, var):
    """`var` or `var + k` -> k"""
    if _u(node) == var:
        return 0
    if isinstance(node, ast.BinOp) and isinstance(node.op, ast.Add) and _u(node.left) == var:
        k = _num(node.right)
        if k.denominator == 1 and k >= 0:
            return int(k)
    raise ExtractionError('not `{0}` or `{0} + k`: {1}'.format(var, _u(node)))


def _size_minus(node):
    """`cvec.size - k` -> k"""
    if isinstance(node, ast.BinOp) and isinstance(node.op, ast.Sub) and _u(node.left) == 'cvec.size':
        k = _num(node.right)
        if k.denominator == 1:
            return int(k)
    raise ExtractionError('not `cvec.size - k`: ' + _u(node))


def extract(repo=core.REPO):
    path = os.path.join(repo, 'odl', 'discr', 'discr_utils.py')
    with open(path) as f:
        tree = ast.parse(f.read())
    lin = _edge_program(_find(tree, ['_compute_linear_weights_edge']))
    nea = _edge_program(_find(tree, ['_compute_nearest_weights_edge']))

    # --- _NearestInterpolator._evaluate
    ev = _find(tree, ['_NearestInterpolator', '_evaluate'])
    body = [_u(s) for s in _strip_doc(ev.body)]
    want_tail = ['idx_res = tuple(idx_res)',
                 'if out is not None:\n    out[:] = self.values[idx_res]\n    return out\n'
                 'else:\n    return self.values[idx_res]']
    if len(body) != 4 or body[0] != 'idx_res = []' or body[2:] != want_tail:
        raise ExtractionError('_NearestInterpolator._evaluate changed: ' + repr(body))
    loop = _strip_doc(ev.body)[1]
    if not (isinstance(loop, ast.For) and _u(loop.target) == '(i, yi)' and
            _u(loop.iter) == 'zip(indices, norm_distances)' and len(loop.body) == 1 and
            not loop.orelse):
        raise ExtractionError('_NearestInterpolator._evaluate loop changed')
    call = loop.body[0]
    if not (isinstance(call, ast.Expr) and _is_call(call.value, 'idx_res.append', 1) and
            _is_call(call.value.args[0], 'np.where', 3)):
        raise ExtractionError('index rule is not idx_res.append(np.where(..)): ' + _u(call))
    w = call.value.args[0]
    pick_mask = _mask_of_compare(w.args[0], 'yi')
    pick_a, pick_b = _offset(w.args[1], 'i'), _offset(w.args[2], 'i')

    # --- _Interpolator._find_indices
    fi = _find(tree, ['_Interpolator', '_find_indices'])
    loops = [s for s in _strip_doc(fi.body) if isinstance(s, ast.For)]
    if len(loops) != 1 or _u(loops[0].target) != '(xi, cvec)' or \
            _u(loops[0].iter) != 'zip(x, self.coord_vecs)':
        raise ExtractionError('_find_indices loop changed')
    stmts = [s for s in loops[0].body if not isinstance(s, ast.Try)]
    if len(loops[0].body) - len(stmts) != 1 or not isinstance(loops[0].body[0], ast.Try):
        raise ExtractionError('_find_indices: expected exactly one leading try (the dtype cast)')
    # --- the cast of the points to the value dtype
    tr = loops[0].body[0]
    tb = list(tr.body)
    guard = 'false'
    if len(tb) == 2:
        g = tb[0]
        if not (isinstance(g, ast.If) and not g.orelse and
                _u(g.test) == 'not np.issubdtype(self.values.dtype, np.number)' and
                [_u(t) for t in g.body] == ['raise TypeError']):
            raise ExtractionError('_find_indices: unknown guard before the cast: ' + _u(g))
        guard = 'true'
        tb = tb[1:]
    if len(tb) != 1:
        raise ExtractionError('_find_indices: try body changed')
    cast = tb[0]
    if not (isinstance(cast, ast.Assign) and _u(cast.targets[0]) == 'xi' and
            isinstance(cast.value, ast.Call) and _u(cast.value.func) == 'np.asarray(xi).astype' and
            [_u(a) for a in cast.value.args] == ['self.values.dtype'] and
            [k.arg for k in cast.value.keywords] == ['casting'] and
            isinstance(cast.value.keywords[0].value, ast.Constant)):
        raise ExtractionError('_find_indices: cast statement changed: ' + _u(cast))
    rule = {'safe': 'CastRule.safe', 'same_kind': 'CastRule.sameKind'}.get(
        cast.value.keywords[0].value.value)
    if rule is None:
        raise ExtractionError('_find_indices: casting rule {!r} outside the grammar'.format(
            cast.value.keywords[0].value.value))
    if tr.orelse or tr.finalbody or len(tr.handlers) != 1 or _u(tr.handlers[0].type) != 'TypeError':
        raise ExtractionError('_find_indices: handlers of the cast changed')
    hb = tr.handlers[0].body
    if not (len(hb) == 2 and isinstance(hb[0], ast.Expr) and isinstance(hb[0].value, ast.Call) and
            _u(hb[0].value.func) == 'warn' and _u(hb[1]) == 'xi = np.asarray(xi, dtype=float)'):
        raise ExtractionError('_find_indices: fallback of the cast changed: ' + repr([_u(t) for t in hb]))
    if len(stmts) != 5:
        raise ExtractionError('_find_indices: expected 5 statements after the cast, got {}'
                              .format([_u(s) for s in stmts]))
    s0 = stmts[0]
    if not (isinstance(s0, ast.Assign) and _u(s0.targets[0]) == 'idcs' and
            isinstance(s0.value, ast.BinOp) and isinstance(s0.value.op, ast.Sub) and
            isinstance(s0.value.left, ast.Call) and _u(s0.value.left.func) == 'np.searchsorted'
            and [_u(a) for a in s0.value.left.args] == ['cvec', 'xi']):
        raise ExtractionError('_find_indices: node search changed: ' + _u(s0))
    side = 'left'
    for kw in s0.value.left.keywords:
        if kw.arg == 'side' and isinstance(kw.value, ast.Constant):
            side = kw.value.value
        else:
            raise ExtractionError('_find_indices: unknown searchsorted keyword ' + _u(kw))
    off = _num(s0.value.right)
    if off.denominator != 1:
        raise ExtractionError('_find_indices: offset ' + str(off))

    def clip(st, op):
        # idcs[idcs <op> B] = V
        if not (isinstance(st, ast.Assign) and isinstance(st.targets[0], ast.Subscript) and
                _u(st.targets[0].value) == 'idcs' and isinstance(st.targets[0].slice, ast.Compare)
                and _u(st.targets[0].slice.left) == 'idcs' and
                isinstance(st.targets[0].slice.ops[0], op)):
            raise ExtractionError('_find_indices: clipping statement changed: ' + _u(st))
        return st.targets[0].slice.comparators[0], st.value
    lb, lv = clip(stmts[1], ast.Lt)
    hb, hv = clip(stmts[2], ast.Gt)
    low_b, low_v = _num(lb), _num(lv)
    if low_b.denominator != 1 or low_v.denominator != 1:
        raise ExtractionError('_find_indices: lower clip not integral')
    hi_b, hi_v = _size_minus(hb), _size_minus(hv)
    if _u(stmts[3]) != 'index_vecs.append(idcs)':
        raise ExtractionError('_find_indices: ' + _u(stmts[3]))
    nd = _u(stmts[4])
    if nd != 'norm_distances.append((xi - cvec[idcs]) / (cvec[idcs + 1] - cvec[idcs]))':
        raise ExtractionError('_find_indices: normalised distance changed: ' + nd)

    def lst(prog):
        return '[\n    ' + ',\n    '.join(prog) + ']'

    lean = '''/- GENERATED by tools/extract/interp.py from odl/discr/discr_utils.py — do not edit. -/
import OdlModel.Model.Interp
namespace OdlModel.Gen.Interp
open OdlModel.Interp

section
variable {{K : Type}} [Div K] [OfNat K 0] [OfNat K 1] [OfNat K 2]

/-- `_compute_linear_weights_edge`, in program order. -/
def linearProg : List (EStmt K) := {lin}

/-- `_compute_nearest_weights_edge`, in program order. -/
def nearestProg : List (EStmt K) := {nea}

/-- `_NearestInterpolator._evaluate`: `np.where(yi <cmp> c, i + pickThen, i + pickElse)`. -/
def pickMask : Mask K := {pm}
end

def pickThen : Nat := {pa}
def pickElse : Nat := {pb}

/-- `_find_indices`: `np.searchsorted(cvec, xi, side=…)`. -/
def searchSideLeft : Bool := {side}
/-- `idcs = searchsorted(..) - idxOffset`. -/
def idxOffset : Int := {off}
/-- `idcs[idcs < clipLowBound] = clipLowValue`. -/
def clipLowBound : Int := {lb}
def clipLowValue : Int := {lv}
/-- `idcs[idcs > cvec.size - clipHighBound] = cvec.size - clipHighValue`. -/
def clipHighBound : Int := {hb}
def clipHighValue : Int := {hv}

/-- `_find_indices`: the points are cast to the value dtype only behind the guard
`if not np.issubdtype(values.dtype, np.number): raise TypeError` iff true. -/
def castGuardNumeric : Bool := {guard}
/-- `xi.astype(values.dtype, casting=…)`. -/
def castingRule : CastRule := {rule}

end OdlModel.Gen.Interp
'''.format(lin=lst(lin), nea=lst(nea), pm=pick_mask, pa=pick_a, pb=pick_b,
           side='true' if side == 'left' else 'false', off=int(off), lb=int(low_b), lv=int(low_v),
           hb=hi_b, hv=hi_v, guard=guard, rule=rule)
    return lean


def regenerate(repo=core.REPO):
    lean = extract(repo)
    return core.write_if_changed(
        os.path.join(core.LEAN, 'OdlModel', 'Gen', 'InterpEdges.lean'), lean)


if __name__ == '__main__':
    print(extract())
