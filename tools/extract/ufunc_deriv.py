"""Translator: odl/ufunc_ops/ufunc_ops.py::derivative_factory  ->  OdlModel/Gen/UfuncDeriv.lean

Grammar (anything else raises ExtractionError = broken obligation, never a pass):
  derivative_factory(name) is an `if name == '<ufunc>': def derivative(self, point): ...`
  chain with a final `else: derivative = Operator.derivative`.  Each inner function is
  optionally `point = self.domain.element(point)` followed by
  `return MultiplyOperator(<expr>)` with
  <expr> ::= point | self(point) | <ufunc>(self.domain)(point) | <number>
           | -<expr> | <expr> (+|*|/) <expr> | <expr> ** <nat>
Also extracted: LINEAR_UFUNCS and, with the analogous grammar, gradient_factory.

Three sources, tried in this order, each FAILING CLOSED (ExtractionError) on anything it does
not understand; the source used is recorded in the evidence:
  1. `ast-chain`: the if/elif chain described above.
  2. `ast-table`: a module-level tuple/list/dict literal of (name, lambda op, pt: <expr>) pairs
     that nothing mutates, looked up by name in the factory, whose generic inner function returns
     `MultiplyOperator(<looked-up>(self, point))`; same expression vocabulary
     (`op.domain.element(pt)` reads as `pt`).
  3. `live`: behavioural identification on the module of the tree under test (subprocess with
     that tree on PYTHONPATH): for every unary float ufunc the operator on rn(3) (functional on
     RealNumbers() for the gradient table) is built at exactly representable points; its
     derivative must be flagged-linear-self, "not provided" (OpNotImplementedError /
     NotImplementedError at every point) or a linear DIAGONAL operator whose multiplier matches
     exactly ONE candidate of the finite vocabulary (cos, -sin, 1+tan^2, 1/(2 sqrt), 2x, 1/x, exp,
     -1/x^2, cosh, sinh) on the verification grid to 1e-12; no match, an ambiguous match, a
     derivative for a ufunc without Lean counterpart or any other exception fails closed.
The emitted table is in the canonical order of FNS whatever the source.
"""
import ast
import json
import math
import os
import subprocess
import sys
from fractions import Fraction

from vf import core

FNS = ['sin', 'cos', 'tan', 'sqrt', 'square', 'log', 'exp', 'reciprocal', 'sinh', 'cosh']


class ExtractionError(Exception):
    pass


def _u(node):
    return ast.unparse(node)


def _expr(node, sf='self', pt='point'):
    """Point-wise multiplier expression; `sf` / `pt` are the names of the operator and the point."""
    def is_pt(n):
        return (isinstance(n, ast.Name) and n.id == pt) or _u(n) == '{}.domain.element({})'.format(sf, pt)
    if is_pt(node):
        return 'Expr.pt'
    if (isinstance(node, ast.Call) and isinstance(node.func, ast.Name) and node.func.id == sf and
            len(node.args) == 1 and is_pt(node.args[0]) and not node.keywords):
        return 'Expr.self'
    if (isinstance(node, ast.Call) and len(node.args) == 1 and is_pt(node.args[0]) and
            isinstance(node.func, ast.Call) and isinstance(node.func.func, ast.Name) and
            len(node.func.args) == 1 and _u(node.func.args[0]) == sf + '.domain' and
            not node.keywords and not node.func.keywords):
        g = node.func.func.id
        if g not in FNS:
            raise ExtractionError('unknown ufunc operator ' + g)
        return '(Expr.app Fn.{})'.format(g)
    if isinstance(node, ast.Constant) and isinstance(node.value, (int, float)) \
            and not isinstance(node.value, bool):
        q = Fraction(node.value)
        return '(Expr.const ({}) {})'.format(q.numerator, q.denominator)
    if isinstance(node, ast.UnaryOp) and isinstance(node.op, ast.USub):
        return '(Expr.neg {})'.format(_expr(node.operand, sf, pt))
    if isinstance(node, ast.BinOp):
        if isinstance(node.op, ast.Pow):
            if not (isinstance(node.right, ast.Constant) and isinstance(node.right.value, int)
                    and node.right.value >= 0):
                raise ExtractionError('unsupported exponent ' + _u(node))
            return '(Expr.pow {} {})'.format(_expr(node.left, sf, pt), node.right.value)
        ops = {ast.Add: 'add', ast.Mult: 'mul', ast.Div: 'div'}
        for k, v in ops.items():
            if isinstance(node.op, k):
                return '(Expr.{} {} {})'.format(v, _expr(node.left, sf, pt), _expr(node.right, sf, pt))
    raise ExtractionError('expression outside the grammar: ' + _u(node))


def _num(node):
    if isinstance(node, ast.Constant) and isinstance(node.value, (int, float)) \
            and not isinstance(node.value, bool):
        q = Fraction(node.value)
        return '(Expr.const ({}) {})'.format(q.numerator, q.denominator)
    if isinstance(node, ast.UnaryOp) and isinstance(node.op, ast.USub):
        inner = node.operand
        if isinstance(inner, ast.Constant) and isinstance(inner.value, (int, float)):
            q = -Fraction(inner.value)
            return '(Expr.const ({}) {})'.format(q.numerator, q.denominator)
    raise ExtractionError('not a number: ' + _u(node))


def _is_dom_call(node, name=None):
    """`<name>(self.domain)` -> name."""
    if (isinstance(node, ast.Call) and isinstance(node.func, ast.Name) and len(node.args) == 1 and
            _u(node.args[0]) == 'self.domain' and not node.keywords):
        return node.func.id
    return None


def _fexpr(node):
    """Functional-valued expressions of gradient_factory, read point-wise:
    self | g(self.domain) | -F | NUM + F | g(self.domain) * F  (composition g o F)
    | FunctionalQuotient(F, F) | ConstantFunctional(self.domain, NUM)
    | ScalingFunctional(self.domain, NUM)"""
    if isinstance(node, ast.Name) and node.id == 'self':
        return 'Expr.self'
    g = _is_dom_call(node)
    if g is not None:
        if g not in FNS:
            raise ExtractionError('unknown ufunc functional ' + g)
        return '(Expr.app Fn.{})'.format(g)
    if isinstance(node, ast.UnaryOp) and isinstance(node.op, ast.USub):
        return '(Expr.neg {})'.format(_fexpr(node.operand))
    if isinstance(node, ast.BinOp) and isinstance(node.op, ast.Add):
        return '(Expr.add {} {})'.format(_num(node.left), _fexpr(node.right))
    if isinstance(node, ast.BinOp) and isinstance(node.op, ast.Mult):
        g = _is_dom_call(node.left)
        if g is None or g not in FNS:
            raise ExtractionError('unsupported product ' + _u(node))
        return '(Expr.comp Fn.{} {})'.format(g, _fexpr(node.right))
    if isinstance(node, ast.Call) and isinstance(node.func, ast.Name) and not node.keywords:
        f = node.func.id
        if f == 'FunctionalQuotient' and len(node.args) == 2:
            return '(Expr.div {} {})'.format(_fexpr(node.args[0]), _fexpr(node.args[1]))
        if f == 'ConstantFunctional' and len(node.args) == 2 and _u(node.args[0]) == 'self.domain':
            return _num(node.args[1])
        if f == 'ScalingFunctional' and len(node.args) == 2 and _u(node.args[0]) == 'self.domain':
            return '(Expr.mul {} Expr.pt)'.format(_num(node.args[1]))
    raise ExtractionError('functional expression outside the grammar: ' + _u(node))


def _inner_grad(fn):
    if not (isinstance(fn, ast.FunctionDef) and fn.name == 'gradient' and
            [a.arg for a in fn.args.args] == ['self']):
        raise ExtractionError('unexpected inner definition ' + _u(fn)[:80])
    body = list(fn.body)
    if body and isinstance(body[0], ast.Expr) and isinstance(body[0].value, ast.Constant) \
            and isinstance(body[0].value.value, str):
        body = body[1:]
    if len(body) != 1 or not isinstance(body[0], ast.Return):
        raise ExtractionError('unexpected body of gradient: ' + _u(fn)[:200])
    return _fexpr(body[0].value)


def _chain(tree, facname, inner, fallbacks):
    fac = [n for n in tree.body if isinstance(n, ast.FunctionDef) and n.name == facname]
    if len(fac) != 1:
        raise ExtractionError(facname + ' not found')
    body = [s for s in fac[0].body if not (isinstance(s, ast.Expr) and isinstance(s.value, ast.Constant))]
    if len(body) != 2 or not isinstance(body[0], ast.If) or not _u(body[1]).startswith('return '):
        raise ExtractionError(facname + ' is not an if-chain followed by return')
    table = []
    node = body[0]
    while True:
        t = node.test
        if not (isinstance(t, ast.Compare) and _u(t.left) == 'name' and len(t.ops) == 1 and
                isinstance(t.ops[0], ast.Eq) and isinstance(t.comparators[0], ast.Constant)):
            raise ExtractionError('unexpected test ' + _u(t))
        name = t.comparators[0].value
        if name not in FNS:
            raise ExtractionError('ufunc {!r} has a branch but no Lean counterpart'.format(name))
        if len(node.body) != 1:
            raise ExtractionError('unexpected branch body for ' + name)
        table.append((name, inner(node.body[0])))
        if len(node.orelse) == 1 and isinstance(node.orelse[0], ast.If):
            node = node.orelse[0]
            continue
        if len(node.orelse) != 1 or _u(node.orelse[0]) not in fallbacks:
            raise ExtractionError('unexpected fallback: ' + ' ; '.join(_u(s) for s in node.orelse))
        break
    return table


def _inner(fn):
    if not (isinstance(fn, ast.FunctionDef) and fn.name == 'derivative' and
            [a.arg for a in fn.args.args] == ['self', 'point']):
        raise ExtractionError('unexpected inner definition ' + _u(fn)[:80])
    body = list(fn.body)
    if body and isinstance(body[0], ast.Expr) and isinstance(body[0].value, ast.Constant) \
            and isinstance(body[0].value.value, str):
        body = body[1:]
    if body and _u(body[0]) == 'point = self.domain.element(point)':
        body = body[1:]
    if len(body) != 1 or not isinstance(body[0], ast.Return):
        raise ExtractionError('unexpected body of derivative: ' + _u(fn)[:200])
    call = body[0].value
    if not (isinstance(call, ast.Call) and _u(call.func) == 'MultiplyOperator' and
            len(call.args) == 1 and not call.keywords):
        raise ExtractionError('derivative does not return MultiplyOperator(expr): ' + _u(call))
    return _expr(call.args[0])


def _strip_doc(body):
    return [st for st in body if not (isinstance(st, ast.Expr) and isinstance(st.value, ast.Constant)
                                      and isinstance(st.value.value, str))]


def _table_form(tree):
    """Source 2 for derivative_factory (see the module docstring)."""
    fac = [n for n in tree.body if isinstance(n, ast.FunctionDef) and n.name == 'derivative_factory']
    if len(fac) != 1:
        raise ExtractionError('derivative_factory not found')
    body = _strip_doc(fac[0].body)
    # <m> = dict(<T>).get(name) | <T>.get(name)
    if not (len(body) == 4 and isinstance(body[0], ast.Assign) and len(body[0].targets) == 1 and
            isinstance(body[0].targets[0], ast.Name)):
        raise ExtractionError('derivative_factory: not the table form')
    mname = body[0].targets[0].id
    look = body[0].value
    tname = None
    if isinstance(look, ast.Call) and isinstance(look.func, ast.Attribute) and look.func.attr == 'get' and \
            [_u(a) for a in look.args] == ['name'] and not look.keywords:
        base = look.func.value
        if isinstance(base, ast.Name):
            tname = base.id
        elif isinstance(base, ast.Call) and _u(base.func) == 'dict' and len(base.args) == 1 and \
                isinstance(base.args[0], ast.Name) and not base.keywords:
            tname = base.args[0].id
    if tname is None:
        raise ExtractionError('derivative_factory: unrecognised table lookup ' + _u(look))
    # if <m> is None: return Operator.derivative
    st = body[1]
    if not (isinstance(st, ast.If) and _u(st.test) == mname + ' is None' and not st.orelse and
            [_u(x) for x in _strip_doc(st.body)] == ['return Operator.derivative']):
        raise ExtractionError('derivative_factory: unrecognised fallback ' + _u(st)[:120])
    # def derivative(self, point): return MultiplyOperator(<m>(self, point))
    fn = body[2]
    if not (isinstance(fn, ast.FunctionDef) and fn.name == 'derivative' and
            [a.arg for a in fn.args.args] == ['self', 'point'] and
            [_u(x) for x in _strip_doc(fn.body)] ==
            ['return MultiplyOperator({}(self, point))'.format(mname)]):
        raise ExtractionError('derivative_factory: unrecognised generic derivative')
    if _u(body[3]) != 'return derivative':
        raise ExtractionError('derivative_factory: unrecognised return')
    # the table: one module-level assignment of a literal, never mutated / rebound
    assigns = [n for n in tree.body if isinstance(n, ast.Assign) and len(n.targets) == 1 and
               isinstance(n.targets[0], ast.Name) and n.targets[0].id == tname]
    if len(assigns) != 1:
        raise ExtractionError('table {} is not assigned exactly once at module level'.format(tname))
    for node in ast.walk(tree):
        if isinstance(node, ast.Name) and node.id == tname and not isinstance(node.ctx, ast.Load) \
                and node is not assigns[0].targets[0]:
            raise ExtractionError('table {} is rebound'.format(tname))
        if isinstance(node, (ast.Attribute, ast.Subscript)) and isinstance(node.value, ast.Name) and \
                node.value.id == tname and not (isinstance(node, ast.Attribute) and node.attr == 'get'):
            raise ExtractionError('table {} is used other than through .get'.format(tname))
        if isinstance(node, (ast.Global, ast.Nonlocal)) and tname in node.names:
            raise ExtractionError('table {} declared global'.format(tname))
    lit = assigns[0].value
    if isinstance(lit, (ast.Tuple, ast.List)):
        pairs = []
        for e in lit.elts:
            if not (isinstance(e, ast.Tuple) and len(e.elts) == 2):
                raise ExtractionError('table entry is not a pair: ' + _u(e)[:80])
            pairs.append((e.elts[0], e.elts[1]))
    elif isinstance(lit, ast.Dict):
        pairs = list(zip(lit.keys, lit.values))
    else:
        raise ExtractionError('table {} is not a tuple/list/dict literal'.format(tname))
    table = []
    for k, v in pairs:
        if not (isinstance(k, ast.Constant) and isinstance(k.value, str)):
            raise ExtractionError('table key is not a string literal')
        if k.value not in FNS:
            raise ExtractionError('ufunc {!r} has a table entry but no Lean counterpart'.format(k.value))
        if not (isinstance(v, ast.Lambda) and len(v.args.args) == 2 and not v.args.defaults and
                not v.args.vararg and not v.args.kwarg and not v.args.kwonlyargs):
            raise ExtractionError('table value is not a two-argument lambda: ' + _u(v)[:80])
        table.append((k.value, _expr(v.body, v.args.args[0].arg, v.args.args[1].arg)))
    return table


# ---- source 3: behavioural identification on the live module of the tree under test

GRID = [0.375, 0.75, 1.25, 1.5, -0.5, -1.25]   # exactly representable; the negative ones are used
#                                                where the ufunc is finite there

CANDIDATES = [
    ('cos', lambda t: math.cos(t), '(Expr.app Fn.cos)'),
    ('-sin', lambda t: -math.sin(t), '(Expr.neg (Expr.app Fn.sin))'),
    ('sin', lambda t: math.sin(t), '(Expr.app Fn.sin)'),
    ('1+tan^2', lambda t: 1 + math.tan(t) ** 2, '(Expr.add (Expr.const (1) 1) (Expr.pow (Expr.app Fn.tan) 2))'),
    ('1/(2 sqrt)', lambda t: 0.5 / math.sqrt(t), '(Expr.div (Expr.const (1) 2) (Expr.app Fn.sqrt))'),
    ('2x', lambda t: 2.0 * t, '(Expr.mul (Expr.const (2) 1) Expr.pt)'),
    ('1/x', lambda t: 1.0 / t, '(Expr.div (Expr.const (1) 1) Expr.pt)'),
    ('exp', lambda t: math.exp(t), '(Expr.app Fn.exp)'),
    ('-1/x^2', lambda t: -1.0 / (t * t), '(Expr.neg (Expr.pow (Expr.app Fn.reciprocal) 2))'),
    ('cosh', lambda t: math.cosh(t), '(Expr.app Fn.cosh)'),
    ('sinh', lambda t: math.sinh(t), '(Expr.app Fn.sinh)'),
    ('-sinh', lambda t: -math.sinh(t), '(Expr.neg (Expr.app Fn.sinh))'),
]
# the spelling the AST sources produce for the unchanged code (so that the proofs re-check)
HOME = {
    'deriv': {'sin': ('cos', '(Expr.app Fn.cos)'), 'cos': ('-sin', '(Expr.neg (Expr.app Fn.sin))'),
              'tan': ('1+tan^2', '(Expr.add (Expr.const (1) 1) (Expr.pow Expr.self 2))'),
              'sqrt': ('1/(2 sqrt)', '(Expr.div (Expr.const (1) 2) Expr.self)'),
              'square': ('2x', '(Expr.mul (Expr.const (2) 1) Expr.pt)'),
              'log': ('1/x', '(Expr.div (Expr.const (1) 1) Expr.pt)'),
              'exp': ('exp', 'Expr.self'),
              'reciprocal': ('-1/x^2', '(Expr.neg (Expr.pow Expr.self 2))'),
              'sinh': ('cosh', '(Expr.app Fn.cosh)'), 'cosh': ('sinh', '(Expr.app Fn.sinh)')},
    'grad': {'sin': ('cos', '(Expr.app Fn.cos)'), 'cos': ('-sin', '(Expr.neg (Expr.app Fn.sin))'),
             'tan': ('1+tan^2', '(Expr.add (Expr.const (1) 1) (Expr.comp Fn.square Expr.self))'),
             'sqrt': ('1/(2 sqrt)', '(Expr.div (Expr.const (1) 2) Expr.self)'),
             'square': ('2x', '(Expr.mul (Expr.const (2) 1) Expr.pt)'),
             'log': ('1/x', '(Expr.app Fn.reciprocal)'),
             'exp': ('exp', 'Expr.self'),
             'reciprocal': ('-1/x^2', '(Expr.div (Expr.const (-1) 1) (Expr.app Fn.square))'),
             'sinh': ('cosh', '(Expr.app Fn.cosh)'), 'cosh': ('sinh', '(Expr.app Fn.sinh)')},
}

_PROBE = r"""
import json, sys, warnings
warnings.filterwarnings('ignore')
import numpy as np
import odl
import odl.ufunc_ops as uo
from odl.util.ufuncs import UFUNCS
from odl.operator import OpNotImplementedError
which, grid = sys.argv[1], json.loads(sys.argv[2])
out = {}
r3 = odl.rn(3)
for name, nin, nout, _ in UFUNCS:
    if nin != 1 or nout != 1:
        continue
    rec = {'status': None, 'pts': []}
    try:
        obj = getattr(uo, name)(r3) if which == 'deriv' else getattr(uo, name)()
    except Exception as e:
        rec['status'] = 'unavailable'; rec['detail'] = type(e).__name__
        out[name] = rec
        continue
    if which == 'deriv' and obj.range != obj.domain:
        rec['status'] = 'other-range'    # boolean / integer valued ufuncs (isnan, signbit, ...)
    if obj.is_linear:
        rec['linear'] = True
    stats = set()
    for t in grid:
        try:
            with np.errstate(all='ignore'):
                if which == 'deriv':
                    x = r3.element([t, t / 2, t / 4])
                    fx = np.asarray(obj(x))
                else:
                    x = float(t)
                    fx = np.asarray([obj(x)], dtype=float)
            if not np.all(np.isfinite(fx.astype(float))):
                continue
        except Exception as e:
            continue
        try:
            with np.errstate(all='ignore'):
                D = obj.derivative(x)
        except (OpNotImplementedError, NotImplementedError):
            stats.add('none')
            continue
        except Exception as e:
            stats.add('error:' + type(e).__name__ + ':' + str(e)[:80])
            continue
        try:
            with np.errstate(all='ignore'):
                if which == 'deriv':
                    if D is obj:
                        stats.add('self')
                        continue
                    if not D.is_linear or D.domain != obj.domain or D.range != obj.range:
                        stats.add('error:derivative not a linear operator domain -> range')
                        continue
                    cols = [np.asarray(D(r3.element(e))) for e in np.eye(3)]
                    M = np.array(cols).T
                    if np.any(M - np.diag(np.diag(M)) != 0):
                        stats.add('error:derivative is not diagonal')
                        continue
                    u = np.array([1.5, -0.25, 2.0]); v = np.array([-0.5, 0.75, 1.0])
                    lhs = np.asarray(D(r3.element(2.5 * u + v)))
                    rhs = 2.5 * np.asarray(D(r3.element(u))) + np.asarray(D(r3.element(v)))
                    if not np.allclose(lhs, rhs, rtol=1e-12, atol=1e-300) or                             not np.allclose(np.asarray(D(r3.one())), np.diag(M), rtol=1e-15, atol=0):
                        stats.add('error:derivative is not linear')
                        continue
                    m = np.diag(M)
                    if not np.all(np.isfinite(m)):
                        continue
                    stats.add('mult')
                    for tk, mk in zip([t, t / 2, t / 4], m.tolist()):
                        rec['pts'].append([tk, mk])
                else:
                    if not D.is_linear:
                        stats.add('error:derivative not linear')
                        continue
                    a, b = float(D(1.0)), float(D(2.5))
                    if not (abs(b - 2.5 * a) <= 1e-12 * abs(b) + 1e-300):
                        stats.add('error:derivative is not linear')
                        continue
                    if not np.isfinite(a):
                        continue
                    stats.add('mult')
                    rec['pts'].append([t, a])
        except Exception as e:
            stats.add('error:' + type(e).__name__ + ':' + str(e)[:80])
    rec['stats'] = sorted(stats)
    out[name] = rec
print('PROBE-JSON ' + json.dumps(out))
"""


def _probe(repo, which):
    env = dict(os.environ)
    env['PYTHONPATH'] = repo
    env['PYTHONDONTWRITEBYTECODE'] = '1'
    p = subprocess.run([sys.executable, '-c', _PROBE, which, json.dumps(GRID)], env=env,
                       stdout=subprocess.PIPE, stderr=subprocess.PIPE, text=True, timeout=600)
    for line in p.stdout.split('\n'):
        if line.startswith('PROBE-JSON '):
            return json.loads(line[len('PROBE-JSON '):])
    raise ExtractionError('live probe of the {} table failed: rc={} {}'.format(
        which, p.returncode, p.stderr[-400:]))


def _live_table(repo, which):
    """Source 3 (see the module docstring). Returns (table, record for the evidence)."""
    data = _probe(repo, which)
    table = {}
    record = {'grid': GRID, 'points_per_name': {}, 'no_derivative': [], 'linear_self': []}
    for name, rec in sorted(data.items()):
        stats = rec.get('stats', [])
        if rec['status'] == 'unavailable':
            continue
        bad = [x for x in stats if x.startswith('error')]
        if bad:
            raise ExtractionError('live {} table: ufunc {}: {}'.format(which, name, bad[0]))
        if stats == ['none'] or stats == []:
            if name in FNS and stats == []:
                raise ExtractionError('live {} table: ufunc {} could not be evaluated on the grid'.format(which, name))
            record['no_derivative'].append(name)
            continue
        if stats == ['self']:
            if not rec.get('linear'):
                raise ExtractionError('live {} table: {} returns self without being flagged linear'.format(which, name))
            record['linear_self'].append(name)
            continue
        if stats != ['mult']:
            raise ExtractionError('live {} table: ufunc {} behaves inconsistently on the grid: {}'.format(
                which, name, stats))
        if rec['status'] == 'other-range':
            raise ExtractionError('live {} table: {} has a derivative but range != domain'.format(which, name))
        pts = rec['pts']
        if len(pts) < 4:
            raise ExtractionError('live {} table: too few grid points for {}'.format(which, name))
        matches = []
        for label, fn, absolute in CANDIDATES:
            ok = True
            for t, m in pts:
                try:
                    c = fn(t)
                except (ValueError, ZeroDivisionError, OverflowError):
                    ok = False
                    break
                if not abs(c - m) <= 1e-12 * max(abs(c), abs(m)):
                    ok = False
                    break
            if ok:
                matches.append((label, absolute))
        if len(matches) != 1:
            raise ExtractionError('live {} table: multiplier of {} matches {} candidates ({}) on the grid; '
                                  'values {}'.format(which, name, len(matches), [l for l, _ in matches], pts[:3]))
        if name not in FNS:
            raise ExtractionError('live {} table: ufunc {!r} has a derivative ({}) but no Lean counterpart'.format(
                which, name, matches[0][0]))
        label, absolute = matches[0]
        home = HOME[which][name]
        table[name] = home[1] if home[0] == label else absolute
        record['points_per_name'][name] = len(pts)
    return [(n, table[n]) for n in FNS if n in table], record


SOURCES = {}


def _canon(table, what):
    names = [n for n, _ in table]
    if len(set(names)) != len(names):
        raise ExtractionError('{}: duplicate ufunc names {}'.format(what, names))
    d = dict(table)
    return [(n, d[n]) for n in FNS if n in d]


def extract(repo=core.REPO):
    path = os.path.join(repo, 'odl', 'ufunc_ops', 'ufunc_ops.py')
    with open(path) as f:
        tree = ast.parse(f.read())
    SOURCES.clear()
    errors = []
    table = None
    for label, fn in (('ast-chain', lambda: _chain(tree, 'derivative_factory', _inner,
                                                   ['derivative = Operator.derivative'])),
                      ('ast-table', lambda: _table_form(tree))):
        try:
            table = _canon(fn(), 'derivative table')
            SOURCES['derivative_table'] = {'source': label}
            break
        except ExtractionError as e:
            errors.append('{}: {}'.format(label, e))
    if table is None:
        table, rec = _live_table(repo, 'deriv')     # raises ExtractionError = fail closed
        rec.update({'source': 'live', 'ast_sources_declined': errors})
        SOURCES['derivative_table'] = rec
    errors = []
    gtable = None
    try:
        gtable = _canon(_chain(tree, 'gradient_factory', _inner_grad,
                               ['gradient = Functional.gradient.fget', 'gradient = Functional.gradient']),
                        'gradient table')
        SOURCES['gradient_table'] = {'source': 'ast-chain'}
    except ExtractionError as e:
        errors.append('ast-chain: {}'.format(e))
        gtable, rec = _live_table(repo, 'grad')
        rec.update({'source': 'live', 'ast_sources_declined': errors})
        SOURCES['gradient_table'] = rec
    lin = [n for n in tree.body if isinstance(n, ast.Assign) and _u(n.targets[0]) == 'LINEAR_UFUNCS']
    if len(lin) != 1:
        raise ExtractionError('LINEAR_UFUNCS not found')
    linear = ast.literal_eval(lin[0].value)
    out = ['/- GENERATED by tools/extract/ufunc_deriv.py from odl/ufunc_ops/ufunc_ops.py — do not edit. -/',
           'import OdlModel.Model.UfuncExpr',
           'namespace OdlModel.Gen.UfuncDeriv',
           'open OdlModel.UfuncDeriv',
           '',
           '/-- `derivative_factory`: ufunc name ↦ multiplicand of the returned `MultiplyOperator`. -/',
           'def table : List (Fn × Expr) := [']
    out.append(',\n'.join('  (Fn.{}, {})'.format(n, e) for n, e in table))
    out.append(']')
    out.append('')
    out.append('/-- `gradient_factory` (ufunc FUNCTIONALS on a field): ufunc name ↦ the gradient functional, '
               'read point-wise. -/')
    out.append('def gradTable : List (Fn × Expr) := [')
    out.append(',\n'.join('  (Fn.{}, {})'.format(n, e) for n, e in gtable))
    out.append(']')
    out.append('')
    out.append('/-- `LINEAR_UFUNCS` (flagged linear, derivative = self through `Operator.derivative`). -/')
    out.append('def linearUfuncs : List String := [{}]'.format(', '.join('"{}"'.format(s) for s in linear)))
    out.append('')
    out.append('end OdlModel.Gen.UfuncDeriv')
    return '\n'.join(out) + '\n'


def regenerate(repo=core.REPO):
    lean = extract(repo)
    return core.write_if_changed(
        os.path.join(core.LEAN, 'OdlModel', 'Gen', 'UfuncDeriv.lean'), lean)


if __name__ == '__main__':
    print(extract())
