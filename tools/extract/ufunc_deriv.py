"""Translator: odl/ufunc_ops/ufunc_ops.py::derivative_factory  ->  OdlModel/Gen/UfuncDeriv.lean

Grammar (anything else raises ExtractionError = broken obligation, never a pass):
  derivative_factory(name) is an `if name == '<ufunc>': def derivative(self, point): ...`
  chain with a final `else: derivative = Operator.derivative`.  Each inner function is
  optionally `point = self.domain.element(point)` followed by
  `return MultiplyOperator(<expr>)` with
  <expr> ::= point | self(point) | <ufunc>(self.domain)(point) | <number>
           | -<expr> | <expr> (+|*|/) <expr> | <expr> ** <nat>
Also extracted: LINEAR_UFUNCS.
"""
import ast
import os
from fractions import Fraction

from vf import core

FNS = ['sin', 'cos', 'tan', 'sqrt', 'square', 'log', 'exp', 'reciprocal', 'sinh', 'cosh']


class ExtractionError(Exception):
    pass


def _u(node):
    return ast.unparse(node)


def _expr(node):
    if isinstance(node, ast.Name) and node.id == 'point':
        return 'Expr.pt'
    if isinstance(node, ast.Call) and _u(node) == 'self(point)':
        return 'Expr.self'
    if (isinstance(node, ast.Call) and len(node.args) == 1 and _u(node.args[0]) == 'point' and
            isinstance(node.func, ast.Call) and isinstance(node.func.func, ast.Name) and
            len(node.func.args) == 1 and _u(node.func.args[0]) == 'self.domain' and
            not node.keywords and not node.func.keywords):
        g = node.func.func.id
        if g not in FNS:
            raise ExtractionError('unknown ufunc operator ' + g)
        return '(Expr.app Fn.{})'.format(g)
    if isinstance(node, ast.Constant) and isinstance(node.value, (int, float)) \
            and not isinstance(node.value, bool):
        q = Fraction(node.value)
        return '(Expr.const ({}) {})'.format(q.numerator, q.denominator)
    if isinstance(node, ast.UnaryOp) and isinstance(node.op, ast.USub):
        return '(Expr.neg {})'.format(_expr(node.operand))
    if isinstance(node, ast.BinOp):
        if isinstance(node.op, ast.Pow):
            if not (isinstance(node.right, ast.Constant) and isinstance(node.right.value, int)
                    and node.right.value >= 0):
                raise ExtractionError('unsupported exponent ' + _u(node))
            return '(Expr.pow {} {})'.format(_expr(node.left), node.right.value)
        ops = {ast.Add: 'add', ast.Mult: 'mul', ast.Div: 'div'}
        for k, v in ops.items():
            if isinstance(node.op, k):
                return '(Expr.{} {} {})'.format(v, _expr(node.left), _expr(node.right))
    raise ExtractionError('expression outside the grammar: ' + _u(node))


def _num(node):
    if isinstance(node, ast.Constant) and isinstance(node.value, (int, float)) \
            and not isinstance(node.value, bool):
        q = Fraction(node.value)
        return '(Expr.const ({}) {})'.format(q.numerator, q.denominator)
    if isinstance(node, ast.UnaryOp) and isinstance(node.op, ast.USub):
        inner = node.operand
        if isinstance(inner, ast.Constant) and isinstance(inner.value, (int, float)):
            q = -Fraction(inner.value)
            return '(Expr.const ({}) {})'.format(q.numerator, q.denominator)
    raise ExtractionError('not a number: ' + _u(node))


def _is_dom_call(node, name=None):
    """`<name>(self.domain)` -> name."""
    if (isinstance(node, ast.Call) and isinstance(node.func, ast.Name) and len(node.args) == 1 and
            _u(node.args[0]) == 'self.domain' and not node.keywords):
        return node.func.id
    return None


def _fexpr(node):
    """Functional-valued expressions of gradient_factory, read point-wise:
    self | g(self.domain) | -F | NUM + F | g(self.domain) * F  (composition g o F)
    | FunctionalQuotient(F, F) | ConstantFunctional(self.domain, NUM)
    | ScalingFunctional(self.domain, NUM)"""
    if isinstance(node, ast.Name) and node.id == 'self':
        return 'Expr.self'
    g = _is_dom_call(node)
    if g is not None:
        if g not in FNS:
            raise ExtractionError('unknown ufunc functional ' + g)
        return '(Expr.app Fn.{})'.format(g)
    if isinstance(node, ast.UnaryOp) and isinstance(node.op, ast.USub):
        return '(Expr.neg {})'.format(_fexpr(node.operand))
    if isinstance(node, ast.BinOp) and isinstance(node.op, ast.Add):
        return '(Expr.add {} {})'.format(_num(node.left), _fexpr(node.right))
    if isinstance(node, ast.BinOp) and isinstance(node.op, ast.Mult):
        g = _is_dom_call(node.left)
        if g is None or g not in FNS:
            raise ExtractionError('unsupported product ' + _u(node))
        return '(Expr.comp Fn.{} {})'.format(g, _fexpr(node.right))
    if isinstance(node, ast.Call) and isinstance(node.func, ast.Name) and not node.keywords:
        f = node.func.id
        if f == 'FunctionalQuotient' and len(node.args) == 2:
            return '(Expr.div {} {})'.format(_fexpr(node.args[0]), _fexpr(node.args[1]))
        if f == 'ConstantFunctional' and len(node.args) == 2 and _u(node.args[0]) == 'self.domain':
            return _num(node.args[1])
        if f == 'ScalingFunctional' and len(node.args) == 2 and _u(node.args[0]) == 'self.domain':
            return '(Expr.mul {} Expr.pt)'.format(_num(node.args[1]))
    raise ExtractionError('functional expression outside the grammar: ' + _u(node))


def _inner_grad(fn):
    if not (isinstance(fn, ast.FunctionDef) and fn.name == 'gradient' and
            [a.arg for a in fn.args.args] == ['self']):
        raise ExtractionError('unexpected inner definition ' + _u(fn)[:80])
    body = list(fn.body)
    if body and isinstance(body[0], ast.Expr) and isinstance(body[0].value, ast.Constant) \
            and isinstance(body[0].value.value, str):
        body = body[1:]
    if len(body) != 1 or not isinstance(body[0], ast.Return):
        raise ExtractionError('unexpected body of gradient: ' + _u(fn)[:200])
    return _fexpr(body[0].value)


def _chain(tree, facname, inner, fallbacks):
    fac = [n for n in tree.body if isinstance(n, ast.FunctionDef) and n.name == facname]
    if len(fac) != 1:
        raise ExtractionError(facname + ' not found')
    body = [s for s in fac[0].body if not (isinstance(s, ast.Expr) and isinstance(s.value, ast.Constant))]
    if len(body) != 2 or not isinstance(body[0], ast.If) or not _u(body[1]).startswith('return '):
        raise ExtractionError(facname + ' is not an if-chain followed by return')
    table = []
    node = body[0]
    while True:
        t = node.test
        if not (isinstance(t, ast.Compare) and _u(t.left) == 'name' and len(t.ops) == 1 and
                isinstance(t.ops[0], ast.Eq) and isinstance(t.comparators[0], ast.Constant)):
            raise ExtractionError('unexpected test ' + _u(t))
        name = t.comparators[0].value
        if name not in FNS:
            raise ExtractionError('ufunc {!r} has a branch but no Lean counterpart'.format(name))
        if len(node.body) != 1:
            raise ExtractionError('unexpected branch body for ' + name)
        table.append((name, inner(node.body[0])))
        if len(node.orelse) == 1 and isinstance(node.orelse[0], ast.If):
            node = node.orelse[0]
            continue
        if len(node.orelse) != 1 or _u(node.orelse[0]) not in fallbacks:
            raise ExtractionError('unexpected fallback: ' + ' ; '.join(_u(s) for s in node.orelse))
        break
    return table


def _inner(fn):
    if not (isinstance(fn, ast.FunctionDef) and fn.name == 'derivative' and
            [a.arg for a in fn.args.args] == ['self', 'point']):
        raise ExtractionError('unexpected inner definition ' + _u(fn)[:80])
    body = list(fn.body)
    if body and isinstance(body[0], ast.Expr) and isinstance(body[0].value, ast.Constant) \
            and isinstance(body[0].value.value, str):
        body = body[1:]
    if body and _u(body[0]) == 'point = self.domain.element(point)':
        body = body[1:]
    if len(body) != 1 or not isinstance(body[0], ast.Return):
        raise ExtractionError('unexpected body of derivative: ' + _u(fn)[:200])
    call = body[0].value
    if not (isinstance(call, ast.Call) and _u(call.func) == 'MultiplyOperator' and
            len(call.args) == 1 and not call.keywords):
        raise ExtractionError('derivative does not return MultiplyOperator(expr): ' + _u(call))
    return _expr(call.args[0])


def extract(repo=core.REPO):
    path = os.path.join(repo, 'odl', 'ufunc_ops', 'ufunc_ops.py')
    with open(path) as f:
        tree = ast.parse(f.read())
    table = _chain(tree, 'derivative_factory', _inner, ['derivative = Operator.derivative'])
    gtable = _chain(tree, 'gradient_factory', _inner_grad,
                    ['gradient = Functional.gradient.fget', 'gradient = Functional.gradient'])
    lin = [n for n in tree.body if isinstance(n, ast.Assign) and _u(n.targets[0]) == 'LINEAR_UFUNCS']
    if len(lin) != 1:
        raise ExtractionError('LINEAR_UFUNCS not found')
    linear = ast.literal_eval(lin[0].value)
    out = ['/- GENERATED by tools/extract/ufunc_deriv.py from odl/ufunc_ops/ufunc_ops.py — do not edit. -/',
           'import OdlModel.Model.UfuncExpr',
           'namespace OdlModel.Gen.UfuncDeriv',
           'open OdlModel.UfuncDeriv',
           '',
           '/-- `derivative_factory`: ufunc name ↦ multiplicand of the returned `MultiplyOperator`. -/',
           'def table : List (Fn × Expr) := [']
    out.append(',\n'.join('  (Fn.{}, {})'.format(n, e) for n, e in table))
    out.append(']')
    out.append('')
    out.append('/-- `gradient_factory` (ufunc FUNCTIONALS on a field): ufunc name ↦ the gradient functional, '
               'read point-wise. -/')
    out.append('def gradTable : List (Fn × Expr) := [')
    out.append(',\n'.join('  (Fn.{}, {})'.format(n, e) for n, e in gtable))
    out.append(']')
    out.append('')
    out.append('/-- `LINEAR_UFUNCS` (flagged linear, derivative = self through `Operator.derivative`). -/')
    out.append('def linearUfuncs : List String := [{}]'.format(', '.join('"{}"'.format(s) for s in linear)))
    out.append('')
    out.append('end OdlModel.Gen.UfuncDeriv')
    return '\n'.join(out) + '\n'


def regenerate(repo=core.REPO):
    lean = extract(repo)
    return core.write_if_changed(
        os.path.join(core.LEAN, 'OdlModel', 'Gen', 'UfuncDeriv.lean'), lean)


if __name__ == '__main__':
    print(extract())
