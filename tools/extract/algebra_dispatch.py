"""Translator: the arithmetic overloads of odl/operator/operator.py and
odl/solvers/functional/functional.py  ->  OdlModel/Gen/AlgebraDispatch.lean

What is extracted (see lean/OdlModel/Model/OpDispatch.lean for the target language):
  * Operator.__add__/__mul__/__rmul__, OperatorRightScalarMult.__mul__, Functional.__add__/
    __mul__/__rmul__ as `Act` terms.  The bodies are not shape-matched: dispatch_interp.py
    EXECUTES each body once per abstract operand class of the model (66 "worlds": other is an
    operator / Functional / Real or non-Real, zero or non-zero scalar / element in or out of
    range and domain; self linear, range / domain a field) over a closed vocabulary of
    statements, tests and constructor calls, and the decision table is rendered as a canonical
    term (fixed atom order, equal branches merged).  Guard clauses vs elif chains, test order,
    named booleans, conditional expressions picking the class and extracted helpers give the
    same output; a different result for any operand class gives a different table;
  * the one-line overloads (__radd__, __sub__, __rsub__, __neg__, __truediv__, __matmul__,
    Functional.__sub__, the alias Functional.__radd__ = __add__, the __pow__ loop) as `Deleg`s;
  * which classes define arithmetic overloads at all (the MRO chain the interpreter hard-codes);
  * the two __array_priority__ values, the scalar-merging shortcut of the two ScalarMult
    constructors (symbolic execution of every rebinding of scalar/operator, module-level helper
    calls inlined), the __pow__ loop (interpreted for n = -1..5 in its two recognisable forms:
    countdown while, `for _ in range(n - 1)`), and for each of the 19 expression classes how its constructor sets is_linear
    (the LAST base initialiser in source order wins, as in Python).
The grammar is deliberately tiny; anything outside it raises ExtractionError, which the check
treats as a broken obligation (then searches the real code), never as a pass.
"""
import ast
import os

from vf import core
from extract import dispatch_interp as di


ExtractionError = di.ExtractionError


def _u(node):
    return ast.unparse(node)


def _strip(body):
    """drop the docstring, comments are not in the AST, local imports are irrelevant"""
    if body and isinstance(body[0], ast.Expr) and isinstance(body[0].value, ast.Constant) \
            and isinstance(body[0].value.value, str):
        body = body[1:]
    return [s for s in body if not isinstance(s, (ast.Import, ast.ImportFrom))]


CLASSES = ['OperatorSum', 'OperatorVectorSum', 'OperatorComp', 'OperatorPointwiseProduct',
           'OperatorLeftScalarMult', 'OperatorRightScalarMult', 'OperatorLeftVectorMult',
           'OperatorRightVectorMult', 'FunctionalLeftVectorMult', 'FunctionalSum',
           'FunctionalScalarSum', 'FunctionalComp', 'FunctionalProduct', 'FunctionalQuotient',
           'FunctionalLeftScalarMult', 'FunctionalRightScalarMult', 'FunctionalRightVectorMult',
           'ConstantFunctional', 'ZeroFunctional']

ARGS = {
    ('self', 'other'): 'selfOther',
    ('other', 'self'): 'otherSelf',
    ('self', 'other.copy()'): 'selfOtherCopy',
    ('self', 'constant_vector'): 'selfOtherTimesOne',
    ('self', 'other * self.range.one()'): 'selfOtherTimesOne',
    ('self.operator', 'self.scalar * other', 'self.__tmp'): 'opScalTimesOther',
    ('self.domain', 'self(self.domain.zero())'): 'domainSelfAtZero',
    ('self.domain',): 'domain',
}


DELEGS = {
    'return self + other': 'selfPlusOther',
    'return self + -1 * other': 'selfPlusNegOneTimesOther',
    'return -1 * self + other': 'negOneTimesSelfPlusOther',
    'return -1 * self': 'negOneTimesSelf',
    'if isinstance(other, Number):\n    return self * (1.0 / other)\nelse:\n    return NotImplemented':
        'selfTimesRecipOther',
    'return self.__mul__(other)': 'selfMulOther',
    'return self.__rmul__(other)': 'selfRMulOther',
}

ARITH = ['__add__', '__radd__', '__sub__', '__rsub__', '__mul__', '__rmul__', '__matmul__',
         '__rmatmul__', '__pow__', '__truediv__', '__div__', '__neg__', '__pos__',
         '__rtruediv__', '__rpow__', '__iadd__', '__isub__', '__imul__', '__itruediv__']

EXPECTED_OVERRIDES = {
    'Operator': ['__add__', '__radd__', '__sub__', '__rsub__', '__mul__', '__matmul__', '__rmul__',
                 '__rmatmul__', '__pow__', '__truediv__', '__div__', '__neg__', '__pos__'],
    'OperatorRightScalarMult': ['__mul__'],
    'Functional': ['__mul__', '__rmul__', '__add__', '__radd__', '__sub__'],
}


def _deleg(fn):
    s = '\n'.join(_u(x) for x in _strip(fn.body))
    if s not in DELEGS:
        raise ExtractionError('unknown one-line overload {}: `{}`'.format(fn.name, s))
    return 'Deleg.' + DELEGS[s]


def _classes(tree):
    return {n.name: n for n in tree.body if isinstance(n, ast.ClassDef)}


def _methods(cls):
    return {n.name: n for n in cls.body if isinstance(n, ast.FunctionDef)}


def _aliases(cls):
    out = {}
    for n in cls.body:
        if isinstance(n, ast.Assign) and len(n.targets) == 1 and isinstance(n.targets[0], ast.Name) \
                and isinstance(n.value, ast.Name):
            out[n.targets[0].id] = n.value.id
    return out


def _class_const(cls, name):
    for n in cls.body:
        if isinstance(n, ast.Assign) and len(n.targets) == 1 and _u(n.targets[0]) == name:
            return ast.literal_eval(n.value)
    raise ExtractionError('{} not found in {}'.format(name, cls.name))


# --- is_linear of the constructors ------------------------------------------------------

LIN_EXPR = {
    'operator.is_linear': 'operand', 'func.is_linear': 'operand', 'functional.is_linear': 'operand',
    'left.is_linear and right.is_linear': 'both', 'func.is_linear and op.is_linear': 'both',
    'False': 'never', 'constant == 0': 'constIsZero',
}


def _init_calls(cls):
    """(callee text, call node) of every base-initialiser call in __init__, in source order"""
    init = _methods(cls).get('__init__')
    if init is None:
        raise ExtractionError('{} has no __init__'.format(cls.name))
    out = []
    for node in ast.walk(init):
        if isinstance(node, ast.Call) and isinstance(node.func, ast.Attribute) \
                and node.func.attr == '__init__':
            out.append((node.lineno, node.col_offset, _u(node.func.value), node))
    out.sort(key=lambda t: t[:2])
    return [(t[2], t[3]) for t in out]


def _flag_of_call(cname, callee, call, flags):
    kw = {k.arg: k.value for k in call.keywords}
    if callee in ('Functional', 'super({}, self)'.format(cname)) or callee == 'Operator':
        # FunctionalScalarSum: FunctionalSum.__init__(left=func, right=ConstantFunctional(constant=scalar))
        if cname == 'FunctionalScalarSum':
            if _u(kw.get('left', ast.Constant(None))) == 'func' and \
                    _u(kw.get('right', ast.Constant(None))) == \
                    'ConstantFunctional(space=func.domain, constant=scalar)' and \
                    flags.get('FunctionalSum') == 'both':
                return 'bothWithConstant'
            raise ExtractionError('FunctionalScalarSum.__init__ changed: ' + _u(call))
        if cname == 'ZeroFunctional':
            if _u(kw.get('constant', ast.Constant(None))) == '0' and \
                    flags.get('ConstantFunctional') == 'constIsZero':
                return 'always'
            raise ExtractionError('ZeroFunctional.__init__ changed: ' + _u(call))
        if 'linear' in kw:
            e = _u(kw['linear'])
        elif callee != 'Functional' and len(call.args) >= 3 and cname.startswith('Operator'):
            e = _u(call.args[2])  # Operator.__init__(domain, range, linear)
        else:
            e = 'False'          # default of Operator.__init__ / Functional.__init__
        if e not in LIN_EXPR:
            raise ExtractionError('unknown is_linear expression `{}` in {}'.format(e, cname))
        return LIN_EXPR[e]
    if callee in flags:          # OperatorX.__init__(self, ...): the base class decides
        return flags[callee]
    raise ExtractionError('unknown base initialiser {} in {}'.format(callee, cname))


def _flags(op_classes, fn_classes, df_classes):
    flags = {}
    order = ['OperatorSum', 'OperatorVectorSum', 'OperatorComp', 'OperatorPointwiseProduct',
             'OperatorLeftScalarMult', 'OperatorRightScalarMult', 'OperatorLeftVectorMult',
             'OperatorRightVectorMult', 'FunctionalLeftVectorMult', 'ConstantFunctional',
             'ZeroFunctional', 'FunctionalSum', 'FunctionalScalarSum', 'FunctionalComp',
             'FunctionalProduct', 'FunctionalQuotient', 'FunctionalLeftScalarMult',
             'FunctionalRightScalarMult', 'FunctionalRightVectorMult']
    for c in order:
        cls = op_classes.get(c) or fn_classes.get(c) or df_classes.get(c)
        if cls is None:
            raise ExtractionError('class {} not found'.format(c))
        calls = _init_calls(cls)
        if not calls:
            raise ExtractionError('{}.__init__ calls no base initialiser'.format(c))
        callee, call = calls[-1]     # the last one executed overwrites the attributes
        flags[c] = _flag_of_call(c, callee, call, flags)
    return flags


def _stores(fn, names):
    """every statement of `fn` that (re)binds one of `names`"""
    out = []
    for node in ast.walk(fn):
        if isinstance(node, (ast.Assign, ast.AugAssign, ast.AnnAssign, ast.For, ast.With,
                             ast.NamedExpr)):
            targets = []
            if isinstance(node, ast.Assign):
                targets = node.targets
            elif isinstance(node, (ast.AugAssign, ast.AnnAssign, ast.NamedExpr)):
                targets = [node.target]
            elif isinstance(node, ast.For):
                targets = [node.target]
            elif isinstance(node, ast.With):
                targets = [i.optional_vars for i in node.items if i.optional_vars is not None]
            for t in targets:
                for n in ast.walk(t):
                    if isinstance(n, ast.Name) and n.id in names:
                        out.append(node)
    return out


def _functional_scalar_ctor_ok(fnc):
    """FunctionalLeft/RightScalarMult.__init__ must not rebind func/scalar except for the cast
    `scalar = func.domain.field.element(scalar)` of the Right class, and must hand exactly
    (operator=func, scalar=scalar) to the Operator base constructor."""
    want = {'FunctionalLeftScalarMult': ([], 'OperatorLeftScalarMult'),
            'FunctionalRightScalarMult': (['scalar = func.domain.field.element(scalar)'],
                                          'OperatorRightScalarMult')}
    for name, (stores, base) in want.items():
        init = _methods(fnc[name])['__init__']
        got = sorted(set(_u(x) for x in _stores(init, ('scalar', 'func', 'operator'))))
        if got != stores:
            return False, '{}.__init__ rebinds {}'.format(name, got)
        calls = [c for callee, c in _init_calls(fnc[name]) if callee == base]
        if len(calls) != 1 or _u(calls[0]) != '{}.__init__(self, operator=func, scalar=scalar)'.format(base):
            return False, '{}.__init__ base call changed'.format(name)
    return True, ''


# --- out-of-place `_call` bodies -> CExpr ----------------------------------------------

SUBS = {'left': 'first', 'operator': 'first', 'functional': 'first', 'dividend': 'first',
        'right': 'second', 'divisor': 'second'}
ATTRS = {'scalar': 'scalar', 'vector': 'vector', 'constant': 'constant'}


def _cexpr(node):
    if isinstance(node, ast.Name) and node.id == 'x':
        return 'CExpr.x'
    if isinstance(node, ast.Attribute) and _u(node.value) == 'self' and node.attr in ATTRS:
        return 'CExpr.' + ATTRS[node.attr]
    if isinstance(node, ast.Call) and isinstance(node.func, ast.Attribute) and \
            _u(node.func.value) == 'self' and node.func.attr in SUBS and len(node.args) == 1 \
            and not node.keywords:
        return '(CExpr.{} {})'.format(SUBS[node.func.attr], _cexpr(node.args[0]))
    if isinstance(node, ast.BinOp) and isinstance(node.op, (ast.Add, ast.Mult, ast.Div)):
        op = {ast.Add: 'add', ast.Mult: 'mul', ast.Div: 'div'}[type(node.op)]
        return '(CExpr.{} {} {})'.format(op, _cexpr(node.left), _cexpr(node.right))
    raise ExtractionError('unknown expression in a _call body: `{}`'.format(_u(node)))


# --- in-place (`out` given) branches of `_call` -> statement lists -----------------------

REGS = {'x': 'x', 'out': 'out', 'tmp': 'tmp', 'scalar': 'sc'}


def _reg(node):
    if isinstance(node, ast.Name) and node.id in REGS:
        return 'Reg.' + REGS[node.id]
    raise ExtractionError('unknown local in an in-place branch: `{}`'.format(_u(node)))


def _attr_opd(node):
    """`self.scalar` / `self.vector` -> Opd term, else None"""
    if isinstance(node, ast.Attribute) and _u(node.value) == 'self' and \
            node.attr in ('scalar', 'vector'):
        return 'Opd.' + node.attr
    return None


def _let_value(node):
    """Right-hand side of a local binding `name = E` in an in-place branch, where E is
    `self.scalar` / `self.vector`, possibly guarded as `E.copy() if <a> is <b> else E`.
    Registers are VALUES in the model and E is an attribute no statement of the language can
    modify, so both arms (and every later use of `name`) denote the value of E.  Returns the
    Opd term of E, or None if the node has another shape."""
    direct = _attr_opd(node)
    if direct is not None:
        return direct
    if isinstance(node, ast.IfExp) and isinstance(node.test, ast.Compare) and \
            len(node.test.ops) == 1 and isinstance(node.test.ops[0], (ast.Is, ast.IsNot)) and \
            all(isinstance(n, (ast.Name, ast.Attribute)) for n in
                [node.test.left, node.test.comparators[0]]):
        arms = [node.body, node.orelse]
        plain = [a for a in arms if _attr_opd(a) is not None]
        copies = [a for a in arms if isinstance(a, ast.Call) and not a.args and not a.keywords and
                  isinstance(a.func, ast.Attribute) and a.func.attr == 'copy' and
                  _attr_opd(a.func.value) is not None]
        if len(plain) == 1 and len(copies) == 1 and \
                _attr_opd(copies[0].func.value) == _attr_opd(plain[0]):
            return _attr_opd(plain[0])
    return None


def _opd(node, lets=None):
    if isinstance(node, ast.Name) and lets and node.id in lets:
        return lets[node.id]
    if isinstance(node, ast.Name):
        return '(Opd.reg {})'.format(_reg(node))
    if isinstance(node, ast.Attribute) and _u(node.value) == 'self' and \
            node.attr in ('scalar', 'vector'):
        return 'Opd.' + node.attr
    raise ExtractionError('unknown operand in an in-place branch: `{}`'.format(_u(node)))


def _is_private_tmp(node):
    return isinstance(node, ast.Attribute) and _u(node.value) == 'self' and \
        node.attr.lstrip('_').startswith('tmp')


def _is_fresh(node):
    """`<space>.element()` with no argument, or `self.__tmp if self.__tmp is not None else
    <space>.element()`"""
    if isinstance(node, ast.Call) and isinstance(node.func, ast.Attribute) and \
            node.func.attr == 'element' and not node.args and not node.keywords and \
            _u(node.func.value) in ('self.range', 'self.domain', 'self.right.range'):
        return True
    if isinstance(node, ast.IfExp) and _is_private_tmp(node.body) and \
            _u(node.test) == '{} is not None'.format(_u(node.body)) and _is_fresh(node.orelse):
        return True
    return False


def _sub_call(node):
    """`self.<sub>(arg[, out=dst])` -> (first?, arg node, dst node or None)"""
    if isinstance(node, ast.Call) and isinstance(node.func, ast.Attribute) and \
            _u(node.func.value) == 'self' and node.func.attr in SUBS and len(node.args) == 1:
        kws = {k.arg: k.value for k in node.keywords}
        if set(kws) <= {'out'}:
            return SUBS[node.func.attr] == 'first', node.args[0], kws.get('out')
    return None


def _b(x):
    return 'true' if x else 'false'


def _stmts(body):
    """statement list of an in-place branch -> list of Lean `Stmt` terms"""
    out = []
    lets = {}        # local name -> Opd term (value bindings of self.scalar / self.vector)
    for i, st in enumerate(body):
        last = i == len(body) - 1
        # vector = self.vector.copy() if out is self.vector else self.vector   (a `let`)
        if isinstance(st, ast.Assign) and len(st.targets) == 1 and \
                isinstance(st.targets[0], ast.Name) and st.targets[0].id not in REGS and \
                st.targets[0].id not in lets and _let_value(st.value) is not None:
            lets[st.targets[0].id] = _let_value(st.value)
            continue
        # tmp = <fresh>
        if isinstance(st, ast.Assign) and len(st.targets) == 1 and _is_fresh(st.value):
            out.append('Stmt.fresh {}'.format(_reg(st.targets[0])))
            continue
        # if self.__tmp is not None: tmp = self.__tmp  else: tmp = <fresh>
        if isinstance(st, ast.If) and len(st.body) == 1 and len(st.orelse) == 1 and \
                isinstance(st.body[0], ast.Assign) and isinstance(st.orelse[0], ast.Assign) and \
                _is_private_tmp(st.body[0].value) and \
                _u(st.test) == '{} is not None'.format(_u(st.body[0].value)) and \
                _u(st.body[0].targets[0]) == _u(st.orelse[0].targets[0]) and \
                _is_fresh(st.orelse[0].value):
            out.append('Stmt.fresh {}'.format(_reg(st.body[0].targets[0])))
            continue
        # scalar = self.functional(x)
        if isinstance(st, ast.Assign) and len(st.targets) == 1 and _sub_call(st.value) and \
                _sub_call(st.value)[2] is None:
            first, arg, _ = _sub_call(st.value)
            out.append('Stmt.callOut {} {} {}'.format(_b(first), _reg(arg), _reg(st.targets[0])))
            continue
        # self.left(x, out=tmp)   /   return self.left(tmp, out=out)   /   return out
        val = st.value if isinstance(st, ast.Expr) or (isinstance(st, ast.Return) and last) else None
        if isinstance(st, ast.Return) and last and isinstance(val, ast.Name) and val.id == 'out':
            continue
        if val is not None and _sub_call(val) and _sub_call(val)[2] is not None:
            first, arg, dst = _sub_call(val)
            if isinstance(st, ast.Return) and _u(dst) != 'out':
                raise ExtractionError('in-place branch returns a call that writes to ' + _u(dst))
            inner = _sub_call(arg)
            if inner is not None and inner[2] is None:
                # self.left(self.right(x), out=out): the inner call is out-of-place
                out.append('Stmt.callOut {} {} Reg.sc'.format(_b(inner[0]), _reg(inner[1])))
                out.append('Stmt.callIn {} Reg.sc {}'.format(_b(first), _reg(dst)))
            else:
                out.append('Stmt.callIn {} {} {}'.format(_b(first), _reg(arg), _reg(dst)))
            continue
        # out += tmp, out *= self.scalar
        if isinstance(st, ast.AugAssign) and isinstance(st.op, (ast.Add, ast.Mult)):
            out.append('Stmt.{} {} {}'.format('iadd' if isinstance(st.op, ast.Add) else 'imul',
                                              _reg(st.target), _opd(st.value, lets)))
            continue
        # tmp.lincomb(self.scalar, x) ; x.multiply(self.vector, out=tmp)
        if isinstance(st, ast.Expr) and isinstance(st.value, ast.Call) and \
                isinstance(st.value.func, ast.Attribute) and isinstance(st.value.func.value, ast.Name):
            c = st.value
            kws = {k.arg: k.value for k in c.keywords}
            if c.func.attr == 'lincomb' and len(c.args) == 2 and not kws:
                out.append('Stmt.lincomb {} {} {}'.format(_reg(c.func.value), _opd(c.args[0], lets),
                                                          _opd(c.args[1], lets)))
                continue
            if c.func.attr == 'multiply' and len(c.args) == 1 and set(kws) == {'out'}:
                out.append('Stmt.multiply {} {} {}'.format(_reg(c.func.value), _opd(c.args[0], lets),
                                                           _reg(kws['out'])))
                continue
        raise ExtractionError('unknown statement in an in-place branch: `{}`'.format(_u(st)))
    return out


def _prog(rest):
    """the `else:` part of `if out is None: return … else: …` -> Lean `Prog` term"""
    def lst(b):
        return '[' + ', '.join(_stmts(b)) + ']'
    if len(rest) == 1 and isinstance(rest[0], ast.If) and \
            _u(rest[0].test) == 'self.right.is_functional' and rest[0].orelse:
        return '(Prog.ifSecondFunctional {} {})'.format(lst(rest[0].body), lst(rest[0].orelse))
    return '(Prog.stmts {})'.format(lst(rest))


def _call_tables(opc, fnc, dfc):
    """(class -> CExpr of the out-of-place return, class -> Prog of the in-place branch or None)"""
    own, ownp = {}, {}
    for c in CLASSES:
        cls = opc.get(c) or fnc.get(c) or dfc.get(c)
        m = _methods(cls).get('_call')
        if m is None:
            continue
        argnames = [a.arg for a in m.args.args]
        body = _strip(m.body)
        if len(body) == 1 and isinstance(body[0], ast.Return) and argnames == ['self', 'x']:
            own[c] = _cexpr(body[0].value)
            ownp[c] = None          # `_call(self, x)`: no `out` branch
            continue
        if len(body) == 1 and isinstance(body[0], ast.If) and _u(body[0].test) == 'out is None' \
                and len(body[0].body) == 1 and isinstance(body[0].body[0], ast.Return) \
                and argnames == ['self', 'x', 'out'] and body[0].orelse:
            own[c] = _cexpr(body[0].body[0].value)
            ownp[c] = _prog(body[0].orelse)
            continue
        raise ExtractionError('{}._call has an unknown shape'.format(c))
    # classes without their own _call inherit it (MRO: the Operator… base; ZeroFunctional from
    # ConstantFunctional; FunctionalScalarSum from FunctionalSum)
    inherit = {'FunctionalSum': 'OperatorSum', 'FunctionalScalarSum': 'FunctionalSum',
               'FunctionalComp': 'OperatorComp', 'FunctionalProduct': 'OperatorPointwiseProduct',
               'FunctionalLeftScalarMult': 'OperatorLeftScalarMult',
               'FunctionalRightScalarMult': 'OperatorRightScalarMult',
               'FunctionalRightVectorMult': 'OperatorRightVectorMult',
               'ZeroFunctional': 'ConstantFunctional'}
    out, outp = {}, {}
    for c in CLASSES:
        k = c
        while k not in own:
            if k not in inherit:
                raise ExtractionError('no _call found for {}'.format(c))
            cls = fnc.get(k) or dfc.get(k)
            bases = [_u(b) for b in cls.bases]
            if inherit[k] not in bases:
                raise ExtractionError('bases of {} are {}'.format(k, bases))
            k = inherit[k]
        out[c] = own[k]
        outp[c] = ownp[k]
    return out, outp


def live_overrides():
    """Every class derived from Operator that is loaded by `import odl` (all modules, not only
    the parsed ones) and defines an arithmetic dunder, from the LIVE class hierarchy."""
    import odl  # noqa  (the tree selected by ODL_REPO / PYTHONPATH)
    import odl.solvers, odl.tomo, odl.trafos, odl.ufunc_ops, odl.deform  # noqa
    seen, stack, found = set(), [odl.Operator], {}
    while stack:
        c = stack.pop()
        if c in seen:
            continue
        seen.add(c)
        stack.extend(c.__subclasses__())
        if not (c.__module__ or '').startswith('odl.'):
            continue
        have = sorted(m for m in ARITH if m in vars(c))
        if have:
            found[c.__name__] = have
    return found, len(seen)


def extract(repo=None):
    repo = repo or core.REPO
    with open(os.path.join(repo, 'odl', 'operator', 'operator.py')) as f:
        op_tree = ast.parse(f.read())
    with open(os.path.join(repo, 'odl', 'solvers', 'functional', 'functional.py')) as f:
        fn_tree = ast.parse(f.read())
    with open(os.path.join(repo, 'odl', 'solvers', 'functional', 'default_functionals.py')) as f:
        df_tree = ast.parse(f.read())
    with open(os.path.join(repo, 'odl', 'set', 'space.py')) as f:
        sp_tree = ast.parse(f.read())
    opc, fnc, dfc, spc = _classes(op_tree), _classes(fn_tree), _classes(df_tree), _classes(sp_tree)
    # 1. who overrides arithmetic at all (the MRO chain hard-coded in the interpreter)
    for tree_classes in (opc, fnc, dfc):
        for name, cls in tree_classes.items():
            have = [m for m in ARITH if m in _methods(cls) or m in _aliases(cls)]
            want = EXPECTED_OVERRIDES.get(name, [])
            if sorted(have) != sorted(want):
                raise ExtractionError('arithmetic overloads of class {} are {} (expected {})'.format(
                    name, sorted(have), sorted(want)))
    if [_u(b) for b in fnc['Functional'].bases] != ['Operator']:
        raise ExtractionError('bases of Functional changed')
    for c in CLASSES:
        cls = fnc.get(c)
        if cls is not None and c.startswith('Functional') and c not in (
                'FunctionalQuotient', 'FunctionalScalarSum', 'FunctionalLeftVectorMult'):
            bases = [_u(b) for b in cls.bases]
            if len(bases) != 2 or bases[0] != 'Functional' or not bases[1].startswith('Operator'):
                raise ExtractionError('bases of {} are {}'.format(c, bases))
    O, R, F = _methods(opc['Operator']), _methods(opc['OperatorRightScalarMult']), \
        _methods(fnc['Functional'])
    di.CLASSES, di.ARGS = CLASSES, ARGS

    def act(fn, cls):
        # abstract interpretation per operand class -> decision table -> canonical Act term
        return di.canonical(di.table(fn, cls))
    acts = {
        'operatorAdd': act(O['__add__'], 'Operator'),
        'operatorMul': act(O['__mul__'], 'Operator'),
        'operatorRMul': act(O['__rmul__'], 'Operator'),
        'rscalMul': act(R['__mul__'], 'OperatorRightScalarMult'),
        'functionalAdd': act(F['__add__'], 'Functional'),
        'functionalMul': act(F['__mul__'], 'Functional'),
        'functionalRMul': act(F['__rmul__'], 'Functional'),
    }
    for k, fn in [('O', O), ('R', R), ('F', F)]:
        for m in fn.values():
            if m.name in ARITH and [a.arg for a in m.args.args] not in (
                    ['self', 'other'], ['self', 'n'], ['self']):
                raise ExtractionError('signature of {} changed'.format(m.name))
    delegs = {
        'operatorRAdd': _deleg(O['__radd__']),
        'operatorSub': _deleg(O['__sub__']),
        'operatorRSub': _deleg(O['__rsub__']),
        'operatorNeg': _deleg(O['__neg__']),
        'operatorTruediv': _deleg(O['__truediv__']),
        'functionalSub': _deleg(F['__sub__']),
    }
    if _aliases(opc['Operator']).get('__div__') != '__truediv__':
        raise ExtractionError('__div__ alias changed')
    radd_alias = _aliases(fnc['Functional']).get('__radd__') == '__add__'
    pow_ok = di.pow_is_comp_loop(O['__pow__'])
    calls, progs = _call_tables(opc, fnc, dfc)
    prio = float(_class_const(opc['Operator'], '__array_priority__')) > \
        float(_class_const(spc['LinearSpaceElement'], '__array_priority__'))
    mod_funcs = {n.name: n for n in op_tree.body if isinstance(n, ast.FunctionDef)}
    merge_l = di.merge_rule(opc['OperatorLeftScalarMult'], mod_funcs, _stores)
    merge_r = di.merge_rule(opc['OperatorRightScalarMult'], mod_funcs, _stores)
    flags = _flags(opc, fnc, dfc)

    def b(x):
        return 'true' if x else 'false'
    lines = ['/- GENERATED by tools/extract/algebra_dispatch.py from odl/operator/operator.py,',
             '   odl/solvers/functional/functional.py, default_functionals.py — do not edit. -/',
             'import OdlModel.Model.OpDispatch', 'namespace OdlModel.Gen.AlgebraDispatch',
             'open OdlModel.OpAlgebra', '']
    for k in ['operatorAdd', 'operatorMul', 'operatorRMul', 'rscalMul', 'functionalAdd',
              'functionalMul', 'functionalRMul']:
        lines += ['def {} : Act :='.format(k), '  ' + acts[k], '']
    lines += ['def flagOf : Cls → Flag']
    for c in CLASSES:
        lines.append('  | .{} => .{}'.format(c, flags[c]))
    lines += ['', 'def callOf : Cls → CExpr']
    for c in CLASSES:
        lines.append('  | .{} => {}'.format(c, calls[c]))
    lines += ['', 'def inplaceOf : Cls → Option Prog']
    for c in CLASSES:
        lines.append('  | .{} => {}'.format(c, 'none' if progs[c] is None else 'some ' + progs[c]))
    lines += ['', 'def tables : Tables where']
    for k in ['operatorAdd', 'operatorMul', 'operatorRMul', 'rscalMul', 'functionalAdd',
              'functionalMul', 'functionalRMul']:
        lines.append('  {0} := {0}'.format(k))
    for k in ['operatorRAdd', 'operatorSub', 'operatorRSub', 'operatorNeg', 'operatorTruediv',
              'functionalSub']:
        lines.append('  {} := {}'.format(k, delegs[k]))
    lines += ['  functionalRAddIsAdd := ' + b(radd_alias), '  powIsCompLoop := ' + b(pow_ok),
              '  operatorPriorityHigher := ' + b(prio),
              '  mergeLeft := Merge.' + merge_l, '  mergeRight := Merge.' + merge_r,
              '  flagOf := flagOf', '  callOf := callOf', '', 'end OdlModel.Gen.AlgebraDispatch', '']
    # assertions that are NOT Lean content: reported as separate extraction obligations
    fs_ok, fs_why = _functional_scalar_ctor_ok(fnc)
    asserts = [
        ('assert(A @ x is A.__mul__(x), x @ A is A.__rmul__(x), __div__ is __truediv__)',
         _deleg(O['__matmul__']) == 'Deleg.selfMulOther' and
         _deleg(O['__rmatmul__']) == 'Deleg.selfRMulOther', 'source text compared'),
        ('assert(Functional{Left,Right}ScalarMult.__init__ hand (func, scalar) unchanged to the '
         'Operator base constructor)', fs_ok, fs_why or 'source text compared'),
    ]
    return '\n'.join(lines), asserts


def regenerate(repo=None):
    path = os.path.join(core.LEAN, 'OdlModel', 'Gen', 'AlgebraDispatch.lean')
    try:
        lean, asserts = extract(repo)
        found, n = live_overrides()
        asserts.append((
            'assert(no class loaded by `import odl` other than Operator, OperatorRightScalarMult, '
            'Functional defines an arithmetic dunder; {} live subclasses of Operator scanned)'.format(n),
            {k: sorted(v) for k, v in found.items()} ==
            {k: sorted(v) for k, v in EXPECTED_OVERRIDES.items()},
            'live class hierarchy: ' + repr({k: v for k, v in found.items()
                                             if sorted(v) != sorted(EXPECTED_OVERRIDES.get(k, []))})))
    except Exception:
        # do not leave tables extracted from some OTHER tree (an earlier run with a different
        # ODL_REPO) behind: fall back to the committed file, then report the failure
        import subprocess
        p = subprocess.run(['git', '-C', core.VERIF, 'show',
                            'HEAD:lean/OdlModel/Gen/AlgebraDispatch.lean'],
                           stdout=subprocess.PIPE, stderr=subprocess.DEVNULL, text=True)
        if p.returncode == 0 and p.stdout:
            core.write_if_changed(path, p.stdout)
        raise
    return core.write_if_changed(path, lean), asserts


if __name__ == '__main__':
    print(extract()[0])
