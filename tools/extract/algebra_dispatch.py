"""Translator: the arithmetic overloads of odl/operator/operator.py and
odl/solvers/functional/functional.py  ->  OdlModel/Gen/AlgebraDispatch.lean

What is extracted (see lean/OdlModel/Model/OpDispatch.lean for the target language):
  * the if/elif/else trees of Operator.__add__/__mul__/__rmul__, OperatorRightScalarMult.__mul__,
    Functional.__add__/__mul__/__rmul__ as `Act` terms (guard atoms in program order, leaves =
    constructed class + argument pattern / super / `other * self` / NotImplemented);
  * the one-line overloads (__radd__, __sub__, __rsub__, __neg__, __truediv__, __matmul__,
    Functional.__sub__, the alias Functional.__radd__ = __add__, the __pow__ loop) as `Deleg`s;
  * which classes define arithmetic overloads at all (the MRO chain the interpreter hard-codes);
  * the two __array_priority__ values, the scalar-merging shortcut of the two ScalarMult
    constructors, and for each of the 19 expression classes how its constructor sets is_linear
    (the LAST base initialiser in source order wins, as in Python).
The grammar is deliberately tiny; anything outside it raises ExtractionError, which the check
treats as a broken obligation (then searches the real code), never as a pass.
"""
import ast
import os

from vf import core


class ExtractionError(Exception):
    pass


def _u(node):
    return ast.unparse(node)


def _strip(body):
    """drop the docstring, comments are not in the AST, local imports are irrelevant"""
    if body and isinstance(body[0], ast.Expr) and isinstance(body[0].value, ast.Constant) \
            and isinstance(body[0].value.value, str):
        body = body[1:]
    return [s for s in body if not isinstance(s, (ast.Import, ast.ImportFrom))]


GUARDS = {
    'isinstance(other, Operator)': 'otherIsOperator',
    'isinstance(other, Functional)': 'otherIsFunctional',
    'isinstance(other, Number)': 'otherIsNumber',
    'other in self.range': 'otherInRange',
    'other in self.range.field': 'otherInRangeField',
    'other in self.domain': 'otherInDomain',
    'other in self.domain.field': 'otherInDomainField',
    'isinstance(other, LinearSpaceElement) and other in self.domain': 'otherElemInDomain',
    'isinstance(other, LinearSpaceElement) and other.space.field == self.range':
        'otherElemFieldIsRange',
    'other == 0': 'otherEqZero',
    'self.is_linear': 'selfIsLinear',
    'isinstance(other, Real)': 'otherIsReal',
}

CLASSES = ['OperatorSum', 'OperatorVectorSum', 'OperatorComp', 'OperatorPointwiseProduct',
           'OperatorLeftScalarMult', 'OperatorRightScalarMult', 'OperatorLeftVectorMult',
           'OperatorRightVectorMult', 'FunctionalLeftVectorMult', 'FunctionalSum',
           'FunctionalScalarSum', 'FunctionalComp', 'FunctionalProduct', 'FunctionalQuotient',
           'FunctionalLeftScalarMult', 'FunctionalRightScalarMult', 'FunctionalRightVectorMult',
           'ConstantFunctional', 'ZeroFunctional']

ARGS = {
    ('self', 'other'): 'selfOther',
    ('other', 'self'): 'otherSelf',
    ('self', 'other.copy()'): 'selfOtherCopy',
    ('self', 'constant_vector'): 'selfOtherTimesOne',
    ('self.operator', 'self.scalar * other', 'self.__tmp'): 'opScalTimesOther',
    ('self.domain', 'self(self.domain.zero())'): 'domainSelfAtZero',
    ('self.domain',): 'domain',
}


def _guard(node):
    s = _u(node)
    if s in GUARDS:
        return 'Guard.' + GUARDS[s]
    if isinstance(node, ast.BoolOp) and isinstance(node.op, ast.And):
        parts = [_guard(v) for v in node.values]
        out = parts[-1]
        for p in reversed(parts[:-1]):
            out = '(Guard.and {} {})'.format(p, out)
        return out
    raise ExtractionError('unknown guard `{}`'.format(s))


def _ret(node, cls, meth, env):
    """a return statement -> Act"""
    v = node.value
    s = _u(v)
    if s == 'NotImplemented':
        return 'Act.notImplemented'
    if s == 'other * self':
        return 'Act.otherTimesSelf'
    if s == 'super({}, self).{}(other)'.format(cls, meth):
        return 'Act.super'
    if isinstance(v, ast.Call) and isinstance(v.func, ast.Name) and v.func.id in CLASSES:
        if v.keywords:
            raise ExtractionError('keyword arguments in `{}`'.format(s))
        args = tuple(_u(a) for a in v.args)
        if args not in ARGS:
            raise ExtractionError('unknown argument pattern in `{}`'.format(s))
        if 'constant_vector' in args and env.get('constant_vector') != 'other * self.range.one()':
            raise ExtractionError('constant_vector is not `other * self.range.one()`')
        return '(Act.mk Cls.{} Args.{})'.format(v.func.id, ARGS[args])
    raise ExtractionError('unknown return `{}` in {}.{}'.format(s, cls, meth))


def _block(stmts, cls, meth):
    """a statement list in which every path returns -> Act"""
    stmts = _strip(stmts)
    env = {}
    i = 0
    while i < len(stmts) and isinstance(stmts[i], ast.Assign):
        a = stmts[i]
        if len(a.targets) != 1 or not isinstance(a.targets[0], ast.Name):
            raise ExtractionError('unknown assignment `{}`'.format(_u(a)))
        env[a.targets[0].id] = _u(a.value)
        i += 1
    rest = stmts[i:]
    if len(rest) != 1:
        raise ExtractionError('expected one if/return in {}.{}, got {}'.format(
            cls, meth, [type(s).__name__ for s in rest]))
    st = rest[0]
    if isinstance(st, ast.Return):
        return _ret(st, cls, meth, env)
    if isinstance(st, ast.If):
        if env:
            raise ExtractionError('assignment before a branch in {}.{}'.format(cls, meth))
        if not st.orelse:
            raise ExtractionError('if without else in {}.{}'.format(cls, meth))
        return '(Act.ite {} {} {})'.format(_guard(st.test), _block(st.body, cls, meth),
                                           _block(st.orelse, cls, meth))
    raise ExtractionError('unknown statement `{}` in {}.{}'.format(_u(st), cls, meth))


DELEGS = {
    'return self + other': 'selfPlusOther',
    'return self + -1 * other': 'selfPlusNegOneTimesOther',
    'return -1 * self + other': 'negOneTimesSelfPlusOther',
    'return -1 * self': 'negOneTimesSelf',
    'if isinstance(other, Number):\n    return self * (1.0 / other)\nelse:\n    return NotImplemented':
        'selfTimesRecipOther',
    'return self.__mul__(other)': 'selfMulOther',
    'return self.__rmul__(other)': 'selfRMulOther',
}

POW_BODY = ('if isinstance(n, Integral) and n > 0:\n    op = self\n    while n > 1:\n'
            '        op = OperatorComp(self, op)\n        n -= 1\n    return op\nelse:\n'
            '    return NotImplemented')

MERGE = ['scalar = scalar * operator.scalar', 'operator = operator.operator']

ARITH = ['__add__', '__radd__', '__sub__', '__rsub__', '__mul__', '__rmul__', '__matmul__',
         '__rmatmul__', '__pow__', '__truediv__', '__div__', '__neg__', '__pos__',
         '__rtruediv__', '__rpow__', '__iadd__', '__isub__', '__imul__', '__itruediv__']

EXPECTED_OVERRIDES = {
    'Operator': ['__add__', '__radd__', '__sub__', '__rsub__', '__mul__', '__matmul__', '__rmul__',
                 '__rmatmul__', '__pow__', '__truediv__', '__div__', '__neg__', '__pos__'],
    'OperatorRightScalarMult': ['__mul__'],
    'Functional': ['__mul__', '__rmul__', '__add__', '__radd__', '__sub__'],
}


def _deleg(fn):
    s = '\n'.join(_u(x) for x in _strip(fn.body))
    if s not in DELEGS:
        raise ExtractionError('unknown one-line overload {}: `{}`'.format(fn.name, s))
    return 'Deleg.' + DELEGS[s]


def _classes(tree):
    return {n.name: n for n in tree.body if isinstance(n, ast.ClassDef)}


def _methods(cls):
    return {n.name: n for n in cls.body if isinstance(n, ast.FunctionDef)}


def _aliases(cls):
    out = {}
    for n in cls.body:
        if isinstance(n, ast.Assign) and len(n.targets) == 1 and isinstance(n.targets[0], ast.Name) \
                and isinstance(n.value, ast.Name):
            out[n.targets[0].id] = n.value.id
    return out


def _class_const(cls, name):
    for n in cls.body:
        if isinstance(n, ast.Assign) and len(n.targets) == 1 and _u(n.targets[0]) == name:
            return ast.literal_eval(n.value)
    raise ExtractionError('{} not found in {}'.format(name, cls.name))


# --- is_linear of the constructors ------------------------------------------------------

LIN_EXPR = {
    'operator.is_linear': 'operand', 'func.is_linear': 'operand', 'functional.is_linear': 'operand',
    'left.is_linear and right.is_linear': 'both', 'func.is_linear and op.is_linear': 'both',
    'False': 'never', 'constant == 0': 'constIsZero',
}


def _init_calls(cls):
    """(callee text, call node) of every base-initialiser call in __init__, in source order"""
    init = _methods(cls).get('__init__')
    if init is None:
        raise ExtractionError('{} has no __init__'.format(cls.name))
    out = []
    for node in ast.walk(init):
        if isinstance(node, ast.Call) and isinstance(node.func, ast.Attribute) \
                and node.func.attr == '__init__':
            out.append((node.lineno, node.col_offset, _u(node.func.value), node))
    out.sort(key=lambda t: t[:2])
    return [(t[2], t[3]) for t in out]


def _flag_of_call(cname, callee, call, flags):
    kw = {k.arg: k.value for k in call.keywords}
    if callee in ('Functional', 'super({}, self)'.format(cname)) or callee == 'Operator':
        # FunctionalScalarSum: FunctionalSum.__init__(left=func, right=ConstantFunctional(constant=scalar))
        if cname == 'FunctionalScalarSum':
            if _u(kw.get('left', ast.Constant(None))) == 'func' and \
                    _u(kw.get('right', ast.Constant(None))) == \
                    'ConstantFunctional(space=func.domain, constant=scalar)' and \
                    flags.get('FunctionalSum') == 'both':
                return 'bothWithConstant'
            raise ExtractionError('FunctionalScalarSum.__init__ changed: ' + _u(call))
        if cname == 'ZeroFunctional':
            if _u(kw.get('constant', ast.Constant(None))) == '0' and \
                    flags.get('ConstantFunctional') == 'constIsZero':
                return 'always'
            raise ExtractionError('ZeroFunctional.__init__ changed: ' + _u(call))
        if 'linear' in kw:
            e = _u(kw['linear'])
        elif callee != 'Functional' and len(call.args) >= 3 and cname.startswith('Operator'):
            e = _u(call.args[2])  # Operator.__init__(domain, range, linear)
        else:
            e = 'False'          # default of Operator.__init__ / Functional.__init__
        if e not in LIN_EXPR:
            raise ExtractionError('unknown is_linear expression `{}` in {}'.format(e, cname))
        return LIN_EXPR[e]
    if callee in flags:          # OperatorX.__init__(self, ...): the base class decides
        return flags[callee]
    raise ExtractionError('unknown base initialiser {} in {}'.format(callee, cname))


def _flags(op_classes, fn_classes, df_classes):
    flags = {}
    order = ['OperatorSum', 'OperatorVectorSum', 'OperatorComp', 'OperatorPointwiseProduct',
             'OperatorLeftScalarMult', 'OperatorRightScalarMult', 'OperatorLeftVectorMult',
             'OperatorRightVectorMult', 'FunctionalLeftVectorMult', 'ConstantFunctional',
             'ZeroFunctional', 'FunctionalSum', 'FunctionalScalarSum', 'FunctionalComp',
             'FunctionalProduct', 'FunctionalQuotient', 'FunctionalLeftScalarMult',
             'FunctionalRightScalarMult', 'FunctionalRightVectorMult']
    for c in order:
        cls = op_classes.get(c) or fn_classes.get(c) or df_classes.get(c)
        if cls is None:
            raise ExtractionError('class {} not found'.format(c))
        calls = _init_calls(cls)
        if not calls:
            raise ExtractionError('{}.__init__ calls no base initialiser'.format(c))
        callee, call = calls[-1]     # the last one executed overwrites the attributes
        flags[c] = _flag_of_call(c, callee, call, flags)
    return flags


def _merge_ok(cls):
    init = _methods(cls)['__init__']
    for node in ast.walk(init):
        if isinstance(node, ast.If) and _u(node.test) == 'isinstance(operator, {})'.format(cls.name):
            return [_u(s) for s in node.body] == MERGE
    return False


def extract(repo=None):
    repo = repo or core.REPO
    with open(os.path.join(repo, 'odl', 'operator', 'operator.py')) as f:
        op_tree = ast.parse(f.read())
    with open(os.path.join(repo, 'odl', 'solvers', 'functional', 'functional.py')) as f:
        fn_tree = ast.parse(f.read())
    with open(os.path.join(repo, 'odl', 'solvers', 'functional', 'default_functionals.py')) as f:
        df_tree = ast.parse(f.read())
    with open(os.path.join(repo, 'odl', 'set', 'space.py')) as f:
        sp_tree = ast.parse(f.read())
    opc, fnc, dfc, spc = _classes(op_tree), _classes(fn_tree), _classes(df_tree), _classes(sp_tree)
    # 1. who overrides arithmetic at all (the MRO chain hard-coded in the interpreter)
    for tree_classes in (opc, fnc):
        for name, cls in tree_classes.items():
            have = [m for m in ARITH if m in _methods(cls) or m in _aliases(cls)]
            want = EXPECTED_OVERRIDES.get(name, [])
            if sorted(have) != sorted(want):
                raise ExtractionError('arithmetic overloads of class {} are {} (expected {})'.format(
                    name, sorted(have), sorted(want)))
    if [_u(b) for b in fnc['Functional'].bases] != ['Operator']:
        raise ExtractionError('bases of Functional changed')
    for c in CLASSES:
        cls = fnc.get(c)
        if cls is not None and c.startswith('Functional') and c not in (
                'FunctionalQuotient', 'FunctionalScalarSum', 'FunctionalLeftVectorMult'):
            bases = [_u(b) for b in cls.bases]
            if len(bases) != 2 or bases[0] != 'Functional' or not bases[1].startswith('Operator'):
                raise ExtractionError('bases of {} are {}'.format(c, bases))
    O, R, F = _methods(opc['Operator']), _methods(opc['OperatorRightScalarMult']), \
        _methods(fnc['Functional'])
    acts = {
        'operatorAdd': _block(O['__add__'].body, 'Operator', '__add__'),
        'operatorMul': _block(O['__mul__'].body, 'Operator', '__mul__'),
        'operatorRMul': _block(O['__rmul__'].body, 'Operator', '__rmul__'),
        'rscalMul': _block(R['__mul__'].body, 'OperatorRightScalarMult', '__mul__'),
        'functionalAdd': _block(F['__add__'].body, 'Functional', '__add__'),
        'functionalMul': _block(F['__mul__'].body, 'Functional', '__mul__'),
        'functionalRMul': _block(F['__rmul__'].body, 'Functional', '__rmul__'),
    }
    for k, fn in [('O', O), ('R', R), ('F', F)]:
        for m in fn.values():
            if m.name in ARITH and [a.arg for a in m.args.args] not in (
                    ['self', 'other'], ['self', 'n'], ['self']):
                raise ExtractionError('signature of {} changed'.format(m.name))
    delegs = {
        'operatorRAdd': _deleg(O['__radd__']),
        'operatorSub': _deleg(O['__sub__']),
        'operatorRSub': _deleg(O['__rsub__']),
        'operatorNeg': _deleg(O['__neg__']),
        'operatorTruediv': _deleg(O['__truediv__']),
        'operatorMatmul': _deleg(O['__matmul__']),
        'operatorRMatmul': _deleg(O['__rmatmul__']),
        'functionalSub': _deleg(F['__sub__']),
    }
    if _aliases(opc['Operator']).get('__div__') != '__truediv__':
        raise ExtractionError('__div__ alias changed')
    radd_alias = _aliases(fnc['Functional']).get('__radd__') == '__add__'
    pow_ok = '\n'.join(_u(s) for s in _strip(O['__pow__'].body)) == POW_BODY
    prio = float(_class_const(opc['Operator'], '__array_priority__')) > \
        float(_class_const(spc['LinearSpaceElement'], '__array_priority__'))
    merge = _merge_ok(opc['OperatorLeftScalarMult']) and _merge_ok(opc['OperatorRightScalarMult'])
    flags = _flags(opc, fnc, dfc)

    def b(x):
        return 'true' if x else 'false'
    lines = ['/- GENERATED by tools/extract/algebra_dispatch.py from odl/operator/operator.py,',
             '   odl/solvers/functional/functional.py, default_functionals.py — do not edit. -/',
             'import OdlModel.Model.OpDispatch', 'namespace OdlModel.Gen.AlgebraDispatch',
             'open OdlModel.OpAlgebra', '']
    for k in ['operatorAdd', 'operatorMul', 'operatorRMul', 'rscalMul', 'functionalAdd',
              'functionalMul', 'functionalRMul']:
        lines += ['def {} : Act :='.format(k), '  ' + acts[k], '']
    lines += ['def flagOf : Cls → Flag']
    for c in CLASSES:
        lines.append('  | .{} => .{}'.format(c, flags[c]))
    lines += ['', 'def tables : Tables where']
    for k in ['operatorAdd', 'operatorMul', 'operatorRMul', 'rscalMul', 'functionalAdd',
              'functionalMul', 'functionalRMul']:
        lines.append('  {0} := {0}'.format(k))
    for k in ['operatorRAdd', 'operatorSub', 'operatorRSub', 'operatorNeg', 'operatorTruediv',
              'operatorMatmul', 'operatorRMatmul', 'functionalSub']:
        lines.append('  {} := {}'.format(k, delegs[k]))
    lines += ['  functionalRAddIsAdd := ' + b(radd_alias), '  powIsCompLoop := ' + b(pow_ok),
              '  operatorPriorityHigher := ' + b(prio), '  scalarMergeIsProduct := ' + b(merge),
              '  flagOf := flagOf', '', 'end OdlModel.Gen.AlgebraDispatch', '']
    return '\n'.join(lines)


def regenerate(repo=None):
    path = os.path.join(core.LEAN, 'OdlModel', 'Gen', 'AlgebraDispatch.lean')
    try:
        lean = extract(repo)
    except Exception:
        # do not leave tables extracted from some OTHER tree (an earlier run with a different
        # ODL_REPO) behind: fall back to the committed file, then report the failure
        import subprocess
        p = subprocess.run(['git', '-C', core.VERIF, 'show',
                            'HEAD:lean/OdlModel/Gen/AlgebraDispatch.lean'],
                           stdout=subprocess.PIPE, stderr=subprocess.DEVNULL, text=True)
        if p.returncode == 0 and p.stdout:
            core.write_if_changed(path, p.stdout)
        raise
    return core.write_if_changed(path, lean)


if __name__ == '__main__':
    print(extract())
