"""Translator: odl/space/npy_tensors.py  ->  OdlModel/Gen/WeightingDispatch.lean

Extracted (AST, tiny grammar; anything else raises ExtractionError = broken obligation):
  * the module constants THRESHOLD_SMALL, THRESHOLD_MEDIUM;
  * `_inner_default`: its if/else tree over the atoms `is_real_dtype(x1.dtype)` and
    `x1.size <cmp> <constant>`, with one `return np.<f>(...)` per leaf; each leaf is classified by
    the NumPy function and the ORDER of its two operands (x1 / x2), which decides what is
    conjugated: np.dot(x1, x2), np.tensordot(x1, x2, ...) -> no conjugation;
    np.vdot(x2, x1) -> conj(x2) * x1;  np.vdot(x1, x2) -> conj(x1) * x2;
  * `_norm_default`: `if _blas_is_applicable(x.data): nrm2 else: np.linalg.norm`, leaf = which
    2-norm routine is applied to `x.data.ravel()`.
The generated trees are executed by Drivers/C02.lean (ops idispatch / ndispatch), compared with the
branch the real code takes (observed by spying on the NumPy / BLAS entry points), and
`C02.inner_dispatch_eq_innerDefault` / `C02.norm_dispatch_eq_vecNorm` are proved ABOUT THE
GENERATED TREES: a changed table either still computes the documented sum or the proof breaks.
"""
import ast
import os

from vf import core


class ExtractionError(Exception):
    pass


LAST = {}


def _u(n):
    return ast.unparse(n)


def _func(tree, name):
    for n in tree.body:
        if isinstance(n, ast.FunctionDef) and n.name == name:
            return n
    raise ExtractionError('function {} not found'.format(name))


def _const(tree, name):
    for n in tree.body:
        if isinstance(n, ast.Assign) and len(n.targets) == 1 and _u(n.targets[0]) == name:
            v = n.value
            if isinstance(v, ast.Constant) and isinstance(v.value, int) and v.value >= 0:
                return v.value
            raise ExtractionError('{} is not a plain non-negative int: {}'.format(name, _u(v)))
    raise ExtractionError('constant {} not found'.format(name))


def _strip(body):
    """drop the docstring, imports and pure assignments that only rename things we track"""
    out = []
    for s in body:
        if isinstance(s, ast.Expr) and isinstance(s.value, ast.Constant):
            continue
        if isinstance(s, (ast.Import, ast.ImportFrom)):
            continue
        out.append(s)
    return out


def _operand(node):
    """which of x1 / x2 an operand expression is built from (exactly one of them)"""
    names = {n.id for n in ast.walk(node) if isinstance(n, ast.Name) and n.id in ('x1', 'x2')}
    if len(names) != 1:
        raise ExtractionError('operand mixes / lacks x1, x2: ' + _u(node))
    # only data access / ravel are allowed around the name (no arithmetic, no conj)
    for n in ast.walk(node):
        if isinstance(n, (ast.BinOp, ast.UnaryOp)):
            raise ExtractionError('arithmetic inside an operand: ' + _u(node))
        if isinstance(n, ast.Attribute) and n.attr not in ('data', 'ravel'):
            raise ExtractionError('unexpected attribute in operand: ' + _u(node))
    return names.pop()


def _inner_leaf(ret):
    if not (isinstance(ret, ast.Return) and isinstance(ret.value, ast.Call)):
        raise ExtractionError('leaf is not `return np.f(...)`: ' + _u(ret))
    call = ret.value
    f = _u(call.func)
    if f not in ('np.dot', 'np.vdot', 'np.tensordot') or len(call.args) < 2 or call.keywords:
        raise ExtractionError('unknown leaf call ' + _u(call))
    a, b = _operand(call.args[0]), _operand(call.args[1])
    if {a, b} != {'x1', 'x2'}:
        raise ExtractionError('leaf does not combine x1 with x2: ' + _u(call))
    if f == 'np.tensordot':
        if len(call.args) != 3 or _u(call.args[2]) != '[range(x1.ndim)] * 2':
            raise ExtractionError('tensordot not over all axes: ' + _u(call))
        return 'tensordot'
    if len(call.args) != 2:
        raise ExtractionError('unexpected extra arguments: ' + _u(call))
    if f == 'np.dot':
        return 'dot'
    return 'vdot21' if a == 'x2' else 'vdot12'


def _cond(test, consts):
    t = _u(test)
    if t == 'is_real_dtype(x1.dtype)':
        return 'Cond.isReal'
    if isinstance(test, ast.Compare) and len(test.ops) == 1 and _u(test.left) == 'x1.size':
        rhs = test.comparators[0]
        if isinstance(rhs, ast.Name) and rhs.id in consts:
            k = consts[rhs.id]
        elif isinstance(rhs, ast.Constant) and isinstance(rhs.value, int):
            k = rhs.value
        else:
            raise ExtractionError('size compared with something unknown: ' + t)
        op = type(test.ops[0]).__name__
        if op == 'Gt':
            return 'Cond.sizeGt {}'.format(k)
        if op == 'GtE':
            return 'Cond.sizeGt {}'.format(k - 1) if k > 0 else None
        if op == 'Lt':
            return ('not', 'Cond.sizeGt {}'.format(k - 1))
        if op == 'LtE':
            return ('not', 'Cond.sizeGt {}'.format(k))
    raise ExtractionError('unknown condition ' + t)


def _tree(body, leaf, cond):
    body = [s for s in body if not (isinstance(s, ast.Assign) and _u(s.targets[0]) == 'order')]
    if len(body) == 1 and isinstance(body[0], ast.If):
        s = body[0]
        if not s.orelse:
            raise ExtractionError('if without else: ' + _u(s.test))
        c = cond(s.test)
        t, e = _tree(s.body, leaf, cond), _tree(s.orelse, leaf, cond)
        if isinstance(c, tuple):
            c, t, e = c[1], e, t
        return '(.ite ({}) {} {})'.format(c, t, e)
    if len(body) == 1:
        return '(.leaf .{})'.format(leaf(body[0]))
    raise ExtractionError('unexpected statements: ' + '; '.join(_u(s)[:60] for s in body))


def _norm_tree(fn):
    body = _strip(fn.body)
    if len(body) != 2 or not isinstance(body[0], ast.If) or not isinstance(body[1], ast.Return):
        raise ExtractionError('_norm_default: unexpected shape')
    s = body[0]
    if _u(s.test) != '_blas_is_applicable(x.data)':
        raise ExtractionError('_norm_default: unknown condition ' + _u(s.test))
    if _u(body[1].value) != 'norm(x.data.ravel())':
        raise ExtractionError('_norm_default: result is not norm(x.data.ravel()): ' + _u(body[1]))

    def leaf(stmts):
        if len(stmts) == 2 and _u(stmts[0]) == \
                "nrm2 = scipy.linalg.blas.get_blas_funcs('nrm2', dtype=x.dtype)" and \
                _u(stmts[1]) == 'norm = partial(nrm2, n=native(x.size))':
            return 'nrm2'
        if len(stmts) == 1 and _u(stmts[0]) == 'norm = np.linalg.norm':
            return 'linalgNorm'
        raise ExtractionError('_norm_default: unknown branch ' + '; '.join(_u(t) for t in stmts))
    return '(.ite (Cond.blasApplicable) (.leaf .{}) (.leaf .{}))'.format(leaf(s.body),
                                                                            leaf(s.orelse))


def extract():
    src = os.path.join(core.REPO, 'odl', 'space', 'npy_tensors.py')
    with open(src) as f:
        tree = ast.parse(f.read())
    consts = {n: _const(tree, n) for n in ('THRESHOLD_SMALL', 'THRESHOLD_MEDIUM')}
    inner = _tree(_strip(_func(tree, '_inner_default').body), _inner_leaf,
                  lambda t: _cond(t, consts))
    norm = _norm_tree(_func(tree, '_norm_default'))
    LAST.clear()
    LAST.update({'source': src, 'consts': consts, 'inner': inner, 'norm': norm})
    return consts, inner, norm


def render():
    consts, inner, norm = extract()
    return '''/- GENERATED by tools/extract/weighting_dispatch.py from odl/space/npy_tensors.py
   (`THRESHOLD_SMALL`, `THRESHOLD_MEDIUM`, `_inner_default`, `_norm_default`) — do not edit. -/
import OdlModel.Model.Weighting

namespace OdlModel.Weighting.Gen

def thresholdSmall : Nat := {small}
def thresholdMedium : Nat := {medium}

/-- decision tree of `_inner_default` -/
def innerTree : Tree InnerLeaf :=
  {inner}

/-- decision tree of `_norm_default` -/
def normTree : Tree NormLeaf :=
  {norm}

end OdlModel.Weighting.Gen
'''.format(small=consts['THRESHOLD_SMALL'], medium=consts['THRESHOLD_MEDIUM'], inner=inner,
           norm=norm)


def regenerate():
    path = os.path.join(core.LEAN, 'OdlModel', 'Gen', 'WeightingDispatch.lean')
    return core.write_if_changed(path, render())
