"""Translator: odl/util/numerics.py::_padding_slices_outer/_inner, _SUPPORTED_RESIZE_PAD_MODES
->  OdlModel/Gen/PadSlices.lean

Both functions are straight-line integer arithmetic followed (inner) by an if/elif chain on
`pad_mode` that builds two `slice(...)` objects.  They are evaluated symbolically over the
three primitive quantities `off = offset[axis]`, `nLarge = max(shapes)`, `nSmall = min(shapes)`.
The grammar is deliberately tiny: assignments of `+`/`-` expressions, `slice(a[, b[, -1]])`,
the fix-up `if x == -1: x = None`, and mode tests `pad_mode == '..'` / `pad_mode in (..)`.
The explicit `raise ValueError` guards at the head of the axis loop of `_apply_padding` are
extracted as an ordered table (mode, quantity, comparison, bound) -> `guards`, together with
the loop's `n_pad_l`, `n_pad_r` and its skip condition.
Anything else raises ExtractionError, which the check treats as a broken obligation.
"""
import ast
import os

from vf import core


class ExtractionError(Exception):
    pass


MODES = ['constant', 'symmetric', 'periodic', 'order0', 'order1']


def _u(node):
    return ast.unparse(node)


def _strip_doc(body):
    if body and isinstance(body[0], ast.Expr) and isinstance(body[0].value, ast.Constant) \
            and isinstance(body[0].value.value, str):
        return body[1:]
    return body


PRIMS = {
    'offset[axis]': 'off',
    'max(lhs_arr.shape[axis], rhs_arr.shape[axis])': 'nLarge',
    'min(lhs_arr.shape[axis], rhs_arr.shape[axis])': 'nSmall',
}


class NoneIfMinusOne(str):
    """marks a value that went through `if x == -1: x = None`"""


def _expr(node, env):
    """Integer expression -> Lean Int term."""
    src = _u(node)
    if src in PRIMS:
        return PRIMS[src]
    if isinstance(node, ast.Name):
        if node.id not in env:
            raise ExtractionError('unbound name ' + node.id)
        v = env[node.id]
        if isinstance(v, NoneIfMinusOne):
            raise ExtractionError('optional value used in arithmetic: ' + node.id)
        return v
    if isinstance(node, ast.Constant) and isinstance(node.value, int) and \
            not isinstance(node.value, bool):
        return str(node.value) if node.value >= 0 else '({})'.format(node.value)
    if isinstance(node, ast.UnaryOp) and isinstance(node.op, ast.USub):
        return '(-{})'.format(_expr(node.operand, env))
    if isinstance(node, ast.BinOp) and isinstance(node.op, (ast.Add, ast.Sub)):
        op = '+' if isinstance(node.op, ast.Add) else '-'
        return '({} {} {})'.format(_expr(node.left, env), op, _expr(node.right, env))
    raise ExtractionError('expression outside the grammar: ' + src)


def _bound(node, env):
    """slice bound -> Lean `Option Int` term."""
    if isinstance(node, ast.Constant) and node.value is None:
        return 'none'
    if isinstance(node, ast.Name) and isinstance(env.get(node.id), NoneIfMinusOne):
        return '(noneIfMinusOne {})'.format(str(env[node.id]))
    return '(some {})'.format(_expr(node, env))


def _slice(node, env):
    if not (isinstance(node, ast.Call) and _u(node.func) == 'slice' and not node.keywords):
        raise ExtractionError('not a slice(...) call: ' + _u(node))
    a = node.args
    if len(a) == 1:
        return '⟨none, {}, false⟩'.format(_bound(a[0], env))
    if len(a) == 2:
        return '⟨{}, {}, false⟩'.format(_bound(a[0], env), _bound(a[1], env))
    if len(a) == 3:
        step = _u(a[2])
        if step == '1':
            rev = 'false'
        elif step == '-1':
            rev = 'true'
        else:
            raise ExtractionError('slice step {} (only 1 and -1 are modelled)'.format(step))
        return '⟨{}, {}, {}⟩'.format(_bound(a[0], env), _bound(a[1], env), rev)
    raise ExtractionError('slice arity: ' + _u(node))


def _run_block(stmts, env, slices):
    """Straight-line block: integer assignments, slice assignments, the -1 -> None fix-up."""
    for st in stmts:
        if isinstance(st, ast.Assign) and len(st.targets) == 1:
            tgt, val = st.targets[0], st.value
            if isinstance(tgt, ast.Name):
                if isinstance(val, ast.Call) and _u(val.func) == 'slice':
                    slices[tgt.id] = _slice(val, env)
                else:
                    env[tgt.id] = _expr(val, env)
                continue
            if isinstance(tgt, ast.Tuple) and isinstance(val, ast.Tuple) and \
                    len(tgt.elts) == len(val.elts):
                for t, v in zip(tgt.elts, val.elts):
                    if not isinstance(t, ast.Name):
                        raise ExtractionError('tuple target ' + _u(st))
                    slices[t.id] = _slice(v, env)
                continue
        if isinstance(st, ast.If) and not st.orelse and len(st.body) == 1:
            # if x == -1: x = None
            t, b = st.test, st.body[0]
            if isinstance(t, ast.Compare) and len(t.ops) == 1 and isinstance(t.ops[0], ast.Eq) \
                    and isinstance(t.left, ast.Name) and _u(t.comparators[0]) == '-1' \
                    and isinstance(b, ast.Assign) and _u(b) == '{} = None'.format(t.left.id):
                name = t.left.id
                env[name] = NoneIfMinusOne(_expr(t.left, env))
                continue
        raise ExtractionError('statement outside the grammar: ' + _u(st))


def _mode_test(node):
    """`pad_mode == 'x'` or `pad_mode in ('x', 'y')` -> list of modes."""
    if isinstance(node, ast.Compare) and len(node.ops) == 1 and _u(node.left) == 'pad_mode':
        c = node.comparators[0]
        if isinstance(node.ops[0], ast.Eq) and isinstance(c, ast.Constant):
            return [c.value]
        if isinstance(node.ops[0], ast.In) and isinstance(c, (ast.Tuple, ast.List)):
            return [e.value for e in c.elts]
    raise ExtractionError('mode test outside the grammar: ' + _u(node))


GUARD_ERR = {'order0': '.order0Empty', 'order1': '.order1Short',
             'periodic': '.periodicTooLong', 'symmetric': '.symmetricTooLong'}
CMP = {ast.Eq: '=', ast.Lt: '<', ast.LtE: '≤', ast.Gt: '>', ast.GtE: '≥'}
LOOP_PRIMS = {'offset[axis]': 'off', 'n_lhs': 'nLhs', 'n_rhs': 'nRhs'}


def _loop_expr(node, env):
    src = _u(node)
    if src in LOOP_PRIMS:
        return LOOP_PRIMS[src]
    if isinstance(node, ast.Name):
        if node.id not in env:
            raise ExtractionError('unbound name in _apply_padding: ' + node.id)
        return env[node.id]
    if isinstance(node, ast.Constant) and isinstance(node.value, int) and \
            not isinstance(node.value, bool):
        return str(node.value) if node.value >= 0 else '({})'.format(node.value)
    if isinstance(node, ast.BinOp) and isinstance(node.op, (ast.Add, ast.Sub)):
        op = '+' if isinstance(node.op, ast.Add) else '-'
        return '({} {} {})'.format(_loop_expr(node.left, env), op, _loop_expr(node.right, env))
    raise ExtractionError('expression outside the grammar in _apply_padding: ' + src)


def _guard(node, env):
    """`if pad_mode == 'm' and <a> <cmp> <b>: raise ValueError(...)` -> [(mode, cond, err)],
    following `elif`s (every branch raises, so the chain is an ordered list)."""
    out = []
    while True:
        if not (isinstance(node, ast.If) and len(node.body) == 1 and
                isinstance(node.body[0], ast.Raise) and
                _u(node.body[0].exc).startswith('ValueError(')):
            raise ExtractionError('guard is not `if ...: raise ValueError`: ' + _u(node)[:80])
        t = node.test
        if not (isinstance(t, ast.BoolOp) and isinstance(t.op, ast.And) and len(t.values) == 2):
            raise ExtractionError('guard condition outside the grammar: ' + _u(t))
        modes = _mode_test(t.values[0])
        c = t.values[1]
        if not (len(modes) == 1 and modes[0] in GUARD_ERR and isinstance(c, ast.Compare) and
                len(c.ops) == 1 and type(c.ops[0]) in CMP):
            raise ExtractionError('guard condition outside the grammar: ' + _u(t))
        cond = '{} {} {}'.format(_loop_expr(c.left, env), CMP[type(c.ops[0])],
                                 _loop_expr(c.comparators[0], env))
        out.append((modes[0], cond, GUARD_ERR[modes[0]]))
        if len(node.orelse) == 1 and isinstance(node.orelse[0], ast.If):
            node = node.orelse[0]
            continue
        if node.orelse:
            raise ExtractionError('guard with an else branch: ' + _u(node)[:80])
        return out


def _extract_guards(fdef):
    """Head of the axis loop of `_apply_padding`."""
    loops = [s for s in fdef.body if isinstance(s, ast.For)]
    if len(loops) != 1 or _u(loops[0].target) != '(axis, (n_lhs, n_rhs))' or \
            _u(loops[0].iter) != 'enumerate(zip(lhs_arr.shape, rhs_arr.shape))':
        raise ExtractionError('axis loop of _apply_padding changed')
    body = loops[0].body
    # skip condition
    if not (isinstance(body[0], ast.If) and _u(body[0].test) == 'n_lhs <= n_rhs' and
            _u(body[0].body[0]) == 'continue' and not body[0].orelse):
        raise ExtractionError('skip condition of the axis loop changed: ' + _u(body[0])[:60])
    env, guards, k = {}, [], 1
    while k < len(body):
        st = body[k]
        if isinstance(st, ast.Assign) and len(st.targets) == 1 and \
                isinstance(st.targets[0], ast.Name) and st.targets[0].id in ('n_pad_l', 'n_pad_r'):
            env[st.targets[0].id] = _loop_expr(st.value, env)
        elif isinstance(st, ast.If):
            guards += _guard(st, env)
        elif isinstance(st, ast.For):
            # for lr, pad_len in [('left', n_pad_l), ('right', n_pad_r)]: guards on pad_len
            if not (_u(st.target) == '(lr, pad_len)' and isinstance(st.iter, ast.List)):
                raise ExtractionError('inner guard loop changed: ' + _u(st)[:80])
            for item in st.iter.elts:
                if not (isinstance(item, ast.Tuple) and len(item.elts) == 2):
                    raise ExtractionError('inner guard loop items changed')
                env2 = dict(env, pad_len=_loop_expr(item.elts[1], env))
                for g in st.body:
                    guards += _guard(g, env2)
            k += 1
            break
        else:
            raise ExtractionError('statement outside the grammar at the head of the axis '
                                  'loop: ' + _u(st)[:80])
        k += 1
    else:
        raise ExtractionError('inner guard loop not found')
    # nothing after the guard block may raise
    for st in body[k:]:
        for n in ast.walk(st):
            if isinstance(n, ast.Raise):
                raise ExtractionError('a raise after the guard block of _apply_padding')
    if set(env) != {'n_pad_l', 'n_pad_r'}:
        raise ExtractionError('n_pad_l / n_pad_r not both defined before the guards')
    return env, guards


def extract(repo=core.REPO):
    path = os.path.join(repo, 'odl', 'util', 'numerics.py')
    with open(path) as f:
        tree = ast.parse(f.read())
    defs = {n.name: n for n in tree.body if isinstance(n, ast.FunctionDef)}
    consts = {}
    for n in tree.body:
        if isinstance(n, ast.Assign) and len(n.targets) == 1 and isinstance(n.targets[0], ast.Name):
            consts[n.targets[0].id] = n.value
    if '_SUPPORTED_RESIZE_PAD_MODES' not in consts:
        raise ExtractionError('_SUPPORTED_RESIZE_PAD_MODES not found')
    supported = list(ast.literal_eval(consts['_SUPPORTED_RESIZE_PAD_MODES']))

    # --- outer
    fo = defs.get('_padding_slices_outer')
    if fo is None or [a.arg for a in fo.args.args] != ['lhs_arr', 'rhs_arr', 'axis', 'offset']:
        raise ExtractionError('_padding_slices_outer signature changed')
    body = _strip_doc(fo.body)
    env, slices = {}, {}
    _run_block(body[:-1], env, slices)
    ret = body[-1]
    if not (isinstance(ret, ast.Return) and isinstance(ret.value, ast.Tuple) and
            len(ret.value.elts) == 2):
        raise ExtractionError('_padding_slices_outer does not return a pair')
    outer = '({}, {})'.format(_slice(ret.value.elts[0], env), _slice(ret.value.elts[1], env))

    # --- inner
    fi = defs.get('_padding_slices_inner')
    if fi is None or [a.arg for a in fi.args.args] != ['lhs_arr', 'rhs_arr', 'axis', 'offset',
                                                       'pad_mode']:
        raise ExtractionError('_padding_slices_inner signature changed')
    body = _strip_doc(fi.body)
    ifs = [i for i, s in enumerate(body) if isinstance(s, ast.If)]
    if len(ifs) != 1 or ifs[0] != len(body) - 2 or _u(body[-1]) != 'return (pad_slc_l, pad_slc_r)':
        raise ExtractionError('_padding_slices_inner is not `prelude; if-chain on pad_mode; '
                              'return pad_slc_l, pad_slc_r`')
    env0 = {}
    _run_block(body[:ifs[0]], env0, {})
    arms = {}
    node = body[ifs[0]]
    default = None
    while True:
        modes = _mode_test(node.test)
        env, slices = dict(env0), {}
        _run_block(node.body, env, slices)
        if set(slices) != {'pad_slc_l', 'pad_slc_r'}:
            raise ExtractionError('branch {} does not set both slices'.format(modes))
        for m in modes:
            if m in arms:
                raise ExtractionError('mode {} tested twice'.format(m))
            arms[m] = '({}, {})'.format(slices['pad_slc_l'], slices['pad_slc_r'])
        if len(node.orelse) == 1 and isinstance(node.orelse[0], ast.If):
            node = node.orelse[0]
            continue
        if node.orelse:
            env, slices = dict(env0), {}
            _run_block(node.orelse, env, slices)
            if set(slices) != {'pad_slc_l', 'pad_slc_r'}:
                raise ExtractionError('else branch does not set both slices')
            default = '({}, {})'.format(slices['pad_slc_l'], slices['pad_slc_r'])
        break
    for m in arms:
        if m not in MODES:
            raise ExtractionError('unknown pad mode in the source: {!r}'.format(m))
    fa = defs.get('_apply_padding')
    if fa is None or [a.arg for a in fa.args.args] != ['lhs_arr', 'rhs_arr', 'offset', 'pad_mode',
                                                       'direction']:
        raise ExtractionError('_apply_padding signature changed')
    penv, guards = _extract_guards(fa)
    glines = []
    for i, (m, cond, err) in enumerate(guards):
        glines.append('  {}if mode = .{} ∧ {} then some {}'.format(
            '' if i == 0 else 'else ', m, cond, err))
    glines.append('  else none' if guards else '  none')
    lines = []
    for m in MODES:
        if m in arms:
            lines.append('  | .{} => {}'.format(m, arms[m]))
        elif default is not None:
            lines.append('  | .{} => {}'.format(m, default))
        else:
            raise ExtractionError('no branch for mode ' + m)
    lean = '''-- GENERATED by tools/extract/padslices.py from odl/util/numerics.py — do not edit by hand.
import OdlModel.Model.ResizeBase
namespace OdlModel.Gen.PadSlices
open OdlModel.Resize

/-- `_SUPPORTED_RESIZE_PAD_MODES` -/
def supportedModes : List String := [{supported}]

/-- `_padding_slices_outer`: `(left, right)`; `off = offset[axis]`, `nSmall = min` of the two
axis lengths. -/
def outer (off nLarge nSmall : Int) : SliceSpec × SliceSpec :=
  {outer}

/-- `_padding_slices_inner`: `(pad_slc_l, pad_slc_r)` per pad mode. -/
def inner (mode : Mode) (off nLarge nSmall : Int) : SliceSpec × SliceSpec :=
  match mode with
{arms}

/-- `n_pad_l`, `n_pad_r` of the axis loop of `_apply_padding` (`nLhs > nRhs` there). -/
def nPadL (off nLhs nRhs : Int) : Int := {npl}
def nPadR (off nLhs nRhs : Int) : Int := {npr}

/-- The `raise ValueError` guards at the head of the axis loop of `_apply_padding`, in source
order (the loop is skipped when `n_lhs <= n_rhs`). -/
def guards (mode : Mode) (off nLhs nRhs : Int) : Option Err :=
{guards}

end OdlModel.Gen.PadSlices
'''.format(supported=', '.join('"{}"'.format(s) for s in supported), outer=outer,
           arms='\n'.join(lines), npl=penv['n_pad_l'], npr=penv['n_pad_r'],
           guards='\n'.join(glines))
    return lean


def regenerate(repo=core.REPO):
    lean = extract(repo)
    return core.write_if_changed(
        os.path.join(core.LEAN, 'OdlModel', 'Gen', 'PadSlices.lean'), lean)


if __name__ == '__main__':
    print(extract())
