"""Translator: odl/util/numerics.py::_padding_slices_outer/_inner, _SUPPORTED_RESIZE_PAD_MODES
->  OdlModel/Gen/PadSlices.lean

Both functions are straight-line integer arithmetic followed (inner) by an if/elif chain on
`pad_mode` that builds two `slice(...)` objects.  They are evaluated symbolically over the
three primitive quantities `off = offset[axis]`, `nLarge = max(shapes)`, `nSmall = min(shapes)`.
The grammar is deliberately tiny: assignments of `+`/`-` expressions, `slice(a[, b[, -1]])`,
the fix-up `if x == -1: x = None`, and mode tests `pad_mode == '..'` / `pad_mode in (..)`.
The explicit `raise ValueError` guards at the head of the axis loop of `_apply_padding` are
extracted as an ordered table (mode, quantity, comparison, bound) -> `guards`, together with
the loop's `n_pad_l`, `n_pad_r` and its skip condition.
Anything else raises ExtractionError, which the check treats as a broken obligation.

Graceful degradation for the two slice functions: when the AST shape of
`_padding_slices_outer` / `_padding_slices_inner` is not recognised (a harmless refactoring:
helper functions, dict dispatch, conditional expressions), the slice table is derived
BEHAVIOURALLY from the live private function of the tree under test (subprocess with that tree
on PYTHONPATH): every slice component is fitted as `a*off + b*nLarge + c*nSmall + d`, constant
`None`, or "`None` exactly where the affine value is -1" on a small grid and then VERIFIED
exactly on a second, larger grid (both argument orders, all modes, an unknown mode string, a
2-d array with `axis=1`).  If the fit or the verification fails the extraction fails (closed).
The generated file and the evidence say `source=live` and list the grids.  The guard block of
`_apply_padding` has no such fallback.
"""
import ast
import itertools
import json
import os
import subprocess
import sys

from vf import core


class ExtractionError(Exception):
    pass


MODES = ['constant', 'symmetric', 'periodic', 'order0', 'order1']


def _u(node):
    return ast.unparse(node)


def _strip_doc(body):
    if body and isinstance(body[0], ast.Expr) and isinstance(body[0].value, ast.Constant) \
            and isinstance(body[0].value.value, str):
        return body[1:]
    return body


PRIMS = {
    'offset[axis]': 'off',
    'max(lhs_arr.shape[axis], rhs_arr.shape[axis])': 'nLarge',
    'min(lhs_arr.shape[axis], rhs_arr.shape[axis])': 'nSmall',
}


class NoneIfMinusOne(str):
    """marks a value that went through `if x == -1: x = None`"""


def _expr(node, env):
    """Integer expression -> Lean Int term."""
    src = _u(node)
    if src in PRIMS:
        return PRIMS[src]
    if isinstance(node, ast.Name):
        if node.id not in env:
            raise ExtractionError('unbound name ' + node.id)
        v = env[node.id]
        if isinstance(v, NoneIfMinusOne):
            raise ExtractionError('optional value used in arithmetic: ' + node.id)
        return v
    if isinstance(node, ast.Constant) and isinstance(node.value, int) and \
            not isinstance(node.value, bool):
        return str(node.value) if node.value >= 0 else '({})'.format(node.value)
    if isinstance(node, ast.UnaryOp) and isinstance(node.op, ast.USub):
        return '(-{})'.format(_expr(node.operand, env))
    if isinstance(node, ast.BinOp) and isinstance(node.op, (ast.Add, ast.Sub)):
        op = '+' if isinstance(node.op, ast.Add) else '-'
        return '({} {} {})'.format(_expr(node.left, env), op, _expr(node.right, env))
    raise ExtractionError('expression outside the grammar: ' + src)


def _bound(node, env):
    """slice bound -> Lean `Option Int` term."""
    if isinstance(node, ast.Constant) and node.value is None:
        return 'none'
    if isinstance(node, ast.Name) and isinstance(env.get(node.id), NoneIfMinusOne):
        return '(noneIfMinusOne {})'.format(str(env[node.id]))
    return '(some {})'.format(_expr(node, env))


def _slice(node, env):
    if not (isinstance(node, ast.Call) and _u(node.func) == 'slice' and not node.keywords):
        raise ExtractionError('not a slice(...) call: ' + _u(node))
    a = node.args
    if len(a) == 1:
        return '⟨none, {}, false⟩'.format(_bound(a[0], env))
    if len(a) == 2:
        return '⟨{}, {}, false⟩'.format(_bound(a[0], env), _bound(a[1], env))
    if len(a) == 3:
        step = _u(a[2])
        if step == '1':
            rev = 'false'
        elif step == '-1':
            rev = 'true'
        else:
            raise ExtractionError('slice step {} (only 1 and -1 are modelled)'.format(step))
        return '⟨{}, {}, {}⟩'.format(_bound(a[0], env), _bound(a[1], env), rev)
    raise ExtractionError('slice arity: ' + _u(node))


def _run_block(stmts, env, slices):
    """Straight-line block: integer assignments, slice assignments, the -1 -> None fix-up."""
    for st in stmts:
        if isinstance(st, ast.Assign) and len(st.targets) == 1:
            tgt, val = st.targets[0], st.value
            if isinstance(tgt, ast.Name):
                if isinstance(val, ast.Call) and _u(val.func) == 'slice':
                    slices[tgt.id] = _slice(val, env)
                else:
                    env[tgt.id] = _expr(val, env)
                continue
            if isinstance(tgt, ast.Tuple) and isinstance(val, ast.Tuple) and \
                    len(tgt.elts) == len(val.elts):
                for t, v in zip(tgt.elts, val.elts):
                    if not isinstance(t, ast.Name):
                        raise ExtractionError('tuple target ' + _u(st))
                    slices[t.id] = _slice(v, env)
                continue
        if isinstance(st, ast.If) and not st.orelse and len(st.body) == 1:
            # if x == -1: x = None
            t, b = st.test, st.body[0]
            if isinstance(t, ast.Compare) and len(t.ops) == 1 and isinstance(t.ops[0], ast.Eq) \
                    and isinstance(t.left, ast.Name) and _u(t.comparators[0]) == '-1' \
                    and isinstance(b, ast.Assign) and _u(b) == '{} = None'.format(t.left.id):
                name = t.left.id
                env[name] = NoneIfMinusOne(_expr(t.left, env))
                continue
        raise ExtractionError('statement outside the grammar: ' + _u(st))


def _mode_test(node):
    """`pad_mode == 'x'` or `pad_mode in ('x', 'y')` -> list of modes."""
    if isinstance(node, ast.Compare) and len(node.ops) == 1 and _u(node.left) == 'pad_mode':
        c = node.comparators[0]
        if isinstance(node.ops[0], ast.Eq) and isinstance(c, ast.Constant):
            return [c.value]
        if isinstance(node.ops[0], ast.In) and isinstance(c, (ast.Tuple, ast.List)):
            return [e.value for e in c.elts]
    raise ExtractionError('mode test outside the grammar: ' + _u(node))


GUARD_ERR = {'order0': '.order0Empty', 'order1': '.order1Short',
             'periodic': '.periodicTooLong', 'symmetric': '.symmetricTooLong'}
CMP = {ast.Eq: '=', ast.Lt: '<', ast.LtE: '≤', ast.Gt: '>', ast.GtE: '≥'}
LOOP_PRIMS = {'offset[axis]': 'off', 'n_lhs': 'nLhs', 'n_rhs': 'nRhs'}


def _loop_expr(node, env):
    src = _u(node)
    if src in LOOP_PRIMS:
        return LOOP_PRIMS[src]
    if isinstance(node, ast.Name):
        if node.id not in env:
            raise ExtractionError('unbound name in _apply_padding: ' + node.id)
        return env[node.id]
    if isinstance(node, ast.Constant) and isinstance(node.value, int) and \
            not isinstance(node.value, bool):
        return str(node.value) if node.value >= 0 else '({})'.format(node.value)
    if isinstance(node, ast.BinOp) and isinstance(node.op, (ast.Add, ast.Sub)):
        op = '+' if isinstance(node.op, ast.Add) else '-'
        return '({} {} {})'.format(_loop_expr(node.left, env), op, _loop_expr(node.right, env))
    raise ExtractionError('expression outside the grammar in _apply_padding: ' + src)


def _guard(node, env):
    """`if pad_mode == 'm' and <a> <cmp> <b>: raise ValueError(...)` -> [(mode, cond, err)],
    following `elif`s (every branch raises, so the chain is an ordered list)."""
    out = []
    while True:
        if not (isinstance(node, ast.If) and len(node.body) == 1 and
                isinstance(node.body[0], ast.Raise) and
                _u(node.body[0].exc).startswith('ValueError(')):
            raise ExtractionError('guard is not `if ...: raise ValueError`: ' + _u(node)[:80])
        t = node.test
        if not (isinstance(t, ast.BoolOp) and isinstance(t.op, ast.And) and len(t.values) == 2):
            raise ExtractionError('guard condition outside the grammar: ' + _u(t))
        modes = _mode_test(t.values[0])
        c = t.values[1]
        if not (len(modes) == 1 and modes[0] in GUARD_ERR and isinstance(c, ast.Compare) and
                len(c.ops) == 1 and type(c.ops[0]) in CMP):
            raise ExtractionError('guard condition outside the grammar: ' + _u(t))
        cond = '{} {} {}'.format(_loop_expr(c.left, env), CMP[type(c.ops[0])],
                                 _loop_expr(c.comparators[0], env))
        out.append((modes[0], cond, GUARD_ERR[modes[0]]))
        if len(node.orelse) == 1 and isinstance(node.orelse[0], ast.If):
            node = node.orelse[0]
            continue
        if node.orelse:
            raise ExtractionError('guard with an else branch: ' + _u(node)[:80])
        return out


def _extract_guards(fdef):
    """Head of the axis loop of `_apply_padding`."""
    loops = [s for s in fdef.body if isinstance(s, ast.For)]
    if len(loops) != 1 or _u(loops[0].target) != '(axis, (n_lhs, n_rhs))' or \
            _u(loops[0].iter) != 'enumerate(zip(lhs_arr.shape, rhs_arr.shape))':
        raise ExtractionError('axis loop of _apply_padding changed')
    body = loops[0].body
    # skip condition
    if not (isinstance(body[0], ast.If) and _u(body[0].test) == 'n_lhs <= n_rhs' and
            _u(body[0].body[0]) == 'continue' and not body[0].orelse):
        raise ExtractionError('skip condition of the axis loop changed: ' + _u(body[0])[:60])
    env, guards, k = {}, [], 1
    while k < len(body):
        st = body[k]
        if isinstance(st, ast.Assign) and len(st.targets) == 1 and \
                isinstance(st.targets[0], ast.Name) and st.targets[0].id in ('n_pad_l', 'n_pad_r'):
            env[st.targets[0].id] = _loop_expr(st.value, env)
        elif isinstance(st, ast.If):
            guards += _guard(st, env)
        elif isinstance(st, ast.For):
            # for lr, pad_len in [('left', n_pad_l), ('right', n_pad_r)]: guards on pad_len
            if not (_u(st.target) == '(lr, pad_len)' and isinstance(st.iter, ast.List)):
                raise ExtractionError('inner guard loop changed: ' + _u(st)[:80])
            for item in st.iter.elts:
                if not (isinstance(item, ast.Tuple) and len(item.elts) == 2):
                    raise ExtractionError('inner guard loop items changed')
                env2 = dict(env, pad_len=_loop_expr(item.elts[1], env))
                for g in st.body:
                    guards += _guard(g, env2)
            k += 1
            break
        else:
            raise ExtractionError('statement outside the grammar at the head of the axis '
                                  'loop: ' + _u(st)[:80])
        k += 1
    else:
        raise ExtractionError('inner guard loop not found')
    # nothing after the guard block may raise
    for st in body[k:]:
        for n in ast.walk(st):
            if isinstance(n, ast.Raise):
                raise ExtractionError('a raise after the guard block of _apply_padding')
    if set(env) != {'n_pad_l', 'n_pad_r'}:
        raise ExtractionError('n_pad_l / n_pad_r not both defined before the guards')
    return env, guards


def _ast_outer(defs):
    fo = defs.get('_padding_slices_outer')
    if fo is None or [a.arg for a in fo.args.args] != ['lhs_arr', 'rhs_arr', 'axis', 'offset']:
        raise ExtractionError('_padding_slices_outer signature changed')
    body = _strip_doc(fo.body)
    env, slices = {}, {}
    _run_block(body[:-1], env, slices)
    ret = body[-1]
    if not (isinstance(ret, ast.Return) and isinstance(ret.value, ast.Tuple) and
            len(ret.value.elts) == 2):
        raise ExtractionError('_padding_slices_outer does not return a pair')
    outer = '({}, {})'.format(_slice(ret.value.elts[0], env), _slice(ret.value.elts[1], env))

    return outer


def _ast_inner(defs):
    fi = defs.get('_padding_slices_inner')
    if fi is None or [a.arg for a in fi.args.args] != ['lhs_arr', 'rhs_arr', 'axis', 'offset',
                                                       'pad_mode']:
        raise ExtractionError('_padding_slices_inner signature changed')
    body = _strip_doc(fi.body)
    ifs = [i for i, s in enumerate(body) if isinstance(s, ast.If)]
    if len(ifs) != 1 or ifs[0] != len(body) - 2 or _u(body[-1]) != 'return (pad_slc_l, pad_slc_r)':
        raise ExtractionError('_padding_slices_inner is not `prelude; if-chain on pad_mode; '
                              'return pad_slc_l, pad_slc_r`')
    env0 = {}
    _run_block(body[:ifs[0]], env0, {})
    arms = {}
    node = body[ifs[0]]
    default = None
    while True:
        modes = _mode_test(node.test)
        env, slices = dict(env0), {}
        _run_block(node.body, env, slices)
        if set(slices) != {'pad_slc_l', 'pad_slc_r'}:
            raise ExtractionError('branch {} does not set both slices'.format(modes))
        for m in modes:
            if m in arms:
                raise ExtractionError('mode {} tested twice'.format(m))
            arms[m] = '({}, {})'.format(slices['pad_slc_l'], slices['pad_slc_r'])
        if len(node.orelse) == 1 and isinstance(node.orelse[0], ast.If):
            node = node.orelse[0]
            continue
        if node.orelse:
            env, slices = dict(env0), {}
            _run_block(node.orelse, env, slices)
            if set(slices) != {'pad_slc_l', 'pad_slc_r'}:
                raise ExtractionError('else branch does not set both slices')
            default = '({}, {})'.format(slices['pad_slc_l'], slices['pad_slc_r'])
        break
    for m in arms:
        if m not in MODES:
            raise ExtractionError('unknown pad mode in the source: {!r}'.format(m))
    return arms, default


# ---------------------------------------------------------------------------
# behavioural derivation of the slice tables from the live functions

_PROBE = r"""
import json, sys
import numpy as np
from odl.util import numerics as N
kind, queries = json.loads(sys.stdin.read())
out = []
for nl, nr, off, mode in queries:
    try:
        lhs, rhs = np.empty((3, nl)), np.empty((2, nr))     # axis 1 is the probed axis
        if kind == 'outer':
            res = N._padding_slices_outer(lhs, rhs, 1, [1, off])
        else:
            res = N._padding_slices_inner(lhs, rhs, 1, [1, off], mode)
        l, r = res
        ok = all(isinstance(s, slice) and all(v is None or (isinstance(v, int) and
                 not isinstance(v, bool)) for v in (s.start, s.stop, s.step)) for s in (l, r))
        out.append([[l.start, l.stop, l.step], [r.start, r.stop, r.step]] if ok else 'BAD')
    except Exception as e:
        out.append('EXC:' + type(e).__name__)
print(json.dumps(out))
"""

FIT_GRID = dict(off=range(0, 4), small=range(2, 6), extra=range(0, 4))
VERIFY_GRID = dict(off=range(0, 8), small=range(0, 10), extra=range(0, 9))
VARS = ('off', 'nLarge', 'nSmall')


def _grid_points(g):
    for off, small, extra in itertools.product(g['off'], g['small'], g['extra']):
        large = small + off + extra
        yield off, large, small


def _probe(repo, kind, queries):
    env = dict(os.environ, PYTHONPATH=repo, PYTHONDONTWRITEBYTECODE='1')
    p = subprocess.run([sys.executable, '-c', _PROBE], input=json.dumps([kind, queries]),
                       stdout=subprocess.PIPE, stderr=subprocess.PIPE, text=True, env=env,
                       timeout=300)
    if p.returncode != 0:
        raise ExtractionError('live probe of _padding_slices_{} failed: {}'.format(
            kind, p.stderr[-300:]))
    return json.loads(p.stdout)


def _affine_str(coef):
    """coef = (a_off, a_large, a_small, const) -> Lean Int term."""
    terms = []
    for k, name in zip(coef[:3], VARS):
        if k == 0:
            continue
        mag = name if abs(k) == 1 else '{} * {}'.format(abs(k), name)
        terms.append(('-' if k < 0 else '+', mag))
    if coef[3] != 0 or not terms:
        terms.append(('-' if coef[3] < 0 else '+', str(abs(coef[3]))))
    out = ('(-{})'.format(terms[0][1]) if terms[0][0] == '-' else terms[0][1])
    for sign, mag in terms[1:]:
        out = '{} {} {}'.format(out, sign, mag)
    return '({})'.format(out) if (' ' in out) else out


def _fit_component(samples):
    """samples: list of ((off, large, small), value or None).  Returns Lean `Option Int` term."""
    vals = [(p, v) for p, v in samples if v is not None]
    if not vals:
        return 'none'
    known = dict(vals)
    coef = None
    for base in known:
        pts = [tuple(base[i] + (1 if i == j else 0) for i in range(3)) for j in range(3)]
        if all(q in known for q in pts):
            a = [known[q] - known[base] for q in pts]
            d = known[base] - sum(a[i] * base[i] for i in range(3))
            coef = (a[0], a[1], a[2], d)
            break
    if coef is None:
        raise ExtractionError('live fit: no affinely independent sample points')

    def pred(p):
        return coef[0] * p[0] + coef[1] * p[1] + coef[2] * p[2] + coef[3]
    if any(pred(p) != v for p, v in vals):
        raise ExtractionError('live fit: slice component is not affine in (off, nLarge, nSmall)')
    nones = [p for p, v in samples if v is None]
    if not nones:
        return '(some {})'.format(_affine_str(coef))
    # mixed: must be the fix-up "None exactly where the value would be -1"
    if any(pred(p) != -1 for p in nones) or any(v == -1 for _, v in vals):
        raise ExtractionError('live fit: None pattern of a slice bound is not `== -1 -> None`')
    return '(noneIfMinusOne {})'.format(_affine_str(coef))


def _live_table(repo, kind, info, why):
    """Slice table of `_padding_slices_<kind>` from the live function; dict mode -> Lean pair
    (key 'all' for outer)."""
    modes = MODES + ['no-such-mode'] if kind == 'inner' else ['-']
    pts_fit = list(_grid_points(FIT_GRID))
    pts_ver = list(_grid_points(VERIFY_GRID))

    def run(points):
        queries, owners = [], []
        for off, large, small in points:
            for mode in modes:
                for swapped in (False, True):      # the function must only use max/min
                    nl, nr = (small, large) if swapped else (large, small)
                    queries.append([nl, nr, off, mode])
                    owners.append(((off, large, small), mode))
        res = _probe(repo, kind, queries)
        table = {}
        for (p, mode), r in zip(owners, res):
            if isinstance(r, str):
                raise ExtractionError('live probe: _padding_slices_{} {} at off={} nLarge={} '
                                      'nSmall={} mode={}'.format(kind, r, p[0], p[1], p[2], mode))
            prev = table.setdefault((mode, p), r)
            if prev != r:
                raise ExtractionError('live probe: result depends on the order of the arrays')
        return table
    fit = run(pts_fit)
    ver = run(pts_ver)
    out = {}
    for mode in modes:
        specs = []
        for side in (0, 1):
            comp = []
            for c in (0, 1):
                term = _fit_component([(p, fit[(mode, p)][side][c]) for p in pts_fit])
                # exact verification on the larger grid (re-fitting there must give the same
                # term, which also checks the None pattern and the affine form everywhere)
                term2 = _fit_component([(p, ver[(mode, p)][side][c]) for p in pts_ver])
                if term2 != term:
                    raise ExtractionError('live fit of _padding_slices_{} not confirmed on the '
                                          'verification grid: {} vs {}'.format(kind, term, term2))
                comp.append(term)
            steps = {ver[(mode, p)][side][2] for p in pts_ver} | \
                {fit[(mode, p)][side][2] for p in pts_fit}
            if steps <= {None, 1}:
                rev = 'false'
            elif steps == {-1}:
                rev = 'true'
            else:
                raise ExtractionError('live fit: slice step is not constantly 1 or -1')
            specs.append('⟨{}, {}, {}⟩'.format(comp[0], comp[1], rev))
        out[mode] = '({}, {})'.format(specs[0], specs[1])
    if kind == 'inner':
        if len({out['constant'], out.pop('no-such-mode')}) != 1:
            raise ExtractionError('live fit: unsupported mode strings are not treated like '
                                  "'constant'")
    else:
        out = {'all': out['-']}
    info[kind] = 'live'
    info[kind + '_why'] = why[:200]
    info['grids'] = {'fit': {k: [v.start, v.stop] for k, v in FIT_GRID.items()},
                     'verify': {k: [v.start, v.stop] for k, v in VERIFY_GRID.items()},
                     'nLarge': 'nSmall + off + extra', 'both argument orders': True,
                     'axis': '1 of a 2-d array', 'points': len(pts_fit) + len(pts_ver)}
    return out


def extract(repo=core.REPO):
    path = os.path.join(repo, 'odl', 'util', 'numerics.py')
    with open(path) as f:
        tree = ast.parse(f.read())
    defs = {n.name: n for n in tree.body if isinstance(n, ast.FunctionDef)}
    consts = {}
    for n in tree.body:
        if isinstance(n, ast.Assign) and len(n.targets) == 1 and isinstance(n.targets[0], ast.Name):
            consts[n.targets[0].id] = n.value
    if '_SUPPORTED_RESIZE_PAD_MODES' not in consts:
        raise ExtractionError('_SUPPORTED_RESIZE_PAD_MODES not found')
    supported = list(ast.literal_eval(consts['_SUPPORTED_RESIZE_PAD_MODES']))

    info = {'outer': 'ast', 'inner': 'ast'}
    try:
        outer = _ast_outer(defs)
    except ExtractionError as e:
        outer = _live_table(repo, 'outer', info, str(e))['all']
    try:
        arms, default = _ast_inner(defs)
    except ExtractionError as e:
        arms, default = _live_table(repo, 'inner', info, str(e)), None
    fa = defs.get('_apply_padding')
    if fa is None or [a.arg for a in fa.args.args] != ['lhs_arr', 'rhs_arr', 'offset', 'pad_mode',
                                                       'direction']:
        raise ExtractionError('_apply_padding signature changed')
    penv, guards = _extract_guards(fa)
    glines = []
    for i, (m, cond, err) in enumerate(guards):
        glines.append('  {}if mode = .{} ∧ {} then some {}'.format(
            '' if i == 0 else 'else ', m, cond, err))
    glines.append('  else none' if guards else '  none')
    lines = []
    for m in MODES:
        if m in arms:
            lines.append('  | .{} => {}'.format(m, arms[m]))
        elif default is not None:
            lines.append('  | .{} => {}'.format(m, default))
        else:
            raise ExtractionError('no branch for mode ' + m)
    lean = '''-- GENERATED by tools/extract/padslices.py from odl/util/numerics.py — do not edit by hand.
-- slice tables: outer source={src_outer}, inner source={src_inner} (ast = symbolic evaluation of the
-- source text; live = fitted to and verified against the live function on a grid)
import OdlModel.Model.ResizeBase
namespace OdlModel.Gen.PadSlices
open OdlModel.Resize

/-- `_SUPPORTED_RESIZE_PAD_MODES` -/
def supportedModes : List String := [{supported}]

/-- `_padding_slices_outer`: `(left, right)`; `off = offset[axis]`, `nSmall = min` of the two
axis lengths. -/
def outer (off nLarge nSmall : Int) : SliceSpec × SliceSpec :=
  {outer}

/-- `_padding_slices_inner`: `(pad_slc_l, pad_slc_r)` per pad mode. -/
def inner (mode : Mode) (off nLarge nSmall : Int) : SliceSpec × SliceSpec :=
  match mode with
{arms}

/-- `n_pad_l`, `n_pad_r` of the axis loop of `_apply_padding` (`nLhs > nRhs` there). -/
def nPadL (off nLhs nRhs : Int) : Int := {npl}
def nPadR (off nLhs nRhs : Int) : Int := {npr}

/-- The `raise ValueError` guards at the head of the axis loop of `_apply_padding`, in source
order (the loop is skipped when `n_lhs <= n_rhs`). -/
def guards (mode : Mode) (off nLhs nRhs : Int) : Option Err :=
{guards}

end OdlModel.Gen.PadSlices
'''.format(supported=', '.join('"{}"'.format(s) for s in supported), outer=outer,
           arms='\n'.join(lines), npl=penv['n_pad_l'], npr=penv['n_pad_r'],
           guards='\n'.join(glines), src_outer=info['outer'], src_inner=info['inner'])
    return lean, info


def regenerate(repo=core.REPO):
    """Returns (changed, info); info says for each slice table whether it came from the AST or
    from the live function (and then on which grids it was fitted and verified)."""
    lean, info = extract(repo)
    changed = core.write_if_changed(
        os.path.join(core.LEAN, 'OdlModel', 'Gen', 'PadSlices.lean'), lean)
    return changed, info


if __name__ == '__main__':
    text, inf = extract()
    print(text)
    print(json.dumps(inf), file=sys.stderr)
