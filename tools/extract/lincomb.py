"""Translator: odl/space/npy_tensors.py::_lincomb_impl  ->  OdlModel/Gen/LincombTree.lean

The grammar is deliberately tiny.  Anything outside it raises ExtractionError, which the
check treats as a broken obligation (then searches the real code), never as a pass.
"""
import ast
import os

from vf import core


class ExtractionError(Exception):
    pass


def _u(node):
    return ast.unparse(node)


def _strip_doc(body):
    if body and isinstance(body[0], ast.Expr) and isinstance(body[0].value, ast.Constant) \
            and isinstance(body[0].value.value, str):
        return body[1:]
    return body


COEF = {'a': 'Coef.a', 'b': 'Coef.b', 'apb': 'Coef.apb'}
SRC = {'x1': 'Src.x1', 'x2': 'Src.x2'}

# ---------------------------------------------------------------------------------------
# The dispatch part of `_lincomb_impl` is translated by a small SYMBOLIC EXECUTOR rather than
# by pattern matching on its shape, so that harmless restructurings (elif chains, merged
# branches that first pick `scalar, src = a, x1_arr`, conditional expressions, early returns)
# give an equivalent program instead of an extraction failure.  It interprets exactly:
#   * assignments of symbolic values (the scalars a, b, a + b; the sources x1_arr, x2_arr;
#     the constants 0 and 1) to local names, also tuple-wise;
#   * if / elif / else and conditional expressions whose tests are Boolean combinations of
#     `<scalar> ==/!= 0|1` (for a + b only `0`), and `is` / `is not` between x1, x2, out;
#   * the primitives scal(c, out_arr, size), axpy(src, out_arr, size, c),
#     copy(src, out_arr, size), `out_arr[:] = 0`, `pass`, a bare `return`, and the recursive
#     call `_lincomb_impl(a + b, x1, 0, x1, out)`.
# Anything else raises ExtractionError (fail closed).  A branch that changes the local
# environment is handled by executing the rest of the block once per branch.
# ---------------------------------------------------------------------------------------
BASE_ENV = {'a': ('coef', 'a'), 'b': ('coef', 'b'),
            'x1_arr': ('src', 'x1'), 'x2_arr': ('src', 'x2')}
PROTECTED = {'a', 'b', 'x1', 'x2', 'out', 'x1_arr', 'x2_arr', 'out_arr', 'size',
             'axpy', 'scal', 'copy', '_lincomb_impl'}


def _val(node, env):
    """Symbolic value of an expression, or ExtractionError."""
    if isinstance(node, ast.Name):
        if node.id in env:
            return env[node.id]
        raise ExtractionError('unknown name in the dispatch: ' + node.id)
    if isinstance(node, ast.Constant) and type(node.value) is int and node.value in (0, 1):
        return ('const', node.value)
    if isinstance(node, ast.BinOp) and isinstance(node.op, ast.Add):
        l, r = _val(node.left, env), _val(node.right, env)
        if {l, r} == {('coef', 'a'), ('coef', 'b')}:
            return ('coef', 'apb')
        raise ExtractionError('unknown sum ' + _u(node))
    if isinstance(node, ast.Tuple):
        return ('tuple',) + tuple(_val(e, env) for e in node.elts)
    if isinstance(node, ast.IfExp):
        return ('ifexp', _cond(node.test, env), _val(node.body, env), _val(node.orelse, env))
    raise ExtractionError('unknown expression in the dispatch: ' + _u(node))


def _cond(node, env):
    if isinstance(node, ast.BoolOp):
        op = 'Cond.and' if isinstance(node.op, ast.And) else 'Cond.or'
        parts = [_cond(v, env) for v in node.values]
        out = parts[0]
        for p in parts[1:]:
            out = '({} {} {})'.format(op, out, p)
        return out
    if isinstance(node, ast.UnaryOp) and isinstance(node.op, ast.Not):
        return '(Cond.not {})'.format(_cond(node.operand, env))
    if isinstance(node, ast.Compare) and len(node.ops) == 1:
        op = node.ops[0]
        if isinstance(op, (ast.Is, ast.IsNot)):
            l, r = _u(node.left), _u(node.comparators[0])
            tbl = {('x1', 'x2'): 'Cond.x1IsX2', ('x2', 'x1'): 'Cond.x1IsX2',
                   ('out', 'x1'): 'Cond.outIsX1', ('x1', 'out'): 'Cond.outIsX1',
                   ('out', 'x2'): 'Cond.outIsX2', ('x2', 'out'): 'Cond.outIsX2'}
            if (l, r) not in tbl:
                raise ExtractionError('unknown identity test ' + _u(node))
            c = tbl[(l, r)]
            return c if isinstance(op, ast.Is) else '(Cond.not {})'.format(c)
        if isinstance(op, (ast.Eq, ast.NotEq)):
            l, r = _val(node.left, env), _val(node.comparators[0], env)
            if l[0] == 'const' and r[0] == 'coef':
                l, r = r, l
            tbl = {('a', 0): 'Cond.aEq0', ('a', 1): 'Cond.aEq1',
                   ('b', 0): 'Cond.bEq0', ('b', 1): 'Cond.bEq1',
                   ('apb', 0): 'Cond.apbEq0'}
            if l[0] != 'coef' or r[0] != 'const' or (l[1], r[1]) not in tbl:
                raise ExtractionError('unknown scalar test ' + _u(node))
            c = tbl[(l[1], r[1])]
            return c if isinstance(op, ast.Eq) else '(Cond.not {})'.format(c)
    raise ExtractionError('unknown condition ' + _u(node))


def _assigns(stmts):
    """Does the block (recursively) assign a local name or return early?"""
    for st in stmts:
        for n in ast.walk(st):
            if isinstance(n, ast.Return):
                return True
            if isinstance(n, ast.Assign) and _u(n) != 'out_arr[:] = 0' and \
                    _u(n.targets[0]) != 'out.data[:]':
                return True
    return False


def _seq(first, rest):
    if rest == 'Stmt.skip':
        return first
    if first == 'Stmt.skip':
        return rest
    return '(Stmt.seq {} {})'.format(first, rest)


def _coef(v, node):
    if v[0] != 'coef':
        raise ExtractionError('not one of the scalars a, b, a + b: ' + _u(node))
    return COEF[v[1]]


def _src(v, node):
    if v[0] != 'src':
        raise ExtractionError('not one of x1_arr, x2_arr: ' + _u(node))
    return SRC[v[1]]


def _term(node, env):
    """`a * x1.data` -> 'a', `b * x2.data` -> 'b' (either factor order); else error."""
    if isinstance(node, ast.BinOp) and isinstance(node.op, ast.Mult):
        for c, v in ((node.left, node.right), (node.right, node.left)):
            if _u(v) in ('x1.data', 'x2.data'):
                cv = _val(c, env)
                if cv == ('coef', 'a') and _u(v) == 'x1.data':
                    return 'a'
                if cv == ('coef', 'b') and _u(v) == 'x2.data':
                    return 'b'
    raise ExtractionError('not a term a * x1.data / b * x2.data: ' + _u(node))


def _direct(node, env):
    """Right-hand side of `out.data[:] = …` in the small-size branch."""
    if isinstance(node, ast.Constant) and type(node.value) is int and node.value == 0:
        return '(Stmt.lin false false)'
    if isinstance(node, ast.BinOp) and isinstance(node.op, ast.Add):
        ts = {_term(node.left, env), _term(node.right, env)}
        if ts != {'a', 'b'}:
            raise ExtractionError('direct expression ' + _u(node))
        return '(Stmt.lin true true)'
    t = _term(node, env)
    return '(Stmt.lin true false)' if t == 'a' else '(Stmt.lin false true)'


def _bind(env, target, val, node):
    """Bind a (tuple of) local name(s); conditional values fork the execution."""
    if isinstance(target, ast.Tuple):
        if val[0] != 'tuple' or len(val) - 1 != len(target.elts):
            raise ExtractionError('tuple assignment ' + _u(node))
        for t, v in zip(target.elts, val[1:]):
            env = _bind(env, t, v, node)
        return env
    if not isinstance(target, ast.Name) or target.id in PROTECTED:
        raise ExtractionError('assignment to ' + _u(target) + ' in the dispatch')
    if val[0] not in ('coef', 'src', 'const'):
        raise ExtractionError('assigned value in ' + _u(node))
    env = dict(env)
    env[target.id] = val
    return env


def _exec(stmts, env):
    """Stmt term for a statement list executed in the symbolic environment env."""
    if not stmts:
        return 'Stmt.skip'
    node, rest = stmts[0], stmts[1:]
    if isinstance(node, ast.Return):
        if node.value is not None:
            raise ExtractionError('return with a value in the dispatch')
        return 'Stmt.skip'
    if isinstance(node, ast.Pass):
        return _exec(rest, env)
    if isinstance(node, ast.If):
        c = _cond(node.test, env)
        if _assigns(node.body) or _assigns(node.orelse):
            return '(Stmt.ite {} {} {})'.format(c, _exec(node.body + rest, env),
                                                _exec(node.orelse + rest, env))
        return _seq('(Stmt.ite {} {} {})'.format(c, _exec(node.body, env),
                                                 _exec(node.orelse, env)), _exec(rest, env))
    if isinstance(node, ast.Assign) and _u(node.targets[0]) == 'out.data[:]' and \
            len(node.targets) == 1:
        return _seq(_direct(node.value, env), _exec(rest, env))
    if isinstance(node, ast.Assign):
        if _u(node) == 'out_arr[:] = 0':
            return _seq('Stmt.zero', _exec(rest, env))
        if len(node.targets) != 1:
            raise ExtractionError('chained assignment ' + _u(node))
        val = _val(node.value, env)
        if val[0] == 'ifexp':
            return '(Stmt.ite {} {} {})'.format(
                val[1], _exec(rest, _bind(env, node.targets[0], val[2], node)),
                _exec(rest, _bind(env, node.targets[0], val[3], node)))
        return _exec(rest, _bind(env, node.targets[0], val, node))
    if isinstance(node, ast.Expr) and isinstance(node.value, ast.Call):
        call = node.value
        fn = _u(call.func)
        if call.keywords:
            raise ExtractionError('keywords in ' + _u(node))
        args = call.args
        names = [_u(a) for a in args]
        if fn == 'scal' and len(args) == 3 and names[1:] == ['out_arr', 'size']:
            return _seq('(Stmt.scal {})'.format(_coef(_val(args[0], env), node)), _exec(rest, env))
        if fn == 'axpy' and len(args) == 4 and names[1:3] == ['out_arr', 'size']:
            return _seq('(Stmt.axpy {} {})'.format(_src(_val(args[0], env), node),
                                                   _coef(_val(args[3], env), node)),
                        _exec(rest, env))
        if fn == 'copy' and len(args) == 3 and names[1:] == ['out_arr', 'size']:
            return _seq('(Stmt.copy {})'.format(_src(_val(args[0], env), node)), _exec(rest, env))
        if fn == '_lincomb_impl' and len(args) == 5 and names[1] == 'x1' and \
                names[3:] == ['x1', 'out'] and _val(args[0], env) == ('coef', 'apb') and \
                _val(args[2], env) == ('const', 0):
            return _seq('Stmt.recurse', _exec(rest, env))
        raise ExtractionError('unknown call ' + _u(node))
    raise ExtractionError('unknown statement ' + _u(node))


def _stmt(node):
    return _exec([node], dict(BASE_ENV))


class _Norm(ast.NodeTransformer):
    """`if c: v = A else: v = B`  ->  `v = A if c else B` (shape normalisation used before the
    exact comparison of the regime preludes)."""

    def visit_If(self, node):
        self.generic_visit(node)
        if len(node.body) == 1 and len(node.orelse) == 1 and \
                all(isinstance(s, ast.Assign) and len(s.targets) == 1 and
                    isinstance(s.targets[0], ast.Name) for s in node.body + node.orelse) and \
                node.body[0].targets[0].id == node.orelse[0].targets[0].id:
            return ast.copy_location(ast.Assign(
                targets=[node.body[0].targets[0]],
                value=ast.IfExp(test=node.test, body=node.body[0].value,
                                orelse=node.orelse[0].value), lineno=node.lineno), node)
        return node


BATOMS = {
    'any((x.dtype != args[0].dtype for x in args[1:]))': 'BCond.dtypesDiffer',
    'any((x.dtype not in _BLAS_DTYPES for x in args))': 'BCond.dtypeNotBlas',
    'all((x.flags.f_contiguous for x in args))': 'BCond.allF',
    'all((x.flags.c_contiguous for x in args))': 'BCond.allC',
    "any((x.size > np.iinfo('int32').max for x in args))": 'BCond.tooBig',
}


def _bcond(node):
    if isinstance(node, ast.BoolOp):
        op = 'BCond.and' if isinstance(node.op, ast.And) else 'BCond.or'
        parts = [_bcond(v) for v in node.values]
        out = parts[0]
        for q in parts[1:]:
            out = '({} {} {})'.format(op, out, q)
        return out
    if isinstance(node, ast.UnaryOp) and isinstance(node.op, ast.Not):
        return '(BCond.not {})'.format(_bcond(node.operand))
    u = _u(node)
    if u in BATOMS:
        return BATOMS[u]
    raise ExtractionError('unknown test in _blas_is_applicable: ' + u)


def _btree(stmts):
    """An if/elif/else chain whose bodies are `return True/False`."""
    stmts = _strip_doc(stmts)
    if len(stmts) != 1:
        raise ExtractionError('_blas_is_applicable: expected a single if-chain or return')
    st = stmts[0]
    if isinstance(st, ast.Return) and isinstance(st.value, ast.Constant) and \
            isinstance(st.value.value, bool):
        return '(BTree.ret {})'.format('true' if st.value.value else 'false')
    if isinstance(st, ast.If):
        if not st.orelse:
            raise ExtractionError('_blas_is_applicable: if without else')
        return '(BTree.ite {} {} {})'.format(_bcond(st.test), _btree(st.body),
                                             _btree(st.orelse))
    raise ExtractionError('_blas_is_applicable: unknown statement ' + _u(st))


BLAS_NOTE = []      # how the last blasTree was obtained (reported in the evidence)

_ALLOWED_NODES = (
    ast.FunctionDef, ast.arguments, ast.arg, ast.Return, ast.If, ast.For, ast.Expr, ast.Assign,
    ast.Name, ast.Attribute, ast.Subscript, ast.Slice, ast.Constant, ast.Compare, ast.BoolOp,
    ast.UnaryOp, ast.Call, ast.GeneratorExp, ast.ListComp, ast.comprehension, ast.Tuple,
    ast.IfExp, ast.Load, ast.Store, ast.And, ast.Or, ast.Not, ast.Eq, ast.NotEq, ast.In,
    ast.NotIn, ast.Gt, ast.GtE, ast.Lt, ast.LtE, ast.Is, ast.IsNot, ast.Pass, ast.Continue,
    ast.Break)
_ALLOWED_ATTRS = {'dtype', 'size', 'flags', 'f_contiguous', 'c_contiguous', 'max', 'iinfo'}
_ALLOWED_CALLS = {'any', 'all', 'np.iinfo', 'len'}
_INT32MAX = "np.iinfo('int32').max"


def _blas_vocabulary(tree, fn):
    """Fail-closed check that `_blas_is_applicable` can only look at what the descriptor `Desc`
    records: dtype (in)equality among the arguments and membership in `_BLAS_DTYPES`, `.size`
    compared with the int32 maximum only, and the two contiguity flags; no other attribute, no
    other constant, no other call, no exception handling, no loops other than over `args`."""
    consts = {}
    for node in tree.body:
        if isinstance(node, ast.Assign) and len(node.targets) == 1 and \
                isinstance(node.targets[0], ast.Name) and _u(node.value) == _INT32MAX:
            consts[node.targets[0].id] = _INT32MAX
    local = {'args'}
    for n in ast.walk(fn):
        if isinstance(n, ast.Name) and isinstance(n.ctx, ast.Store):
            local.add(n.id)
    for n in ast.walk(fn):
        if not isinstance(n, _ALLOWED_NODES):
            raise ExtractionError('_blas_is_applicable uses {} (outside the vocabulary)'
                                  .format(type(n).__name__))
        if isinstance(n, ast.Attribute) and n.attr not in _ALLOWED_ATTRS:
            raise ExtractionError('_blas_is_applicable reads attribute .' + n.attr)
        if isinstance(n, ast.Call) and (_u(n.func) not in _ALLOWED_CALLS or n.keywords):
            raise ExtractionError('_blas_is_applicable calls ' + _u(n.func))
        if isinstance(n, ast.Call) and _u(n.func) == 'np.iinfo' and _u(n) != "np.iinfo('int32')":
            raise ExtractionError('_blas_is_applicable: ' + _u(n))
        if isinstance(n, ast.Name) and isinstance(n.ctx, ast.Load) and n.id not in local and \
                n.id not in consts and n.id not in ('np', '_BLAS_DTYPES', 'any', 'all', 'len',
                                                    'True', 'False'):
            raise ExtractionError('_blas_is_applicable uses the name ' + n.id)
        if isinstance(n, ast.For) and _u(n.iter) not in ('args', 'args[1:]'):
            raise ExtractionError('_blas_is_applicable loops over ' + _u(n.iter))
        if isinstance(n, ast.Compare):
            sides = [n.left] + list(n.comparators)
            us = [_u(x) for x in sides]
            if any(u.endswith('.size') for u in us):
                other = [u for u in us if not u.endswith('.size')]
                if len(n.ops) != 1 or len(other) != 1 or \
                        (other[0] != _INT32MAX and consts.get(other[0]) != _INT32MAX):
                    raise ExtractionError('_blas_is_applicable compares a size with ' + repr(other))
    for n in ast.walk(fn):
        if isinstance(n, ast.Constant) and not isinstance(n.value, (bool, str, type(None))):
            # numeric literals only as positions into `args`
            if not (type(n.value) is int and n.value in (0, 1)):
                raise ExtractionError('_blas_is_applicable: numeric literal {!r}'.format(n.value))
    for n in ast.walk(fn):
        if isinstance(n, ast.Subscript) and _u(n.value) != 'args':
            raise ExtractionError('_blas_is_applicable subscripts ' + _u(n.value))


class _Flags(object):
    def __init__(self, c, f):
        self.c_contiguous, self.f_contiguous = c, f


class _Stub(object):
    """What `_blas_is_applicable` may look at of an array."""

    def __init__(self, dtype, size, c, f):
        import numpy as np
        self.dtype, self.size, self.flags = np.dtype(dtype), size, _Flags(c, f)


def _blas_tree_live(repo, tree, fn):
    """Truth table of the LIVE `_blas_is_applicable` over the descriptor atoms, used when the
    function is not a plain if/elif chain.  Sound only together with `_blas_vocabulary`."""
    import itertools
    import importlib
    _blas_vocabulary(tree, fn)
    mod = importlib.import_module('odl.space.npy_tensors')
    if not os.path.realpath(mod.__file__).startswith(os.path.realpath(repo) + os.sep):
        raise ExtractionError('live module {} is not the tree under test {}'.format(mod.__file__, repo))
    live = mod._blas_is_applicable
    blas = set(mod._BLAS_DTYPES)
    dtypes = ['float32', 'float64', 'complex64', 'complex128', 'float16', 'int64', 'bool', 'object']
    imax = 2 ** 31 - 1
    sizes = [6, imax, imax + 1]
    per_arg = [(dt, sz, c, f) for dt in dtypes for sz in sizes
               for c in (False, True) for f in (False, True)]
    table = {}
    ncalls = 0
    # all pairs exhaustively for the (x1, out) positions, a reduced set for the middle one
    mid = [(dt, sz, c, f) for dt in ('float32', 'float64', 'int64') for sz in (6, imax + 1)
           for c in (False, True) for f in (False, True)]
    for a1 in per_arg:
        s1 = _Stub(*a1)
        for a2 in mid:
            s2 = _Stub(*a2)
            for a3 in per_arg:
                s3 = _Stub(*a3)
                try:
                    r = live(s1, s2, s3)
                except Exception as e:
                    raise ExtractionError('live _blas_is_applicable raised {}: {}'
                                          .format(type(e).__name__, e))
                ncalls += 1
                if r is not True and r is not False:
                    raise ExtractionError('live _blas_is_applicable returned {!r}'.format(r))
                args = (a1, a2, a3)
                key = (any(x[0] != a1[0] for x in args[1:]),
                       any(__import__('numpy').dtype(x[0]) not in blas for x in args),
                       all(x[3] for x in args), all(x[2] for x in args),
                       any(x[1] > imax for x in args))
                if table.setdefault(key, r) != r:
                    raise ExtractionError(
                        '_blas_is_applicable is not a function of (dtypes differ, dtype not BLAS, '
                        'all F-contiguous, all C-contiguous, too big): differs inside class {} at {}'
                        .format(key, args))
    if len(table) != 32:
        raise ExtractionError('descriptor classes reached: {} of 32'.format(len(table)))
    atoms = ['BCond.dtypesDiffer', 'BCond.dtypeNotBlas', 'BCond.allF', 'BCond.allC', 'BCond.tooBig']

    def build(prefix):
        if len(prefix) == 5:
            return '(BTree.ret {})'.format('true' if table[tuple(prefix)] else 'false')
        t, e = build(prefix + [True]), build(prefix + [False])
        if t == e:
            return t
        return '(BTree.ite {} {} {})'.format(atoms[len(prefix)], t, e)
    BLAS_NOTE.append('blasTree source=live (truth table of the live function over 32 descriptor '
                     'classes, {} stub calls, AST vocabulary check passed)'.format(ncalls))
    return build([])


def _blas_tree(tree, repo=core.REPO):
    del BLAS_NOTE[:]
    fn = None
    for node in tree.body:
        if isinstance(node, ast.FunctionDef) and node.name == '_blas_is_applicable':
            fn = node
    if fn is None:
        raise ExtractionError('_blas_is_applicable not found')
    if fn.args.vararg is None or fn.args.vararg.arg != 'args' or fn.args.args:
        raise ExtractionError('_blas_is_applicable signature changed')
    blas_dtypes = None
    for node in tree.body:
        if isinstance(node, ast.Assign) and _u(node.targets[0]) == '_BLAS_DTYPES':
            blas_dtypes = _u(node.value)
    want = "(np.dtype('float32'), np.dtype('float64'), np.dtype('complex64'), np.dtype('complex128'))"
    if blas_dtypes != want:
        raise ExtractionError('_BLAS_DTYPES changed: ' + repr(blas_dtypes))
    try:
        t = _btree(fn.body)
        BLAS_NOTE.append('blasTree source=ast')
        return t
    except ExtractionError as e:
        first = str(e)
    try:
        return _blas_tree_live(repo, tree, fn)
    except ExtractionError as e:
        raise ExtractionError('{}; live fallback: {}'.format(first, e))


def extract(repo=core.REPO):
    path = os.path.join(repo, 'odl', 'space', 'npy_tensors.py')
    with open(path) as f:
        tree = ast.parse(f.read())
    consts = {}
    fn = None
    for node in tree.body:
        if isinstance(node, ast.Assign) and len(node.targets) == 1 and \
                isinstance(node.targets[0], ast.Name) and \
                node.targets[0].id in ('THRESHOLD_SMALL', 'THRESHOLD_MEDIUM'):
            consts[node.targets[0].id] = ast.literal_eval(node.value)
        if isinstance(node, ast.FunctionDef) and node.name == '_lincomb_impl':
            fn = node
    if fn is None or set(consts) != {'THRESHOLD_SMALL', 'THRESHOLD_MEDIUM'}:
        raise ExtractionError('_lincomb_impl or thresholds not found')
    for k, v in consts.items():
        if not isinstance(v, int) or v < 0:
            raise ExtractionError('threshold {} = {!r}'.format(k, v))
    if [_u(a) for a in fn.args.args] != ['a', 'x1', 'b', 'x2', 'out']:
        raise ExtractionError('signature changed')
    body = _strip_doc(fn.body)
    body = [s for s in body if not isinstance(s, (ast.Import, ast.ImportFrom))]
    if len(body) == 4 and _u(body[1]) == 'if a == 0 and b == 0:\n    out.data[:] = 0\n    return':
        zero_guard = 'true'
        body = [body[0]] + body[2:]
    else:
        zero_guard = 'false'
    if len(body) != 3:
        raise ExtractionError('expected size assignment, [zero guard,] regime if, dispatch if; '
                              'got {} statements'.format(len(body)))
    if _u(body[0]) != 'size = native(x1.size)':
        raise ExtractionError('size computation changed: ' + _u(body[0]))
    reg = body[1]
    if not isinstance(reg, ast.If) or _u(reg.test) != 'size < THRESHOLD_SMALL':
        raise ExtractionError('regime test 1 changed')
    if not reg.body or _u(reg.body[-1]) != 'return':
        raise ExtractionError('small-size branch does not end with `return`')
    prog_small = _exec(list(reg.body), dict(BASE_ENV))   # direct NumPy expressions only
    if 'Stmt.lin' not in prog_small or any(k in prog_small for k in
                                           ('Stmt.scal', 'Stmt.axpy', 'Stmt.copy', 'Stmt.recurse',
                                            'Stmt.zero')):
        raise ExtractionError('small-size branch is not made of direct expressions: ' + prog_small)
    if len(reg.orelse) != 1 or not isinstance(reg.orelse[0], ast.If):
        raise ExtractionError('regime structure changed')
    reg2 = reg.orelse[0]
    if _u(reg2.test) != ('size < THRESHOLD_MEDIUM or not _blas_is_applicable(x1.data, x2.data, '
                         'out.data)'):
        raise ExtractionError('regime test 2 changed: ' + _u(reg2.test))
    # fallback regime
    defs = {s.name: s for s in reg2.body if isinstance(s, ast.FunctionDef)}
    rest = [_u(s) for s in reg2.body if not isinstance(s, ast.FunctionDef)]
    if rest != ['axpy, scal, copy = (fallback_axpy, fallback_scal, fallback_copy)',
                'x1_arr = x1.data', 'x2_arr = x2.data', 'out_arr = out.data']:
        raise ExtractionError('fallback regime bindings changed: ' + repr(rest))
    if set(defs) != {'fallback_axpy', 'fallback_scal', 'fallback_copy'}:
        raise ExtractionError('fallback functions changed')
    ax = defs['fallback_axpy']
    if [_u(a) for a in ax.args.args] != ['x1', 'x2', 'n', 'a']:
        raise ExtractionError('fallback_axpy signature changed')
    axb = [_u(s) for s in _strip_doc(ax.body)]
    if axb == ['if a != 0:\n    x2 += a * x1', 'return x2']:
        guard = 'true'
    elif axb == ['x2 += a * x1', 'return x2']:
        guard = 'false'
    else:
        raise ExtractionError('fallback_axpy body is not `x2 += a * x1` (optionally guarded by '
                              '`a != 0`): ' + repr(axb))
    if [_u(s) for s in _strip_doc(defs['fallback_scal'].body)] != ['x *= a', 'return x'] or \
            [_u(a) for a in defs['fallback_scal'].args.args] != ['a', 'x', 'n']:
        raise ExtractionError('fallback_scal changed')
    if [_u(s) for s in _strip_doc(defs['fallback_copy'].body)] != ['x2[...] = x1[...]', 'return x2'] \
            or [_u(a) for a in defs['fallback_copy'].args.args] != ['x1', 'x2', 'n']:
        raise ExtractionError('fallback_copy changed')
    # BLAS regime
    blas = [_u(ast.fix_missing_locations(_Norm().visit(s))) for s in reg2.orelse]
    want = ["ravel_order = 'F' if out.data.flags.f_contiguous else 'C'",
            'x1_arr = x1.data.ravel(order=ravel_order)',
            'x2_arr = x2.data.ravel(order=ravel_order)',
            'out_arr = out.data.ravel(order=ravel_order)',
            "axpy, scal, copy = scipy.linalg.blas.get_blas_funcs(['axpy', 'scal', 'copy'], "
            "arrays=(x1_arr, x2_arr, out_arr))"]
    if blas != want:
        raise ExtractionError('BLAS regime changed: ' + repr(blas))
    prog = _stmt(body[2])
    btree = _blas_tree(tree, repo)
    lean = '''/- GENERATED by tools/extract/lincomb.py from odl/space/npy_tensors.py — do not edit. -/
import OdlModel.Model.Lincomb
namespace OdlModel.Gen.Lincomb
open OdlModel.Lincomb

def thrSmall : Nat := {small}
def thrMedium : Nat := {medium}
/-- `fallback_axpy` is `x2 += a * x1`, guarded by `a != 0` iff true. -/
def fbGuard : Bool := {guard}
/-- `if a == 0 and b == 0: out.data[:] = 0; return` precedes the regime selection iff true. -/
def zeroGuard : Bool := {szg}
/-- `_blas_is_applicable(x1.data, x2.data, out.data)` as an if/elif chain. -/
def blasTree : BTree :=
  {btree}
/-- The alias/scalar dispatch of `_lincomb_impl`, in program order. -/
def prog : Stmt :=
  {prog}
/-- The body of the small-size branch (`out.data[:] = …` direct NumPy expressions). -/
def progSmall : Stmt :=
  {progsmall}

def params : Params :=
  {{ thrSmall := thrSmall, thrMedium := thrMedium, fbGuard := fbGuard, zeroGuard := zeroGuard,
     blasTree := blasTree, prog := prog, progSmall := progSmall }}

end OdlModel.Gen.Lincomb
'''.format(small=consts['THRESHOLD_SMALL'], medium=consts['THRESHOLD_MEDIUM'], guard=guard,
           szg=zero_guard, prog=prog, btree=btree, progsmall=prog_small)
    return lean


def regenerate(repo=core.REPO):
    lean = extract(repo)
    changed = core.write_if_changed(
        os.path.join(core.LEAN, 'OdlModel', 'Gen', 'LincombTree.lean'), lean)
    return changed


if __name__ == '__main__':
    print(extract())
