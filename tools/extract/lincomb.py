"""Translator: odl/space/npy_tensors.py::_lincomb_impl  ->  OdlModel/Gen/LincombTree.lean

The grammar is deliberately tiny.  Anything outside it raises ExtractionError, which the
check treats as a broken obligation (then searches the real code), never as a pass.
"""
import ast
import os

from vf import core


class ExtractionError(Exception):
    pass


def _u(node):
    return ast.unparse(node)


def _strip_doc(body):
    if body and isinstance(body[0], ast.Expr) and isinstance(body[0].value, ast.Constant) \
            and isinstance(body[0].value.value, str):
        return body[1:]
    return body


COEF = {'a': 'Coef.a', 'b': 'Coef.b', 'a + b': 'Coef.apb'}
SRC = {'x1_arr': 'Src.x1', 'x2_arr': 'Src.x2'}


def _cond(node):
    if isinstance(node, ast.BoolOp):
        op = 'Cond.and' if isinstance(node.op, ast.And) else 'Cond.or'
        parts = [_cond(v) for v in node.values]
        out = parts[0]
        for p in parts[1:]:
            out = '({} {} {})'.format(op, out, p)
        return out
    if isinstance(node, ast.UnaryOp) and isinstance(node.op, ast.Not):
        return '(Cond.not {})'.format(_cond(node.operand))
    if isinstance(node, ast.Compare) and len(node.ops) == 1:
        l, r, op = _u(node.left), _u(node.comparators[0]), node.ops[0]
        if isinstance(op, (ast.Is, ast.IsNot)):
            tbl = {('x1', 'x2'): 'Cond.x1IsX2', ('x2', 'x1'): 'Cond.x1IsX2',
                   ('out', 'x1'): 'Cond.outIsX1', ('x1', 'out'): 'Cond.outIsX1',
                   ('out', 'x2'): 'Cond.outIsX2', ('x2', 'out'): 'Cond.outIsX2'}
            if (l, r) not in tbl:
                raise ExtractionError('unknown identity test ' + _u(node))
            c = tbl[(l, r)]
            return c if isinstance(op, ast.Is) else '(Cond.not {})'.format(c)
        if isinstance(op, (ast.Eq, ast.NotEq)):
            tbl = {('a', '0'): 'Cond.aEq0', ('a', '1'): 'Cond.aEq1',
                   ('b', '0'): 'Cond.bEq0', ('b', '1'): 'Cond.bEq1',
                   ('a + b', '0'): 'Cond.apbEq0'}
            if (l, r) not in tbl:
                raise ExtractionError('unknown scalar test ' + _u(node))
            c = tbl[(l, r)]
            return c if isinstance(op, ast.Eq) else '(Cond.not {})'.format(c)
    raise ExtractionError('unknown condition ' + _u(node))


def _stmt(node):
    if isinstance(node, ast.If):
        return '(Stmt.ite {} {} {})'.format(_cond(node.test), _block(node.body),
                                            _block(node.orelse))
    if isinstance(node, ast.Expr) and isinstance(node.value, ast.Call):
        call = node.value
        fn = _u(call.func)
        args = [_u(a) for a in call.args]
        if call.keywords:
            raise ExtractionError('keywords in ' + _u(node))
        if fn == 'scal' and len(args) == 3 and args[0] in COEF and args[1:] == ['out_arr', 'size']:
            return '(Stmt.scal {})'.format(COEF[args[0]])
        if fn == 'axpy' and len(args) == 4 and args[0] in SRC and \
                args[1:3] == ['out_arr', 'size'] and args[3] in COEF:
            return '(Stmt.axpy {} {})'.format(SRC[args[0]], COEF[args[3]])
        if fn == 'copy' and len(args) == 3 and args[0] in SRC and args[1:] == ['out_arr', 'size']:
            return '(Stmt.copy {})'.format(SRC[args[0]])
        if fn == '_lincomb_impl' and args == ['a + b', 'x1', '0', 'x1', 'out']:
            return 'Stmt.recurse'
        raise ExtractionError('unknown call ' + _u(node))
    if isinstance(node, ast.Assign) and _u(node) == 'out_arr[:] = 0':
        return 'Stmt.zero'
    if isinstance(node, ast.Pass):
        return 'Stmt.skip'
    raise ExtractionError('unknown statement ' + _u(node))


def _block(stmts):
    if not stmts:
        return 'Stmt.skip'
    parts = [_stmt(s) for s in stmts]
    out = parts[-1]
    for p in reversed(parts[:-1]):
        out = '(Stmt.seq {} {})'.format(p, out)
    return out


BATOMS = {
    'any((x.dtype != args[0].dtype for x in args[1:]))': 'BCond.dtypesDiffer',
    'any((x.dtype not in _BLAS_DTYPES for x in args))': 'BCond.dtypeNotBlas',
    'all((x.flags.f_contiguous for x in args))': 'BCond.allF',
    'all((x.flags.c_contiguous for x in args))': 'BCond.allC',
    "any((x.size > np.iinfo('int32').max for x in args))": 'BCond.tooBig',
}


def _bcond(node):
    if isinstance(node, ast.BoolOp):
        op = 'BCond.and' if isinstance(node.op, ast.And) else 'BCond.or'
        parts = [_bcond(v) for v in node.values]
        out = parts[0]
        for q in parts[1:]:
            out = '({} {} {})'.format(op, out, q)
        return out
    if isinstance(node, ast.UnaryOp) and isinstance(node.op, ast.Not):
        return '(BCond.not {})'.format(_bcond(node.operand))
    u = _u(node)
    if u in BATOMS:
        return BATOMS[u]
    raise ExtractionError('unknown test in _blas_is_applicable: ' + u)


def _btree(stmts):
    """An if/elif/else chain whose bodies are `return True/False`."""
    stmts = _strip_doc(stmts)
    if len(stmts) != 1:
        raise ExtractionError('_blas_is_applicable: expected a single if-chain or return')
    st = stmts[0]
    if isinstance(st, ast.Return) and isinstance(st.value, ast.Constant) and \
            isinstance(st.value.value, bool):
        return '(BTree.ret {})'.format('true' if st.value.value else 'false')
    if isinstance(st, ast.If):
        if not st.orelse:
            raise ExtractionError('_blas_is_applicable: if without else')
        return '(BTree.ite {} {} {})'.format(_bcond(st.test), _btree(st.body),
                                             _btree(st.orelse))
    raise ExtractionError('_blas_is_applicable: unknown statement ' + _u(st))


def _blas_tree(tree):
    fn = None
    for node in tree.body:
        if isinstance(node, ast.FunctionDef) and node.name == '_blas_is_applicable':
            fn = node
    if fn is None:
        raise ExtractionError('_blas_is_applicable not found')
    if fn.args.vararg is None or fn.args.vararg.arg != 'args' or fn.args.args:
        raise ExtractionError('_blas_is_applicable signature changed')
    blas_dtypes = None
    for node in tree.body:
        if isinstance(node, ast.Assign) and _u(node.targets[0]) == '_BLAS_DTYPES':
            blas_dtypes = _u(node.value)
    want = "(np.dtype('float32'), np.dtype('float64'), np.dtype('complex64'), np.dtype('complex128'))"
    if blas_dtypes != want:
        raise ExtractionError('_BLAS_DTYPES changed: ' + repr(blas_dtypes))
    return _btree(fn.body)


def extract(repo=core.REPO):
    path = os.path.join(repo, 'odl', 'space', 'npy_tensors.py')
    with open(path) as f:
        tree = ast.parse(f.read())
    consts = {}
    fn = None
    for node in tree.body:
        if isinstance(node, ast.Assign) and len(node.targets) == 1 and \
                isinstance(node.targets[0], ast.Name) and \
                node.targets[0].id in ('THRESHOLD_SMALL', 'THRESHOLD_MEDIUM'):
            consts[node.targets[0].id] = ast.literal_eval(node.value)
        if isinstance(node, ast.FunctionDef) and node.name == '_lincomb_impl':
            fn = node
    if fn is None or set(consts) != {'THRESHOLD_SMALL', 'THRESHOLD_MEDIUM'}:
        raise ExtractionError('_lincomb_impl or thresholds not found')
    for k, v in consts.items():
        if not isinstance(v, int) or v < 0:
            raise ExtractionError('threshold {} = {!r}'.format(k, v))
    if [_u(a) for a in fn.args.args] != ['a', 'x1', 'b', 'x2', 'out']:
        raise ExtractionError('signature changed')
    body = _strip_doc(fn.body)
    body = [s for s in body if not isinstance(s, (ast.Import, ast.ImportFrom))]
    if len(body) == 4 and _u(body[1]) == 'if a == 0 and b == 0:\n    out.data[:] = 0\n    return':
        zero_guard = 'true'
        body = [body[0]] + body[2:]
    else:
        zero_guard = 'false'
    if len(body) != 3:
        raise ExtractionError('expected size assignment, [zero guard,] regime if, dispatch if; '
                              'got {} statements'.format(len(body)))
    if _u(body[0]) != 'size = native(x1.size)':
        raise ExtractionError('size computation changed: ' + _u(body[0]))
    reg = body[1]
    if not isinstance(reg, ast.If) or _u(reg.test) != 'size < THRESHOLD_SMALL':
        raise ExtractionError('regime test 1 changed')
    small_body = [_u(s) for s in reg.body]
    if small_body != ['out.data[:] = a * x1.data + b * x2.data', 'return']:
        raise ExtractionError('small-size branch changed: ' + repr(small_body))
    if len(reg.orelse) != 1 or not isinstance(reg.orelse[0], ast.If):
        raise ExtractionError('regime structure changed')
    reg2 = reg.orelse[0]
    if _u(reg2.test) != ('size < THRESHOLD_MEDIUM or not _blas_is_applicable(x1.data, x2.data, '
                         'out.data)'):
        raise ExtractionError('regime test 2 changed: ' + _u(reg2.test))
    # fallback regime
    defs = {s.name: s for s in reg2.body if isinstance(s, ast.FunctionDef)}
    rest = [_u(s) for s in reg2.body if not isinstance(s, ast.FunctionDef)]
    if rest != ['axpy, scal, copy = (fallback_axpy, fallback_scal, fallback_copy)',
                'x1_arr = x1.data', 'x2_arr = x2.data', 'out_arr = out.data']:
        raise ExtractionError('fallback regime bindings changed: ' + repr(rest))
    if set(defs) != {'fallback_axpy', 'fallback_scal', 'fallback_copy'}:
        raise ExtractionError('fallback functions changed')
    ax = defs['fallback_axpy']
    if [_u(a) for a in ax.args.args] != ['x1', 'x2', 'n', 'a']:
        raise ExtractionError('fallback_axpy signature changed')
    axb = [_u(s) for s in _strip_doc(ax.body)]
    if axb == ['if a != 0:\n    x2 += a * x1', 'return x2']:
        guard = 'true'
    elif axb == ['x2 += a * x1', 'return x2']:
        guard = 'false'
    else:
        raise ExtractionError('fallback_axpy body is not `x2 += a * x1` (optionally guarded by '
                              '`a != 0`): ' + repr(axb))
    if [_u(s) for s in _strip_doc(defs['fallback_scal'].body)] != ['x *= a', 'return x'] or \
            [_u(a) for a in defs['fallback_scal'].args.args] != ['a', 'x', 'n']:
        raise ExtractionError('fallback_scal changed')
    if [_u(s) for s in _strip_doc(defs['fallback_copy'].body)] != ['x2[...] = x1[...]', 'return x2'] \
            or [_u(a) for a in defs['fallback_copy'].args.args] != ['x1', 'x2', 'n']:
        raise ExtractionError('fallback_copy changed')
    # BLAS regime
    blas = [_u(s) for s in reg2.orelse]
    want = ["if out.data.flags.f_contiguous:\n    ravel_order = 'F'\nelse:\n    ravel_order = 'C'",
            'x1_arr = x1.data.ravel(order=ravel_order)',
            'x2_arr = x2.data.ravel(order=ravel_order)',
            'out_arr = out.data.ravel(order=ravel_order)',
            "axpy, scal, copy = scipy.linalg.blas.get_blas_funcs(['axpy', 'scal', 'copy'], "
            "arrays=(x1_arr, x2_arr, out_arr))"]
    if blas != want:
        raise ExtractionError('BLAS regime changed: ' + repr(blas))
    prog = _stmt(body[2])
    btree = _blas_tree(tree)
    lean = '''/- GENERATED by tools/extract/lincomb.py from odl/space/npy_tensors.py — do not edit. -/
import OdlModel.Model.Lincomb
namespace OdlModel.Gen.Lincomb
open OdlModel.Lincomb

def thrSmall : Nat := {small}
def thrMedium : Nat := {medium}
/-- `fallback_axpy` is `x2 += a * x1`, guarded by `a != 0` iff true. -/
def fbGuard : Bool := {guard}
/-- `if a == 0 and b == 0: out.data[:] = 0; return` precedes the regime selection iff true. -/
def zeroGuard : Bool := {szg}
/-- `_blas_is_applicable(x1.data, x2.data, out.data)` as an if/elif chain. -/
def blasTree : BTree :=
  {btree}
/-- The alias/scalar dispatch of `_lincomb_impl`, in program order. -/
def prog : Stmt :=
  {prog}

def params : Params :=
  {{ thrSmall := thrSmall, thrMedium := thrMedium, fbGuard := fbGuard, zeroGuard := zeroGuard,
     blasTree := blasTree, prog := prog }}

end OdlModel.Gen.Lincomb
'''.format(small=consts['THRESHOLD_SMALL'], medium=consts['THRESHOLD_MEDIUM'], guard=guard,
           szg=zero_guard, prog=prog, btree=btree)
    return lean


def regenerate(repo=core.REPO):
    lean = extract(repo)
    changed = core.write_if_changed(
        os.path.join(core.LEAN, 'OdlModel', 'Gen', 'LincombTree.lean'), lean)
    return changed


if __name__ == '__main__':
    print(extract())
