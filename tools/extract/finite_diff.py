"""Translator: odl/discr/diff_ops.py  ->  OdlModel/Gen/FiniteDiff.lean   (C13)

Extracted from the live source on every run:
  * _SUPPORTED_DIFF_METHODS, _SUPPORTED_PAD_MODES, _ADJ_METHOD, _ADJ_PADDING (literals);
  * the size guards of finite_diff (`f_arr.shape[axis] < k [and pad_mode == 'p']: raise`);
  * the interior stencil of each method (np.subtract/np.add on shifted slices, optional
    in-place scaling) as a band (coefficient of f[i-1], f[i], f[i+1]);
  * for each (pad_mode, method) leaf of the boundary tree the statements in program order:
    `out[0] = e`, `out[-1] = e`, then `out[k] += e` / `out[k] -= e`, with `e` a linear
    expression in f_arr[k] (k in 0,1,2,-3,-2,-1) and pad_const with rational coefficients;
  * what each operator class's `.adjoint` / `.derivative` build (adjSpec / derivSpec): the
    `return [-]Cls(…)` expressions, arguments bound against the constructor signature.
  * the one `for axis in range(ndim)` loop of Gradient/Divergence/Laplacian._call (accProg);
  * the epilogue scaling `out /= dx` of finite_diff (dxScale).
The grammar is deliberately tiny.  Anything outside it raises ExtractionError, which the
check treats as a broken obligation (then searches the real code), never as a pass.
"""
import ast
import os
from fractions import Fraction
from math import lcm

from vf import core


class ExtractionError(Exception):
    pass


METHODS = {'central': 'central', 'forward': 'forward', 'backward': 'backward'}
PADS = {'constant': 'constant', 'symmetric': 'symmetric', 'symmetric_adjoint': 'symmetricAdj',
        'periodic': 'periodic', 'order0': 'order0', 'order0_adjoint': 'order0Adj',
        'order1': 'order1', 'order1_adjoint': 'order1Adj', 'order2': 'order2',
        'order2_adjoint': 'order2Adj'}
CORNER = {0: 'L0', 1: 'L1', 2: 'L2', -3: 'R2', -2: 'R1', -1: 'R0'}
SLICE_OFFSET = {'2:': 1, '1:-1': 0, ':-2': -1}


def _u(node):
    return ast.unparse(node)


def _strip_doc(body):
    if body and isinstance(body[0], ast.Expr) and isinstance(body[0].value, ast.Constant) \
            and isinstance(body[0].value.value, str):
        return body[1:]
    return body


def _num(node):
    """numeric literal (possibly signed) -> Fraction, else None"""
    if isinstance(node, ast.Constant) and isinstance(node.value, (int, float)) \
            and not isinstance(node.value, bool):
        return Fraction(node.value)
    if isinstance(node, ast.UnaryOp) and isinstance(node.op, ast.USub):
        v = _num(node.operand)
        return None if v is None else -v
    if isinstance(node, ast.UnaryOp) and isinstance(node.op, ast.UAdd):
        return _num(node.operand)
    return None


def _index(node):
    """integer subscript -> python int"""
    v = _num(node)
    if v is None or v.denominator != 1:
        raise ExtractionError('subscript is not an integer literal: ' + _u(node))
    return int(v)


def _lin(node):
    """linear expression over f_arr[k], pad_const -> {key: Fraction}; key = int k or 'c'"""
    v = _num(node)
    if v is not None:
        if v != 0:
            raise ExtractionError('non-zero constant term in a boundary row: ' + _u(node))
        return {}
    if isinstance(node, ast.Subscript) and _u(node.value) == 'f_arr':
        k = _index(node.slice)
        if k not in CORNER:
            raise ExtractionError('f_arr index outside 0,1,2,-3,-2,-1: ' + _u(node))
        return {k: Fraction(1)}
    if isinstance(node, ast.Name) and node.id == 'pad_const':
        return {'c': Fraction(1)}
    if isinstance(node, ast.UnaryOp) and isinstance(node.op, ast.USub):
        return {k: -q for k, q in _lin(node.operand).items()}
    if isinstance(node, ast.UnaryOp) and isinstance(node.op, ast.UAdd):
        return _lin(node.operand)
    if isinstance(node, ast.BinOp):
        if isinstance(node.op, (ast.Add, ast.Sub)):
            a, b = _lin(node.left), _lin(node.right)
            s = 1 if isinstance(node.op, ast.Add) else -1
            out = dict(a)
            for k, q in b.items():
                out[k] = out.get(k, Fraction(0)) + s * q
            return out
        if isinstance(node.op, ast.Mult):
            l, r = _num(node.left), _num(node.right)
            if l is not None:
                return {k: l * q for k, q in _lin(node.right).items()}
            if r is not None:
                return {k: r * q for k, q in _lin(node.left).items()}
            raise ExtractionError('product of two non-constants: ' + _u(node))
        if isinstance(node.op, ast.Div):
            r = _num(node.right)
            if r is None or r == 0:
                raise ExtractionError('division by a non-constant: ' + _u(node))
            return {k: q / r for k, q in _lin(node.left).items()}
    raise ExtractionError('expression outside the linear grammar: ' + _u(node))


def _test_literals(t):
    """string-selection test -> (variable text, [literals]) or None.  Accepted forms:
    `v == 'a'`, `v in ('a', 'b')` (tuple/list/set literal), and `or` of such tests on one v."""
    if isinstance(t, ast.Compare) and len(t.ops) == 1 and len(t.comparators) == 1:
        c = t.comparators[0]
        if isinstance(t.ops[0], ast.Eq) and isinstance(c, ast.Constant) and \
                isinstance(c.value, str):
            return _u(t.left), [c.value]
        if isinstance(t.ops[0], ast.In) and isinstance(c, (ast.Tuple, ast.List, ast.Set)) and \
                c.elts and all(isinstance(e, ast.Constant) and isinstance(e.value, str)
                               for e in c.elts):
            return _u(t.left), [e.value for e in c.elts]
        return None
    if isinstance(t, ast.BoolOp) and isinstance(t.op, ast.Or):
        parts = [_test_literals(v) for v in t.values]
        if any(p is None for p in parts) or len(set(p[0] for p in parts)) != 1:
            return None
        return parts[0][0], [l for p in parts for l in p[1]]
    return None


def _chain_var(st):
    """variable an if-statement selects on (by one of the accepted test forms), else None"""
    if not isinstance(st, ast.If):
        return None
    r = _test_literals(st.test)
    return r[0] if r else None


def _eq_chain(node, var):
    """if var == 'a': A elif var in ('b', 'c'): B ... [else: E]  ->  ([(name, body)], else_body),
    one entry per literal (a disjunctive arm is expanded).  A literal that occurs twice would
    make a later arm partly unreachable: refused."""
    arms, seen = [], set()
    while True:
        if not isinstance(node, ast.If):
            raise ExtractionError('expected an if/elif chain on ' + var)
        r = _test_literals(node.test)
        if r is None or r[0] != var:
            raise ExtractionError('unexpected test {!r} in the chain on {}'.format(
                _u(node.test), var))
        for lit in r[1]:
            if lit in seen:
                raise ExtractionError('literal {!r} occurs twice in the chain on {}'.format(
                    lit, var))
            seen.add(lit)
            arms.append((lit, node.body))
        if len(node.orelse) == 1 and isinstance(node.orelse[0], ast.If):
            node = node.orelse[0]
            continue
        return arms, node.orelse


def _out_target(node):
    if isinstance(node, ast.Subscript) and _u(node.value) == 'out':
        k = _index(node.slice)
        if k not in CORNER:
            raise ExtractionError('out index outside 0,1,2,-3,-2,-1: ' + _u(node))
        return k
    raise ExtractionError('assignment target is not out[k]: ' + _u(node))


def _leaf(stmts):
    """boundary statements of one leaf -> (row0, rowN, accs)"""
    if len(stmts) < 2:
        raise ExtractionError('boundary leaf with fewer than two statements')
    rows = []
    for want, st in zip((0, -1), stmts[:2]):
        if not (isinstance(st, ast.Assign) and len(st.targets) == 1):
            raise ExtractionError('expected `out[{}] = …`, got: {}'.format(want, _u(st)))
        if _out_target(st.targets[0]) != want:
            raise ExtractionError('expected `out[{}] = …`, got: {}'.format(want, _u(st)))
        rows.append(_lin(st.value))
    accs = []
    for st in stmts[2:]:
        if not (isinstance(st, ast.AugAssign) and isinstance(st.op, (ast.Add, ast.Sub))):
            raise ExtractionError('expected `out[k] += …` / `-= …`, got: ' + _u(st))
        k = _out_target(st.target)
        e = _lin(st.value)
        if isinstance(st.op, ast.Sub):
            e = {kk: -q for kk, q in e.items()}
        accs.append((k, e))
    return rows[0], rows[1], accs


def _interior_arm(stmts):
    """interior statements of one method -> band {offset: Fraction}"""
    if not stmts:
        raise ExtractionError('empty interior branch')
    st = stmts[0]
    if not (isinstance(st, ast.Expr) and isinstance(st.value, ast.Call)):
        raise ExtractionError('interior: expected np.subtract(…, out=out[1:-1]): ' + _u(st))
    call = st.value
    fn = _u(call.func)
    if fn not in ('np.subtract', 'np.add') or len(call.args) != 2 or len(call.keywords) != 1 \
            or call.keywords[0].arg != 'out' or _u(call.keywords[0].value) != 'out[1:-1]':
        raise ExtractionError('interior: unexpected call ' + _u(st))
    offs = []
    for a in call.args:
        if not (isinstance(a, ast.Subscript) and _u(a.value) == 'f_arr'
                and _u(a.slice) in SLICE_OFFSET):
            raise ExtractionError('interior: unexpected operand ' + _u(a))
        offs.append(SLICE_OFFSET[_u(a.slice)])
    band = {-1: Fraction(0), 0: Fraction(0), 1: Fraction(0)}
    band[offs[0]] += 1
    band[offs[1]] += 1 if fn == 'np.add' else -1
    for st in stmts[1:]:
        if isinstance(st, ast.AugAssign) and _u(st.target) == 'out[1:-1]' and \
                isinstance(st.op, (ast.Div, ast.Mult)) and _num(st.value) not in (None, 0):
            v = _num(st.value)
            s = 1 / v if isinstance(st.op, ast.Div) else v
            band = {k: q * s for k, q in band.items()}
        else:
            raise ExtractionError('interior: unexpected statement ' + _u(st))
    return band


SLICE_CALL_OFFSET = {'slice(2, None)': 1, 'slice(1, -1)': 0, 'slice(None, -2)': -1}
MUTATORS = ('update', 'pop', 'popitem', 'setdefault', 'clear', '__setitem__', '__delitem__',
            'append', 'extend', 'insert', 'remove')


def _name_is_mutated(tree, name):
    """True unless `name` is bound exactly once, by a module-level `name = …`, and nothing in the
    module may change that object or binding afterwards: no other store/del of the name
    anywhere (incl. function arguments, import aliases, `global`), no item/attribute store or
    del on it, no augmented assignment, no call of a mutating method on it."""
    top_assign = sum(1 for node in tree.body if isinstance(node, ast.Assign) and
                     len(node.targets) == 1 and isinstance(node.targets[0], ast.Name) and
                     node.targets[0].id == name)
    stores = 0
    for node in ast.walk(tree):
        if isinstance(node, ast.Name) and node.id == name and \
                isinstance(node.ctx, (ast.Store, ast.Del)):
            stores += 1
        if isinstance(node, ast.Global) and name in node.names:
            return True
        if isinstance(node, ast.Nonlocal) and name in node.names:
            return True
        if isinstance(node, ast.arg) and node.arg == name:
            return True
        if isinstance(node, ast.alias) and (node.asname or node.name) == name:
            return True
        if isinstance(node, (ast.Subscript, ast.Attribute)) and \
                isinstance(node.ctx, (ast.Store, ast.Del)) and name in _u(node.value):
            return True
        if isinstance(node, ast.AugAssign) and name in _u(node.target):
            return True
        if isinstance(node, ast.Call) and isinstance(node.func, ast.Attribute) and \
                name in _u(node.func.value) and node.func.attr in MUTATORS:
            return True
    return not (top_assign == 1 and stores == 1)


def _interior(stmts, tree):
    """the statements between the axis swap and the boundary chain -> {method: band}.
    Form A: if/elif chain on `method`, each arm np.subtract/np.add on shifted slices [+ scaling].
    Form B: `a, b, d = TABLE[method]` with TABLE a module-level dict literal
            {method: (slice(..), slice(..), number | None)} that nothing mutates, then
            `np.subtract(f_arr[a], f_arr[b], out=out[1:-1])`, then
            `if d is not None: out[1:-1] /= d`.
    Anything else: ExtractionError (only the interior-stencil obligation breaks)."""
    if len(stmts) == 1 and _chain_var(stmts[0]) == 'method':
        arms, els = _eq_chain(stmts[0], 'method')
        if els:
            raise ExtractionError('interior chain has an else branch')
        if set(a for a, _ in arms) != set(METHODS) or len(arms) != 3:
            raise ExtractionError('interior chain does not cover exactly the three methods')
        return {m: _interior_arm(b) for m, b in arms}
    if len(stmts) == 3:
        s0, s1, s2 = stmts
        if isinstance(s0, ast.Assign) and len(s0.targets) == 1 and \
                isinstance(s0.targets[0], ast.Tuple) and len(s0.targets[0].elts) == 3 and \
                all(isinstance(e, ast.Name) for e in s0.targets[0].elts) and \
                isinstance(s0.value, ast.Subscript) and isinstance(s0.value.value, ast.Name) and \
                _u(s0.value.slice) == 'method':
            na, nb, nd_ = [e.id for e in s0.targets[0].elts]
            tname = s0.value.value.id
            if len({na, nb, nd_}) != 3 or {na, nb, nd_} & {'f_arr', 'out', 'method', 'pad_mode',
                                                           'pad_const', 'dx', 'axis'}:
                raise ExtractionError('interior table: unpacking shadows a name')
            if _name_is_mutated(tree, tname):
                raise ExtractionError('interior table {} is not a single module-level binding '
                                      'that nothing mutates'.format(tname))
            tdef = [n for n in tree.body if isinstance(n, ast.Assign) and
                    any(isinstance(t, ast.Name) and t.id == tname for t in n.targets)][0]
            if not isinstance(tdef.value, ast.Dict) or len(tdef.targets) != 1:
                raise ExtractionError('interior table {} is not a dict literal'.format(tname))
            rows = {}
            for k, v in zip(tdef.value.keys, tdef.value.values):
                if not (isinstance(k, ast.Constant) and isinstance(k.value, str)) or \
                        k.value in rows or not isinstance(v, ast.Tuple) or len(v.elts) != 3:
                    raise ExtractionError('interior table: unexpected entry ' + _u(v))
                ua, ub = _u(v.elts[0]), _u(v.elts[1])
                if ua not in SLICE_CALL_OFFSET or ub not in SLICE_CALL_OFFSET:
                    raise ExtractionError('interior table: unexpected slices in ' + _u(v))
                if isinstance(v.elts[2], ast.Constant) and v.elts[2].value is None:
                    div = None
                else:
                    div = _num(v.elts[2])
                    if div is None or div == 0:
                        raise ExtractionError('interior table: unexpected divisor in ' + _u(v))
                rows[k.value] = (SLICE_CALL_OFFSET[ua], SLICE_CALL_OFFSET[ub], div)
            if set(rows) != set(METHODS):
                raise ExtractionError('interior table keys are not the three methods')
            fn = _u(s1.value.func) if isinstance(s1, ast.Expr) and \
                isinstance(s1.value, ast.Call) else None
            if fn not in ('np.subtract', 'np.add') or \
                    _u(s1) != '{}(f_arr[{}], f_arr[{}], out=out[1:-1])'.format(fn, na, nb):
                raise ExtractionError('interior table: unexpected statement ' + _u(s1))
            if _u(s2) != 'if {} is not None:\n    out[1:-1] /= {}'.format(nd_, nd_):
                raise ExtractionError('interior table: unexpected statement ' + _u(s2))
            bands = {}
            for m, (oa, ob, div) in rows.items():
                band = {-1: Fraction(0), 0: Fraction(0), 1: Fraction(0)}
                band[oa] += 1
                band[ob] += 1 if fn == 'np.add' else -1
                if div is not None:
                    band = {k: q / div for k, q in band.items()}
                bands[m] = band
            return bands
    raise ExtractionError('interior stencil code has a shape outside the grammar: ' +
                          ' ; '.join(_u(x) for x in stmts)[:200])


def _guards(body):
    """size guards -> [(k, pad or None)]"""
    out = []
    for st in body:
        if not isinstance(st, ast.If):
            continue
        src = _u(st.test)
        if 'f_arr.shape[axis] <' not in src:
            continue
        if st.orelse or len(st.body) != 1 or not isinstance(st.body[0], ast.Raise) or \
                not _u(st.body[0]).startswith('raise ValueError('):
            raise ExtractionError('size guard does not raise ValueError: ' + src)
        t = st.test
        pad = None
        if isinstance(t, ast.BoolOp) and isinstance(t.op, ast.And) and len(t.values) == 2:
            t, t2 = t.values
            if not (isinstance(t2, ast.Compare) and _u(t2.left) == 'pad_mode' and
                    len(t2.ops) == 1 and isinstance(t2.ops[0], ast.Eq) and
                    isinstance(t2.comparators[0], ast.Constant)):
                raise ExtractionError('size guard: unexpected second conjunct ' + src)
            pad = t2.comparators[0].value
            if pad not in PADS:
                raise ExtractionError('size guard names unknown pad mode ' + repr(pad))
        if not (isinstance(t, ast.Compare) and _u(t.left) == 'f_arr.shape[axis]' and
                len(t.ops) == 1 and isinstance(t.ops[0], ast.Lt)):
            raise ExtractionError('size guard: unexpected test ' + src)
        out.append((_index(t.comparators[0]), pad))
    return out


class _StripRaise(ast.NodeTransformer):
    """`raise X('message'.format(...))` -> `raise X()`: the wording of messages is not pinned."""

    def visit_Raise(self, node):
        exc = node.exc
        if isinstance(exc, ast.Call):
            exc = ast.Call(func=exc.func, args=[], keywords=[])
        return ast.copy_location(ast.Raise(exc=exc, cause=None), node)


def _norm(st):
    import copy
    return _u(ast.fix_missing_locations(_StripRaise().visit(copy.deepcopy(st))))


LINEAR_RULE = "linear = not (pad_mode == 'constant' and pad_const != 0)"
ADJ_GUARD = 'if not self.is_linear:\n    raise ValueError()'
PINS_FILE = os.path.join(os.path.dirname(os.path.abspath(__file__)), 'finite_diff_pins.json')
CLASSES = {'PartialDerivative': 'pd', 'Gradient': 'grad', 'Divergence': 'div', 'Laplacian': 'lap'}


ADJ_MARK = '<return expression: regenerated (adjSpec)>'
DER_MARK = '<affine test + return expressions: regenerated (derivSpec)>'
DER_TEST = "self.pad_mode == 'constant' and self.pad_const != 0"


def _bind_ctor(call, classes, where):
    """`Cls(a, b, k=v)` -> (kind of Cls, {parameter name: unparsed argument}, {name: default}),
    positional arguments bound with the parameter list of Cls.__init__ in the same module."""
    if not isinstance(call, ast.Call) or not isinstance(call.func, ast.Name) or \
            call.func.id not in CLASSES or call.func.id not in classes:
        raise ExtractionError(where + ': does not construct one of the four classes: ' + _u(call))
    init = [n for n in classes[call.func.id].body
            if isinstance(n, ast.FunctionDef) and n.name == '__init__']
    if len(init) != 1 or init[0].args.vararg or init[0].args.kwarg or init[0].args.kwonlyargs:
        raise ExtractionError(where + ': unreadable constructor signature')
    params = [a.arg for a in init[0].args.args][1:]
    dflt = init[0].args.defaults
    defaults = {n: _u(d) for n, d in zip(params[len(params) - len(dflt):], dflt)}
    if len(call.args) > len(params) or any(isinstance(a, ast.Starred) for a in call.args):
        raise ExtractionError(where + ': too many / starred arguments')
    got = {n: _u(a) for n, a in zip(params, call.args)}
    for kw in call.keywords:
        if kw.arg is None or kw.arg not in params or kw.arg in got:
            raise ExtractionError(where + ': bad keyword argument ' + repr(kw.arg))
        got[kw.arg] = _u(kw.value)
    return CLASSES[call.func.id], got, defaults


def _pick(got, name, table, where):
    v = got.get(name)
    if v not in table:
        raise ExtractionError('{}: argument {}={!r} outside the grammar {}'.format(
            where, name, v, sorted(k for k in table if k is not None)))
    return table[v]


def _adjoint_spec(cls, body, classes):
    """`.adjoint` after the optional linearity guard must be ONE statement
    `return [-]Cls(…)` with domain/range swapped; read what it passes on:
    -> dict(kind, adjM, adjP, keepC, neg)."""
    where = cls.name + '.adjoint'
    if len(body) != 1 or not isinstance(body[0], ast.Return) or body[0].value is None:
        raise ExtractionError(where + ': body is not a single return statement')
    e, neg = body[0].value, False
    if isinstance(e, ast.UnaryOp) and isinstance(e.op, ast.USub):
        e, neg = e.operand, True
    kind, got, defaults = _bind_ctor(e, classes, where)
    if got.get('domain') != 'self.range' or got.get('range') != 'self.domain':
        raise ExtractionError(where + ': domain/range are not (self.range, self.domain)')
    if kind == 'pd' and got.get('axis') != 'self.axis':
        raise ExtractionError(where + ': axis is not self.axis')
    if kind == 'lap':
        if 'method' in got:
            raise ExtractionError(where + ': Laplacian takes no method')
        adj_m = False
    else:
        adj_m = _pick(got, 'method', {'_ADJ_METHOD[self.method]': True, 'self.method': False},
                      where)
    adj_p = _pick(got, 'pad_mode', {'_ADJ_PADDING[self.pad_mode]': True, 'self.pad_mode': False},
                  where)
    if 'pad_const' not in got and defaults.get('pad_const') != '0':
        raise ExtractionError(where + ': pad_const not passed and its default is not 0')
    keep_c = _pick(got, 'pad_const', {'self.pad_const': True, '0': False, None: False}, where)
    extra = set(got) - {'domain', 'range', 'axis', 'method', 'pad_mode', 'pad_const'}
    if extra:
        raise ExtractionError(where + ': unknown arguments ' + repr(sorted(extra)))
    return dict(kind=kind, adjM=adj_m, adjP=adj_p, keepC=keep_c, neg=neg)


def _derivative_spec(cls, body, classes):
    """`.derivative(point)` must be `if <DER_TEST>: return Cls(same domain, range, [axis,]
    method, pad_mode, pad_const=…) else: return self`; -> dict(kind, zeroC)."""
    where = cls.name + '.derivative'
    if len(body) != 1 or not isinstance(body[0], ast.If) or _u(body[0].test) != DER_TEST:
        raise ExtractionError(where + ': not a single `if {}`'.format(DER_TEST))
    st = body[0]
    if len(st.orelse) != 1 or _u(st.orelse[0]) != 'return self':
        raise ExtractionError(where + ': else branch is not `return self`')
    if len(st.body) != 1 or not isinstance(st.body[0], ast.Return):
        raise ExtractionError(where + ': affine branch is not a single return')
    kind, got, defaults = _bind_ctor(st.body[0].value, classes, where)
    if got.get('domain') != 'self.domain' or got.get('range') != 'self.range':
        raise ExtractionError(where + ': domain/range are not (self.domain, self.range)')
    if kind == 'pd' and got.get('axis') != 'self.axis':
        raise ExtractionError(where + ': axis is not self.axis')
    if kind != 'lap' and got.get('method') != 'self.method':
        raise ExtractionError(where + ': method is not self.method')
    if got.get('pad_mode') != 'self.pad_mode':
        raise ExtractionError(where + ': pad_mode is not self.pad_mode')
    if 'pad_const' not in got and defaults.get('pad_const') != '0':
        raise ExtractionError(where + ': pad_const not passed and its default is not 0')
    zero_c = _pick(got, 'pad_const', {'0': True, None: True, 'self.pad_const': False}, where)
    extra = set(got) - {'domain', 'range', 'axis', 'method', 'pad_mode', 'pad_const'}
    if extra:
        raise ExtractionError(where + ': unknown arguments ' + repr(sorted(extra)))
    return dict(kind=kind, zeroC=zero_c)


LOOP_MARK = '<loop over the axes: regenerated (accProg)>'
FD_KW = ['axis', 'dx', 'method', 'pad_mode', 'pad_const', 'out']


def _fd_call(st, where):
    """`finite_diff(src, axis=axis, dx=…, method=…, pad_mode=self.pad_mode,
    pad_const=self.pad_const, out=…)` -> dict(comp, dxSq, meth, out)"""
    if not isinstance(st, ast.Expr) or not isinstance(st.value, ast.Call) or \
            _u(st.value.func) != 'finite_diff' or len(st.value.args) != 1:
        raise ExtractionError(where + ': expected a finite_diff(...) call, got ' + _u(st)[:80])
    kw = {k.arg: _u(k.value) for k in st.value.keywords}
    if sorted(kw) != sorted(FD_KW) or kw['axis'] != 'axis' or \
            kw['pad_mode'] != 'self.pad_mode' or kw['pad_const'] != 'self.pad_const':
        raise ExtractionError(where + ': finite_diff keywords outside the grammar: ' + repr(kw))
    src = {'x[axis]': True, 'x_arr': False}.get(_u(st.value.args[0]))
    dxsq = {'dx[axis]': False, 'dx[axis] ** 2': True, 'dx[axis] * dx[axis]': True}.get(kw['dx'])
    meth = {'self.method': None, "'forward'": 'forward', "'backward'": 'backward',
            "'central'": 'central'}.get(kw['method'], 0)
    if src is None or dxsq is None or meth == 0 or kw['out'] not in ('tmp', 'out_arr'):
        raise ExtractionError(where + ': finite_diff arguments outside the grammar: ' +
                              _u(st)[:160])
    return dict(comp=src, dxSq=dxsq, meth=meth, out=kw['out'])


def _loop_prog(cls, node):
    """The ONE `for axis in range(ndim)` loop of `_call` as data:
    -> (the For node, dict(perAxis, steps=[dict(meth, dxSq, neg, comp)])).
    Grammar of the loop body:  finite_diff(…, out=tmp) followed by `out_arr += tmp` /
    `out_arr -= tmp` / `if axis == 0: out_arr[:] = tmp else: out_arr += tmp` (any number of such
    pairs; result = accumulated array), or  `with writable_array(out[axis]) as out_arr:
    finite_diff(…, out=out_arr)` (result component `axis`)."""
    where = cls.name + '._call'
    loops = [st for st in ast.walk(node) if isinstance(st, ast.For)]
    if len(loops) != 1 or _u(loops[0].target) != 'axis' or _u(loops[0].iter) != 'range(ndim)' \
            or loops[0].orelse:
        raise ExtractionError(where + ': expected one `for axis in range(ndim)` loop')
    body = loops[0].body
    if len(body) == 1 and isinstance(body[0], ast.With):
        w = body[0]
        if len(w.items) != 1 or _u(w.items[0].context_expr) != 'writable_array(out[axis])' or \
                _u(w.items[0].optional_vars) != 'out_arr' or len(w.body) != 1:
            raise ExtractionError(where + ': with-statement in the loop outside the grammar')
        c = _fd_call(w.body[0], where)
        if c['out'] != 'out_arr':
            raise ExtractionError(where + ': component loop must write into out_arr')
        return loops[0], dict(perAxis=True, steps=[dict(meth=c['meth'], dxSq=c['dxSq'],
                                                        neg=False, comp=c['comp'])])
    if len(body) % 2 or not body:
        raise ExtractionError(where + ': loop body is not a list of (finite_diff, update) pairs')
    steps = []
    for call, upd in zip(body[0::2], body[1::2]):
        c = _fd_call(call, where)
        if c['out'] != 'tmp':
            raise ExtractionError(where + ': accumulating loop must write into tmp')
        u = _u(upd)
        first = 'if axis == 0:\n    out_arr[:] = tmp\nelse:\n    out_arr += tmp'
        if u == 'out_arr += tmp' or (u == first and not steps):
            neg = False
        elif u == 'out_arr -= tmp':
            neg = True
        else:
            raise ExtractionError(where + ': update outside the grammar: ' + u[:120])
        steps.append(dict(meth=c['meth'], dxSq=c['dxSq'], neg=neg, comp=c['comp'],
                          assign_first=(u == first)))
    # `out_arr[:] = tmp` on the first axis needs no zero initialisation; `+=` from the start does
    init_zero = any('set_zero()' in _u(st) or '.zero()' in _u(st) for st in node.body)
    if not steps[0].pop('assign_first') and not init_zero:
        raise ExtractionError(where + ': accumulation starts with += but out is not zeroed')
    for s_ in steps[1:]:
        s_.pop('assign_first')
    return loops[0], dict(perAxis=False, steps=steps)


EPI_MARK = '<epilogue scaling by a power of dx: regenerated (dxScale)>'


def _epilogue_scale(st):
    """the ONE statement between the boundary tree and `return out_in`:
    `out /= E` or `out *= E` with E = dx | dx ** k | dx * dx | 1 / dx | 1.0 / dx
    -> (divide?, k): out is divided (True) / multiplied (False) by dx ** k, k >= 0."""
    if not isinstance(st, ast.AugAssign) or _u(st.target) != 'out' or \
            not isinstance(st.op, (ast.Div, ast.Mult)):
        raise ExtractionError('epilogue of finite_diff is not `out /= …` / `out *= …`: ' + _u(st))
    e = _u(st.value)
    if e == 'dx':
        k = 1
    elif e == 'dx * dx':
        k = 2
    elif e in ('1 / dx', '1.0 / dx'):
        k = -1
    elif isinstance(st.value, ast.BinOp) and isinstance(st.value.op, ast.Pow) and \
            _u(st.value.left) == 'dx' and isinstance(st.value.right, ast.Constant) and \
            isinstance(st.value.right.value, int) and 0 <= st.value.right.value <= 4:
        k = st.value.right.value
    else:
        raise ExtractionError('epilogue of finite_diff scales by something outside the grammar: '
                              + e)
    if isinstance(st.op, ast.Mult):
        k = -k
    return (k >= 0, abs(k))


def _class_pins(cls, classes=None):
    """Normalised text of __init__, _call, adjoint, derivative of one operator class, with the
    two data-shaped parts taken OUT of the text and returned as flags:
      affine_aware : __init__ computes LINEAR_RULE and passes linear=linear (True) /
                     passes linear=True (False);
      adj_guarded  : adjoint starts with `if not self.is_linear: raise ValueError(...)`."""
    pins, flags = {}, {}
    for node in cls.body:
        if not isinstance(node, ast.FunctionDef) or \
                node.name not in ('__init__', '_call', 'adjoint', 'derivative'):
            continue
        stmts = _strip_doc(node.body)
        body = [_norm(s) for s in stmts]
        body = ['<refused pad modes: regenerated>' if b.startswith('if pad_mode in (') else b
                for b in body]
        if node.name == '__init__':
            has_rule = LINEAR_RULE in body
            body = [b for b in body if b != LINEAR_RULE]
            sup = [i for i, b in enumerate(body) if b.startswith('super(') and '.__init__(' in b]
            if len(sup) != 1:
                raise ExtractionError(cls.name + '.__init__: expected one super().__init__ call')
            call = body[sup[0]]
            if any(b.startswith('linear =') or b.startswith('linear=') for b in body):
                raise ExtractionError(cls.name + '.__init__: unknown computation of `linear`')
            if has_rule and call.endswith(', linear=linear)'):
                flags['affine_aware'] = True
            elif not has_rule and call.endswith(', linear=True)'):
                flags['affine_aware'] = False
            else:
                raise ExtractionError(cls.name + '.__init__: cannot read the linear flag: ' + call)
            body[sup[0]] = call[:call.rindex(', linear=')] + ', linear=<FLAG>)'
        if node.name == 'adjoint':
            flags['adj_guarded'] = bool(body) and body[0] == ADJ_GUARD
            if flags['adj_guarded']:
                body, stmts = body[1:], stmts[1:]
            if classes is not None:     # ROUND 4: read, not pinned
                flags['adj_spec'] = _adjoint_spec(cls, stmts, classes)
                body = [ADJ_MARK]
        if node.name == '_call' and classes is not None and cls.name != 'PartialDerivative':
            loop, flags['acc_prog'] = _loop_prog(cls, node)
            ltxt = _norm(loop)
            wtxt = [_norm(w) for w in ast.walk(node) if isinstance(w, ast.With) and
                    loop in w.body]
            hit = [i for i, b in enumerate(body) if b == ltxt or (wtxt and b == wtxt[0])]
            if len(hit) != 1:
                raise ExtractionError(cls.name + '._call: loop is not a top-level statement')
            if wtxt and body[hit[0]] == wtxt[0]:
                w = [w for w in ast.walk(node) if isinstance(w, ast.With) and loop in w.body][0]
                if len(w.body) != 1 or _u(w.items[0].context_expr) != 'writable_array(out)':
                    raise ExtractionError(cls.name + '._call: with-block around the loop')
            body[hit[0]] = LOOP_MARK
        if node.name == 'derivative' and classes is not None:
            flags['der_spec'] = _derivative_spec(cls, stmts, classes)
            body = [DER_MARK]
        pins[node.name] = body
    if set(pins) != {'__init__', '_call', 'adjoint', 'derivative'} or \
            len(flags) != (2 if classes is None else 4 + (cls.name != 'PartialDerivative')):
        raise ExtractionError('class {}: __init__/_call/adjoint/derivative not all found'
                              .format(cls.name))
    return pins, flags


SWAP = ['out, out_in = (np.swapaxes(out, 0, axis), out)', 'f_arr = np.swapaxes(f_arr, 0, axis)']


def _interior_region(body):
    """(i, j): body[i:j] are the statements between the axis swap and the boundary chain (the
    first if-chain on pad_mode after the swap whose arms hold the boundary rows); None if the
    swap or the chain is not found."""
    texts = [_u(st) for st in body]
    for i in range(len(body) - 1):
        if texts[i:i + 2] == SWAP:
            for j in range(i + 2, len(body)):
                if _chain_var(body[j]) == 'pad_mode':
                    return (i + 2, j)
            return None
    return None


def current_pins(tree):
    """Everything of diff_ops.py that the Lean model mirrors BY HAND (not regenerated): the
    prologue and epilogue of finite_diff and the four operator classes, as normalised text."""
    fn = [n for n in tree.body if isinstance(n, ast.FunctionDef) and n.name == 'finite_diff']
    classes = {n.name: n for n in tree.body if isinstance(n, ast.ClassDef)}
    if len(fn) != 1 or not set(CLASSES) <= set(classes):
        raise ExtractionError('finite_diff or one of the four classes not found')
    body = _strip_doc(fn[0].body)
    keep = []
    region = _interior_region(body)
    for i, st in enumerate(body):
        if region is not None and region[0] <= i < region[1]:
            if i == region[0]:
                keep.append('<interior: regenerated>')
        elif _chain_var(st) == 'pad_mode' and region is not None and i == region[1]:
            keep.append('<chain on pad_mode: regenerated>')
        elif region is not None and i == region[1] + 1 and isinstance(st, ast.AugAssign):
            keep.append(EPI_MARK)
        elif isinstance(st, ast.If) and 'f_arr.shape[axis] <' in _u(st.test):
            keep.append('<size guard: regenerated>')
        else:
            keep.append(_norm(st))
    pins = {'finite_diff': keep}
    flags = {}
    for name in CLASSES:
        pins[name], flags[name] = _class_pins(classes[name], classes)
    return pins, flags


def check_pins(tree):
    import json
    pins, flags = current_pins(tree)
    with open(PINS_FILE) as f:
        want = json.load(f)
    for key in want:
        if pins.get(key) != want[key]:
            a, b = want[key], pins.get(key)
            if isinstance(a, dict):
                sub = [k for k in a if a[k] != (b or {}).get(k)]
                detail = '{}.{}: {!r}'.format(key, sub[0], (b or {}).get(sub[0]))
            else:
                diff = [i for i in range(max(len(a), len(b))) if i >= len(a) or i >= len(b)
                        or a[i] != b[i]]
                detail = '{} statement {}: {!r}'.format(key, diff[0],
                                                        b[diff[0]] if diff[0] < len(b) else None)
            raise ExtractionError('hand-modelled code changed (pinned text differs): ' + detail[:300])
    return flags


def _laplacian_rejected(cls):
    """pad modes Laplacian.__init__ refuses, and the two finite_diff calls of Laplacian._call"""
    init = [n for n in cls.body if isinstance(n, ast.FunctionDef) and n.name == '__init__']
    call = [n for n in cls.body if isinstance(n, ast.FunctionDef) and n.name == '_call']
    if len(init) != 1 or len(call) != 1:
        raise ExtractionError('Laplacian.__init__/_call not found')
    rej = None
    for st in ast.walk(init[0]):
        if isinstance(st, ast.If) and isinstance(st.test, ast.Compare) and \
                _u(st.test.left) == 'pad_mode' and len(st.test.ops) == 1 and \
                isinstance(st.test.ops[0], ast.In):
            if rej is not None or not _u(st.body[0]).startswith('raise ValueError('):
                raise ExtractionError('Laplacian.__init__: unexpected pad_mode membership test')
            rej = list(ast.literal_eval(st.test.comparators[0]))
    if rej is None:
        rej = []
    for p in rej:
        if p not in PADS:
            raise ExtractionError('Laplacian rejects unknown pad mode ' + repr(p))
    # (the loop of Laplacian._call is read by _loop_prog since round 5)
    return rej


TABLE_NAMES = ('_SUPPORTED_DIFF_METHODS', '_SUPPORTED_PAD_MODES', '_ADJ_METHOD', '_ADJ_PADDING')


def _live_tables(repo):
    """The four module tables as the module under test has them after import (what the code
    uses at run time), read in a subprocess so that this process's `odl` is not involved."""
    import json
    import subprocess
    import sys
    code = ('import json, odl.discr.diff_ops as d\n'
            'print("TABLES=" + json.dumps({n: (dict(getattr(d, n)) if isinstance(getattr(d, n), dict)'
            ' else list(getattr(d, n))) for n in %r}))' % (TABLE_NAMES,))
    env = dict(os.environ, PYTHONPATH=repo, PYTHONDONTWRITEBYTECODE='1')
    p = subprocess.run([sys.executable, '-c', code], env=env, cwd='/', stdout=subprocess.PIPE,
                       stderr=subprocess.PIPE, text=True, timeout=300)
    lines = [l for l in p.stdout.split('\n') if l.startswith('TABLES=')]
    if p.returncode != 0 or len(lines) != 1:
        raise ExtractionError('cannot import odl.discr.diff_ops from {} to read the tables: {}'
                              .format(repo, p.stderr[-300:]))
    return json.loads(lines[0][len('TABLES='):])


def _module_tables(tree, repo):
    """name -> (value, 'ast' | 'live').  A table that is a single literal binding which nothing
    mutates is read from the AST.  Otherwise (built by code at import time) its value is taken
    from the LIVE module of the tree under test - but only if nothing BELOW module level can
    change it later (functions/classes may only read it); else refused."""
    out, live = {}, None
    for name in TABLE_NAMES:
        val = None
        if not _name_is_mutated(tree, name):
            node = [n for n in tree.body if isinstance(n, ast.Assign) and
                    isinstance(n.targets[0], ast.Name) and n.targets[0].id == name][0]
            try:
                val = ast.literal_eval(node.value)
            except (ValueError, SyntaxError):
                val = None
        if val is not None:
            out[name] = (val, 'ast')
            continue
        # built at import time: nothing inside a function/class may store to or mutate it
        for fn in ast.walk(tree):
            if isinstance(fn, (ast.FunctionDef, ast.AsyncFunctionDef, ast.ClassDef, ast.Lambda)):
                sub = ast.Module(body=[fn] if not isinstance(fn, ast.Lambda) else
                                 [ast.Expr(value=fn)], type_ignores=[])
                for node in ast.walk(sub):
                    bad = False
                    if isinstance(node, ast.Name) and node.id == name and \
                            isinstance(node.ctx, (ast.Store, ast.Del)):
                        bad = True
                    if isinstance(node, (ast.Global, ast.Nonlocal)) and name in node.names:
                        bad = True
                    if isinstance(node, (ast.Subscript, ast.Attribute)) and \
                            isinstance(node.ctx, (ast.Store, ast.Del)) and name in _u(node.value):
                        bad = True
                    if isinstance(node, ast.AugAssign) and name in _u(node.target):
                        bad = True
                    if isinstance(node, ast.Call) and isinstance(node.func, ast.Attribute) and \
                            name in _u(node.func.value) and node.func.attr in MUTATORS:
                        bad = True
                    if isinstance(node, ast.Call) and any(_u(a) == name for a in node.args):
                        bad = True   # passed on to other code that might mutate it
                    if bad:
                        raise ExtractionError('{} may be changed after import: {}'.format(
                            name, _u(node)[:80]))
        if live is None:
            live = _live_tables(repo)
        out[name] = (live[name], 'live')
    return out


def _gen_bands_committed():
    """bands (and den) of the last COMMITTED Gen/FiniteDiff.lean, for when the interior stencil
    code cannot be read: the other artefacts are still regenerated around them."""
    import re
    import subprocess
    rel = 'lean/OdlModel/Gen/FiniteDiff.lean'
    p = subprocess.run(['git', '-C', core.VERIF, 'show', 'HEAD:' + rel], stdout=subprocess.PIPE,
                       stderr=subprocess.PIPE, text=True)
    text = p.stdout if p.returncode == 0 else open(os.path.join(core.VERIF, rel)).read()
    den = int(re.search(r'def den : Nat := (\d+)', text).group(1))
    bands = {}
    for m, lm in METHODS.items():
        mm = re.search(r'\| \.%s, \.\w+ => ⟨(-?\d+), (-?\d+), (-?\d+),' % lm, text)
        bands[m] = {k: Fraction(int(v), den) for k, v in zip((-1, 0, 1), mm.groups())}
    return bands


def extract_data(repo=None):
    """-> dict of artefacts.  `partial` lists artefacts that could NOT be read from the source and
    were carried over from the last committed Gen file (only the interior stencil can be)."""
    repo = repo or core.REPO
    path = os.path.join(repo, 'odl', 'discr', 'diff_ops.py')
    with open(path) as f:
        tree = ast.parse(f.read())
    fn, classes = None, {}
    for node in tree.body:
        if isinstance(node, ast.FunctionDef) and node.name == 'finite_diff':
            fn = node
        if isinstance(node, ast.ClassDef):
            classes[node.name] = node
    if fn is None:
        raise ExtractionError('finite_diff not found')
    tabs = _module_tables(tree, repo)
    sources = {n: src for n, (_, src) in tabs.items()}
    methods = list(tabs['_SUPPORTED_DIFF_METHODS'][0])
    pads = list(tabs['_SUPPORTED_PAD_MODES'][0])
    for m in methods:
        if m not in METHODS:
            raise ExtractionError('unknown method ' + repr(m))
    for p in pads:
        if p not in PADS:
            raise ExtractionError('unknown pad mode ' + repr(p))
    adj_m, adj_p = tabs['_ADJ_METHOD'][0], tabs['_ADJ_PADDING'][0]
    if not isinstance(adj_m, dict) or not isinstance(adj_p, dict):
        raise ExtractionError('_ADJ_METHOD/_ADJ_PADDING are not dicts')
    if set(adj_m) != set(METHODS) or not set(adj_m.values()) <= set(METHODS):
        raise ExtractionError('_ADJ_METHOD keys/values are not the three methods: ' + repr(adj_m))
    if set(adj_p) != set(PADS) or not set(adj_p.values()) <= set(PADS):
        raise ExtractionError('_ADJ_PADDING keys/values are not the ten pad modes: ' + repr(adj_p))

    args = [a.arg for a in fn.args.args]
    if args != ['f', 'axis', 'dx', 'method', 'out', 'pad_mode', 'pad_const']:
        raise ExtractionError('finite_diff signature changed: ' + repr(args))
    body = _strip_doc(fn.body)
    guards = _guards(body)
    region = _interior_region(body)
    if region is None:
        raise ExtractionError('axis swap followed by the boundary chain on `pad_mode` not found')
    post = body[region[1] + 1:]
    if len(post) != 2 or _u(post[1]) != 'return out_in':
        raise ExtractionError('statements after the boundary tree changed: ' +
                              repr([_u(s) for s in post]))
    dx_scale = _epilogue_scale(post[0])
    # nothing before the swap may write into an array
    for st in body[:region[0] - 2]:
        for sub in ast.walk(st):
            if isinstance(sub, (ast.Assign, ast.AugAssign)):
                tg = sub.targets if isinstance(sub, ast.Assign) else [sub.target]
                for t in tg:
                    if isinstance(t, ast.Subscript) and _u(t.value) in ('out', 'f_arr', 'f'):
                        raise ExtractionError('prologue writes into an array: ' + _u(sub))

    partial = {}
    try:
        bands = _interior(body[region[0]:region[1]], tree)
    except ExtractionError as e:
        bands = _gen_bands_committed()
        partial['interior stencil'] = str(e)

    parms, pels = _eq_chain(body[region[1]], 'pad_mode')
    if len(pels) != 1 or not _u(pels[0]).startswith('raise NotImplementedError('):
        raise ExtractionError('boundary chain must end in `else: raise NotImplementedError`')
    if set(p for p, _ in parms) != set(PADS) or len(parms) != len(PADS):
        raise ExtractionError('boundary chain does not cover exactly the ten pad modes')
    leaves = {}
    for p, pbody in parms:
        if len(pbody) == 1 and _chain_var(pbody[0]) == 'method':
            marms, mels = _eq_chain(pbody[0], 'method')
            if mels or set(m for m, _ in marms) != set(METHODS) or len(marms) != 3:
                raise ExtractionError('pad mode {}: method chain does not cover exactly the '
                                      'three methods'.format(p))
            for m, mbody in marms:
                leaves[(m, p)] = _leaf(mbody)
        else:
            leaf = _leaf(pbody)
            for m in METHODS:
                leaves[(m, p)] = leaf
    flags = check_pins(tree)
    lap_rejected = _laplacian_rejected(classes['Laplacian'])
    dens = [q.denominator for b in bands.values() for q in b.values()]
    for r0, rn, accs in leaves.values():
        dens += [q.denominator for q in r0.values()] + [q.denominator for q in rn.values()]
        for _, e in accs:
            dens += [q.denominator for q in e.values()]
    den = lcm(2, *dens)
    return dict(methods=methods, pads=pads, adj_m=adj_m, adj_p=adj_p, guards=guards, bands=bands,
                leaves=leaves, den=den, lap_rejected=lap_rejected, flags=flags,
                dx_scale=dx_scale,
                partial=partial, sources=sources)


def _terms(e, den):
    items = []
    order = list(CORNER) + ['c']
    for k in sorted(e, key=order.index):
        q = e[k] * den
        assert q.denominator == 1
        if q == 0:
            continue
        src = 'none' if k == 'c' else '(some .{})'.format(CORNER[k])
        items.append('⟨{}, {}⟩'.format(int(q), src))
    return '[' + ', '.join(items) + ']'


def render(d):
    den = d['den']
    L = ['/- GENERATED by tools/extract/finite_diff.py from odl/discr/diff_ops.py — do not edit. -/',
         'import OdlModel.Model.FiniteDiff',
         'namespace OdlModel.Gen.FiniteDiff',
         'open OdlModel.FiniteDiff',
         '',
         '/-- common denominator of all stencil coefficients -/',
         'def den : Nat := {}'.format(den),
         '/-- epilogue of `finite_diff` (`out /= dx`): (divide?, k) = out is divided (true) /',
         'multiplied (false) by `dx ^ k` -/',
         'def dxScale : Bool × Nat := ({}, {})'.format('true' if d['dx_scale'][0] else 'false',
                                                     d['dx_scale'][1]),
         '/-- `_SUPPORTED_DIFF_METHODS` -/',
         'def methods : List Method := [{}]'.format(', '.join('.' + METHODS[m] for m in d['methods'])),
         '/-- `_SUPPORTED_PAD_MODES` -/',
         'def pads : List Pad := [{}]'.format(', '.join('.' + PADS[p] for p in d['pads'])),
         '/-- `_ADJ_METHOD` -/',
         'def adjMethod : Method → Method']
    for m in METHODS:
        L.append('  | .{} => .{}'.format(METHODS[m], METHODS[d['adj_m'][m]]))
    L += ['/-- `_ADJ_PADDING` -/', 'def adjPad : Pad → Pad']
    for p in PADS:
        L.append('  | .{} => .{}'.format(PADS[p], PADS[d['adj_p'][p]]))
    L += ['/-- size guards of `finite_diff`: `shape[axis] < k [and pad_mode == p]` raises ValueError -/',
          'def guards : List (Nat × Option Pad) := [{}]'.format(', '.join(
              '({}, {})'.format(k, 'none' if p is None else 'some .' + PADS[p])
              for k, p in d['guards'])),
          '/-- which `__init__` compute `linear = not (pad_mode == \'constant\' and pad_const != 0)` -/',
          'def affineAware : Kind → Bool'] + [
              '  | .{} => {}'.format(k, 'true' if d['flags'][c]['affine_aware'] else 'false')
              for c, k in CLASSES.items()] + [
          '/-- which `.adjoint` start with `if not self.is_linear: raise ValueError` -/',
          'def adjGuarded : Kind → Bool'] + [
              '  | .{} => {}'.format(k, 'true' if d['flags'][c]['adj_guarded'] else 'false')
              for c, k in CLASSES.items()] + [
          '/-- what each class\'s `.adjoint` builds, read from its `return [-]Cls(…)` expression:',
          'class, `_ADJ_METHOD[self.method]`?, `_ADJ_PADDING[self.pad_mode]`?, `self.pad_const` passed',
          'on?, leading minus? (domain/range swapped is part of the grammar) -/',
          'def adjSpec : Kind → AdjSpec'] + [
              '  | .{} => ⟨.{}, {}, {}, {}, {}⟩'.format(
                  k, d['flags'][c]['adj_spec']['kind'],
                  *(('true' if d['flags'][c]['adj_spec'][f] else 'false')
                    for f in ('adjM', 'adjP', 'keepC', 'neg')))
              for c, k in CLASSES.items()] + [
          '/-- what each class\'s `.derivative` builds in the branch `pad_mode == \'constant\' and',
          'pad_const != 0` (else `self`): class, `pad_const` reset to 0? (same domain, range, axis,',
          'method, pad_mode is part of the grammar) -/',
          'def derivSpec : Kind → DerivSpec'] + [
              '  | .{} => ⟨.{}, {}⟩'.format(
                  k, d['flags'][c]['der_spec']['kind'],
                  'true' if d['flags'][c]['der_spec']['zeroC'] else 'false')
              for c, k in CLASSES.items()] + [
          '/-- the `for axis in range(ndim)` loop of `Gradient/Divergence/Laplacian._call` as data:',
          'result per axis or accumulated; per step: method (none = self.method), dx squared?,',
          'subtracted?, input `x[axis]` (true) or the whole `x` (false) -/',
          'def accProg : Kind → AccProg',
          '  | .pd => ⟨true, []⟩'] + [
              '  | .{} => ⟨{}, [{}]⟩'.format(
                  k, 'true' if d['flags'][c]['acc_prog']['perAxis'] else 'false',
                  ', '.join('⟨{}, {}, {}, {}⟩'.format(
                      'none' if st['meth'] is None else 'some .' + METHODS[st['meth']],
                      *('true' if st[f] else 'false' for f in ('dxSq', 'neg', 'comp')))
                      for st in d['flags'][c]['acc_prog']['steps']))
              for c, k in CLASSES.items() if c != 'PartialDerivative'] + [
          '/-- pad modes `Laplacian.__init__` refuses -/',
          'def lapRejected : List Pad := [{}]'.format(', '.join(
              '.' + PADS[p] for p in d['lap_rejected'])),
          '/-- one leaf per (method, pad_mode): interior band and boundary statements, program order,',
          'coefficients in units of 1/den -/',
          'def tbl : Method → Pad → Table']
    for m in METHODS:
        for p in PADS:
            b = d['bands'][m]
            r0, rn, accs = d['leaves'][(m, p)]
            bi = [b[k] * den for k in (-1, 0, 1)]
            assert all(q.denominator == 1 for q in bi)
            accs_s = '[' + ', '.join('⟨.{}, {}⟩'.format(CORNER[k], _terms(e, den))
                                     for k, e in accs) + ']'
            L.append('  | .{}, .{} => ⟨{}, {}, {}, {}, {}, {}⟩'.format(
                METHODS[m], PADS[p], int(bi[0]), int(bi[1]), int(bi[2]),
                _terms(r0, den), _terms(rn, den), accs_s))
    L += ['', 'end OdlModel.Gen.FiniteDiff', '']
    return '\n'.join(L)


def extract(repo=None):
    return render(extract_data(repo))


def regenerate(repo=None):
    """-> (changed, partial, sources): `partial` = artefacts carried over from the committed Gen
    file because their source code could not be read (each is a broken obligation);
    `sources` = where each module table came from ('ast' literal or 'live' module)."""
    d = extract_data(repo)
    changed = core.write_if_changed(
        os.path.join(core.LEAN, 'OdlModel', 'Gen', 'FiniteDiff.lean'), render(d))
    return changed, d['partial'], d['sources']


if __name__ == '__main__':
    import sys
    if '--write-pins' in sys.argv:
        # deliberate, manual step after the hand-written model was brought in line with the code
        import json
        with open(os.path.join(core.REPO, 'odl', 'discr', 'diff_ops.py')) as f:
            pins, _ = current_pins(ast.parse(f.read()))
        with open(PINS_FILE, 'w') as f:
            json.dump(pins, f, indent=1)
        print('wrote', PINS_FILE)
    else:
        print(extract())
