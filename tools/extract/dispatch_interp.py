"""Abstract interpreter for the overload bodies of C04 (used by algebra_dispatch.py).

Instead of matching ONE source shape, a method body is EXECUTED once for every abstract operand
class the Lean model's `Guard.eval` distinguishes ("world"); the result is a decision table
world -> action, from which a canonical `Act` term is generated (fixed atom order, equal
branches merged).  Statement order, guard clauses vs. elif chains, named booleans, conditional
expressions picking the class to call and helper extraction therefore do not change the output,
while a different RESULT for any world changes the table (and is then caught by the theorems
over the generated tables and by the correspondence).

Fail closed: every statement / expression / test outside the small vocabulary below raises
ExtractionError.  Soundness rests on (a) the abstract semantics of the test atoms being the one
of `Guard.eval` in Model/OpDispatch.lean (trusted, as before) and (b) the vocabulary check.
"""
import ast
import itertools


class ExtractionError(Exception):
    pass


def _u(node):
    return ast.unparse(node)


# --- worlds: the abstract operand classes -------------------------------------------------
# kind: 'op' | 'scal' | 'vec'; op: bFn; scal: real, zero; vec: inRan, inDom;
# self: ranFld, domFld, lin.  Consistency: inRan -> not ranFld, inDom -> not domFld.

def worlds():
    out = []
    for ranFld, domFld, lin in itertools.product((False, True), repeat=3):
        base = {'ranFld': ranFld, 'domFld': domFld, 'lin': lin}
        for bFn in (False, True):
            out.append(dict(base, kind='op', bFn=bFn))
        for real, zero in itertools.product((False, True), repeat=2):
            out.append(dict(base, kind='scal', real=real, zero=zero))
        for inRan, inDom in itertools.product((False, True), repeat=2):
            if (inRan and ranFld) or (inDom and domFld):
                continue
            out.append(dict(base, kind='vec', inRan=inRan, inDom=inDom))
    return out


# atom name -> (python source texts, abstract semantics = Guard.eval of the Lean model)
ATOMS = {
    'otherIsOperator': (['isinstance(other, Operator)'], lambda w: w['kind'] == 'op'),
    'otherIsFunctional': (['isinstance(other, Functional)'],
                          lambda w: w['kind'] == 'op' and w['bFn']),
    'otherDomainFieldIsRange': (['other.domain.field == self.range'],
                                lambda w: w['kind'] == 'op' and w['ranFld']),
    'otherIsNumber': (['isinstance(other, Number)'], lambda w: w['kind'] == 'scal'),
    'otherInRange': (['other in self.range'],
                     lambda w: (w['kind'] == 'vec' and w['inRan']) or
                     (w['kind'] == 'scal' and w['ranFld'])),
    'otherInRangeField': (['other in self.range.field'], lambda w: w['kind'] == 'scal'),
    'otherInDomainField': (['other in self.domain.field'], lambda w: w['kind'] == 'scal'),
    'otherEqZero': (['other == 0'], lambda w: w['kind'] == 'scal' and w['zero']),
    'selfIsLinear': (['self.is_linear'], lambda w: w['lin']),
    'otherIsReal': (['isinstance(other, Real)'], lambda w: w['kind'] == 'scal' and w['real']),
    'otherInDomain': (['other in self.domain'],
                      lambda w: (w['kind'] == 'vec' and w['inDom']) or
                      (w['kind'] == 'scal' and w['domFld'])),
    'otherElemInDomain': ([], lambda w: w['kind'] == 'vec' and w['inDom']),
    'otherElemFieldIsRange': ([], lambda w: w['kind'] == 'vec' and w['ranFld']),
}
# tests that exist only as PARTS of compound atoms of the model (never emitted on their own)
PARTS = {
    'isinstance(other, LinearSpaceElement)': lambda w: w['kind'] == 'vec',
    # `.space` exists on elements only: evaluating it for another operand kind would raise
    'other.space.field == self.range': lambda w: _need_vec(w) and w['ranFld'],
    'other not in self.range': lambda w: not ATOMS['otherInRange'][1](w),
    'other not in self.domain': lambda w: not ATOMS['otherInDomain'][1](w),
    'other != 0': lambda w: not ATOMS['otherEqZero'][1](w),
}
TEXT2SEM = dict(PARTS)
for _name, (_texts, _sem) in ATOMS.items():
    for _t in _texts:
        TEXT2SEM[_t] = _sem
ORDER = ['otherIsOperator', 'otherIsFunctional', 'otherDomainFieldIsRange', 'otherIsNumber',
         'otherInRange', 'otherInRangeField', 'otherInDomainField', 'otherEqZero', 'selfIsLinear',
         'otherIsReal', 'otherInDomain', 'otherElemInDomain', 'otherElemFieldIsRange']


def _need_vec(w):
    if w['kind'] != 'vec':
        raise ExtractionError('`other.space` is evaluated for an operand that is not known to '
                              'be a space element')
    return True


CLASSES = None  # set by algebra_dispatch
ARGS = None


class _Subst(ast.NodeTransformer):
    def __init__(self, env):
        self.env = env

    def visit_Name(self, node):
        v = self.env.get(node.id)
        if isinstance(v, tuple) and v[0] == 'expr':
            return ast.parse(v[1], mode='eval').body
        return node


def _expr_text(node, env):
    import copy
    return _u(ast.fix_missing_locations(_Subst(env).visit(copy.deepcopy(node))))


def _is_test(node, env):
    if isinstance(node, (ast.Compare, ast.BoolOp)):
        return True
    if isinstance(node, ast.UnaryOp) and isinstance(node.op, ast.Not):
        return True
    if isinstance(node, ast.Name) and isinstance(env.get(node.id), bool):
        return True
    return _u(node) in TEXT2SEM


def _bool(node, env, w):
    if isinstance(node, ast.BoolOp):
        if isinstance(node.op, ast.And):
            for v in node.values:           # short circuit, as Python does
                if not _bool(v, env, w):
                    return False
            return True
        for v in node.values:
            if _bool(v, env, w):
                return True
        return False
    if isinstance(node, ast.UnaryOp) and isinstance(node.op, ast.Not):
        return not _bool(node.operand, env, w)
    if isinstance(node, ast.Name):
        v = env.get(node.id)
        if isinstance(v, bool):
            return v
        raise ExtractionError('`{}` is not a known boolean'.format(node.id))
    s = _u(node)
    if s in TEXT2SEM:
        return bool(TEXT2SEM[s](w))
    raise ExtractionError('unknown test `{}`'.format(s))


def _value(node, env, w):
    """value of a right-hand side: bool | ('cls', name) | ('expr', text)"""
    if isinstance(node, ast.IfExp):
        return _value(node.body if _bool(node.test, env, w) else node.orelse, env, w)
    if isinstance(node, ast.Name):
        if node.id in env:
            return env[node.id]
        if node.id in CLASSES:
            return ('cls', node.id)
    if _is_test(node, env):
        return _bool(node, env, w)
    text = _expr_text(node, env)
    _check_vocab(ast.parse(text, mode='eval').body)
    return ('expr', text)


ALLOWED_NAMES = {'self', 'other', 'NotImplemented', 'super', 'isinstance', 'Operator',
                 'Functional', 'Number', 'Real', 'LinearSpaceElement'}


def _check_vocab(node):
    for n in ast.walk(node):
        if isinstance(n, ast.Name) and n.id not in ALLOWED_NAMES and n.id not in CLASSES:
            raise ExtractionError('name `{}` outside the vocabulary'.format(n.id))
        if isinstance(n, (ast.Lambda, ast.ListComp, ast.GeneratorExp, ast.Await, ast.Yield,
                          ast.Starred, ast.Subscript)):
            raise ExtractionError('construct `{}` outside the vocabulary'.format(_u(n)))


def _result(node, env, w, cls, meth):
    s = _u(node)
    if s == 'NotImplemented':
        return 'Act.notImplemented'
    if s == 'other * self':
        return 'Act.otherTimesSelf'
    if s == 'super({}, self).{}(other)'.format(cls, meth):
        return 'Act.super'
    if isinstance(node, ast.IfExp):
        return _result(node.body if _bool(node.test, env, w) else node.orelse, env, w, cls, meth)
    if isinstance(node, ast.Call) and not node.keywords:
        f = _value(node.func, env, w)
        if isinstance(f, tuple) and f[0] == 'cls':
            args = tuple(_expr_text(a, env) for a in node.args)
            for a in node.args:
                _check_vocab(_Subst(env).visit(ast.parse(_u(a), mode='eval').body))
            if args not in ARGS:
                raise ExtractionError('unknown argument list {} for {}'.format(args, f[1]))
            return '(Act.mk Cls.{} Args.{})'.format(f[1], ARGS[args])
    raise ExtractionError('unknown return `{}` in {}.{}'.format(s, cls, meth))


def _exec(stmts, env, w, cls, meth):
    for st in stmts:
        if isinstance(st, (ast.Import, ast.ImportFrom, ast.Pass)):
            continue
        if isinstance(st, ast.Expr) and isinstance(st.value, ast.Constant) and \
                isinstance(st.value.value, str):
            continue
        if isinstance(st, ast.If):
            r = _exec(st.body if _bool(st.test, env, w) else st.orelse, env, w, cls, meth)
            if r is not None:
                return r
            continue
        if isinstance(st, ast.Assign) and len(st.targets) == 1 and \
                isinstance(st.targets[0], ast.Name):
            name = st.targets[0].id
            if name in ('self', 'other'):
                raise ExtractionError('{} is rebound in {}.{}'.format(name, cls, meth))
            env[name] = _value(st.value, env, w)
            continue
        if isinstance(st, ast.Return) and st.value is not None:
            return _result(st.value, env, w, cls, meth)
        raise ExtractionError('statement `{}` outside the vocabulary in {}.{}'.format(
            _u(st).split('\n')[0], cls, meth))
    return None


def table(fn, cls):
    """world -> action for a guarded overload"""
    if [a.arg for a in fn.args.args] != ['self', 'other'] or fn.args.vararg or fn.args.kwarg \
            or fn.args.kwonlyargs or fn.decorator_list:
        raise ExtractionError('signature of {}.{} changed'.format(cls, fn.name))
    out = []
    for w in worlds():
        r = _exec(fn.body, {}, w, cls, fn.name)
        if r is None:
            raise ExtractionError('{}.{} can fall off its end'.format(cls, fn.name))
        out.append((w, r))
    return out


def canonical(tab):
    """Canonical `Act` term of a decision table: split on the first atom (fixed order) that
    separates worlds with different outcomes, merge equal branches."""
    def build(rows, atoms):
        leaves = {r for _, r in rows}
        if len(leaves) == 1:
            return leaves.pop()
        for i, a in enumerate(atoms):
            sem = ATOMS[a][1]
            yes = [(w, r) for w, r in rows if sem(w)]
            no = [(w, r) for w, r in rows if not sem(w)]
            if not yes or not no:
                continue
            t, e = build(yes, atoms[i + 1:]), build(no, atoms[i + 1:])
            if t is None or e is None:
                continue
            return t if t == e else '(Act.ite Guard.{} {} {})'.format(a, t, e)
        return None
    r = build(tab, ORDER)
    if r is None:
        raise ExtractionError('the atoms do not separate the outcomes of the decision table')
    return r


# --- __pow__ : the two trivially recognisable loop forms -------------------------------------

def pow_is_comp_loop(fn):
    """Run the body for n = -1 … 5 with a symbolic `self`; only `x = self`, `x = OperatorComp(self,
    x)`, `while n > 1:` + `n -= 1`, `for _ in range(n - 1):`, `if <test on n>` and returns are
    interpreted.  True iff n >= 1 gives the right-nested composition and n <= 0 NotImplemented."""
    if [a.arg for a in fn.args.args] != ['self', 'n']:
        raise ExtractionError('signature of __pow__ changed')

    def test(node, n):
        s = _u(node)
        allowed = {'isinstance(n, Integral) and n > 0': n > 0,
                   'not (isinstance(n, Integral) and n > 0)': not n > 0,
                   'not isinstance(n, Integral) or n <= 0': not n > 0,
                   'n > 1': n > 1, 'n == 1': n == 1, 'n <= 0': n <= 0, 'n < 1': n < 1}
        if s not in allowed:
            raise ExtractionError('unknown test `{}` in __pow__'.format(s))
        return allowed[s]

    def val(node, env):
        s = _u(node)
        if s == 'self':
            return 'self'
        if s == 'NotImplemented':
            return 'NotImplemented'
        if isinstance(node, ast.Name) and node.id in env:
            return env[node.id]
        if isinstance(node, ast.Call) and _u(node.func) == 'OperatorComp' and len(node.args) == 2 \
                and not node.keywords and _u(node.args[0]) == 'self':
            return ('comp', 'self', val(node.args[1], env))
        raise ExtractionError('unknown expression `{}` in __pow__'.format(s))

    def run(stmts, env, st):
        for s in stmts:
            if isinstance(s, ast.Expr) and isinstance(s.value, ast.Constant):
                continue
            if isinstance(s, ast.If):
                r = run(s.body if test(s.test, st['n']) else s.orelse, env, st)
                if r is not None:
                    return r
            elif isinstance(s, ast.Assign) and len(s.targets) == 1 and \
                    isinstance(s.targets[0], ast.Name) and s.targets[0].id not in ('self', 'n'):
                env[s.targets[0].id] = val(s.value, env)
            elif isinstance(s, ast.While) and _u(s.test) == 'n > 1' and not s.orelse:
                guard = 0
                while st['n'] > 1:
                    if run(s.body, env, st) is not None or guard > 50:
                        raise ExtractionError('return inside the __pow__ loop')
                    guard += 1
            elif isinstance(s, ast.AugAssign) and _u(s) == 'n -= 1':
                st['n'] -= 1
            elif isinstance(s, ast.For) and _u(s.iter) == 'range(n - 1)' and not s.orelse and \
                    isinstance(s.target, ast.Name) and s.target.id not in env:
                for _ in range(st['n'] - 1):
                    if run(s.body, env, st) is not None:
                        raise ExtractionError('return inside the __pow__ loop')
            elif isinstance(s, ast.Return) and s.value is not None:
                return val(s.value, env)
            else:
                raise ExtractionError('statement `{}` outside the vocabulary in __pow__'.format(
                    _u(s).split('\n')[0]))
        return None

    def expected(n):
        if n <= 0:
            return 'NotImplemented'
        t = 'self'
        for _ in range(n - 1):
            t = ('comp', 'self', t)
        return t
    return all(run(fn.body, {}, {'n': n}) == expected(n) for n in range(-1, 6))


# --- scalar merge of Operator{Left,Right}ScalarMult.__init__ ------------------------------------

def merge_rule(cls, module_funcs, stores):
    """Symbolically run every statement of `cls.__init__` that rebinds `scalar`/`operator` (they
    must be top-level statements) for the two worlds isinstance(operator, cls) = True / False;
    module-level helper calls `a, b = helper(operator, scalar, cls)` are inlined.  Returns
    'ownClassProduct' iff the final bindings are (operator.operator, scalar * operator.scalar) in
    the first world and unchanged in the second; 'none' iff nothing is rebound."""
    init = [n for n in cls.body if isinstance(n, ast.FunctionDef) and n.name == '__init__'][0]
    st_nodes = stores(init, ('scalar', 'operator'))
    if not st_nodes:
        return 'none'
    ids = {id(n) for n in st_nodes}
    top = [s for s in init.body if any(id(d) in ids for d in ast.walk(s))]
    own_test = 'isinstance(operator, {})'.format(cls.name)

    def subst(node, env):
        return _expr_text(node, {k: ('expr', v) for k, v in env.items()})

    def run_helper(fn, args, world):
        params = [a.arg for a in fn.args.args]
        if len(params) != len(args) or fn.args.vararg or fn.args.kwarg:
            raise ExtractionError('helper {} has an unknown signature'.format(fn.name))
        env = dict(zip(params, args))

        def hb(node):
            s = subst(node, env)
            if s == own_test:
                return world
            if s == 'not ' + own_test:
                return not world
            raise ExtractionError('unknown test `{}` in helper {}'.format(s, fn.name))

        def run(stmts):
            for s in stmts:
                if isinstance(s, ast.Expr) and isinstance(s.value, ast.Constant):
                    continue
                if isinstance(s, ast.If):
                    r = run(s.body if hb(s.test) else s.orelse)
                    if r is not None:
                        return r
                elif isinstance(s, ast.Return) and isinstance(s.value, ast.Tuple):
                    return [subst(e, env) for e in s.value.elts]
                elif isinstance(s, ast.Assign) and len(s.targets) == 1 and \
                        isinstance(s.targets[0], ast.Name):
                    env[s.targets[0].id] = subst(s.value, env)
                else:
                    raise ExtractionError('statement `{}` outside the vocabulary in helper {}'
                                          .format(_u(s).split('\n')[0], fn.name))
            return None
        r = run(fn.body)
        if r is None:
            raise ExtractionError('helper {} can fall off its end'.format(fn.name))
        return r

    def run(world):
        env = {'operator': 'operator', 'scalar': 'scalar'}

        def assign(s):
            if isinstance(s, ast.Assign) and len(s.targets) == 1:
                t = s.targets[0]
                if isinstance(t, ast.Name):
                    env[t.id] = subst(s.value, env)
                    return
                if isinstance(t, ast.Tuple) and all(isinstance(e, ast.Name) for e in t.elts) and \
                        isinstance(s.value, ast.Call) and isinstance(s.value.func, ast.Name) and \
                        s.value.func.id in module_funcs and not s.value.keywords:
                    vals = run_helper(module_funcs[s.value.func.id],
                                      [subst(a, env) for a in s.value.args], world)
                    if len(vals) != len(t.elts):
                        raise ExtractionError('tuple sizes differ in ' + _u(s))
                    for e, v in zip(t.elts, vals):
                        env[e.id] = v
                    return
            raise ExtractionError('`{}` rebinds scalar/operator in a way outside the vocabulary'
                                  .format(_u(s).split('\n')[0]))
        for s in top:
            if isinstance(s, ast.If):
                if _u(s.test) != own_test or s.orelse:
                    raise ExtractionError('scalar/operator rebound under the unknown test `{}`'
                                          .format(_u(s.test)))
                if world:
                    for b in s.body:
                        assign(b)
            else:
                assign(s)
        return env['operator'], env['scalar']
    if run(True) == ('operator.operator', 'scalar * operator.scalar') and \
            run(False) == ('operator', 'scalar'):
        return 'ownClassProduct'
    raise ExtractionError('{}.__init__ rebinds scalar/operator to {} / {}'.format(
        cls.name, run(True), run(False)))
