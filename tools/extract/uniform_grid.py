"""Translator: odl/discr/grid.py::uniform_grid_fromintv (node placement table)
           ->  OdlModel/Gen/UniformGrid.lean

Grammar (anything else raises ExtractionError = broken obligation, never a pass):
  * the `if/elif/else` chain over `bdry_l`, `bdry_r` (conjunctions of the names or their
    negations; `else` = the remaining combination), each branch being exactly
    `gmin.append(E); gmax.append(E)` with
        E ::= xmin | xmax | (xmin|xmax) (+|-) (xmax - xmin) / D,   D linear in n with integer coefficients
"""
import ast
import os

from vf import core


class ExtractionError(Exception):
    pass


def _func(tree, name, cls=None):
    for node in ast.walk(tree):
        if cls is not None:
            if isinstance(node, ast.ClassDef) and node.name == cls:
                for sub in node.body:
                    if isinstance(sub, ast.FunctionDef) and sub.name == name:
                        return sub
        elif isinstance(node, ast.FunctionDef) and node.name == name:
            return node
    raise ExtractionError('function {} not found'.format(name))


def _linear_n(node):
    """integer (A, B) with node == A*n + B"""
    if isinstance(node, ast.Constant) and isinstance(node.value, int) and not isinstance(node.value, bool):
        return (0, node.value)
    if isinstance(node, ast.Name) and node.id == 'n':
        return (1, 0)
    if isinstance(node, ast.BinOp):
        l, r = _linear_n(node.left), _linear_n(node.right)
        if isinstance(node.op, ast.Add):
            return (l[0] + r[0], l[1] + r[1])
        if isinstance(node.op, ast.Sub):
            return (l[0] - r[0], l[1] - r[1])
        if isinstance(node.op, ast.Mult):
            if l[0] == 0:
                return (l[1] * r[0], l[1] * r[1])
            if r[0] == 0:
                return (l[0] * r[1], l[1] * r[1])
    raise ExtractionError('not linear in n: ' + ast.unparse(node))


def _is_extent(node):
    return (isinstance(node, ast.BinOp) and isinstance(node.op, ast.Sub) and
            isinstance(node.left, ast.Name) and node.left.id == 'xmax' and
            isinstance(node.right, ast.Name) and node.right.id == 'xmin')


def _offset(node):
    """(base_is_max, sign, A, B)"""
    if isinstance(node, ast.Name) and node.id in ('xmin', 'xmax'):
        return (node.id == 'xmax', 0, 0, 1)
    if isinstance(node, ast.BinOp) and isinstance(node.op, (ast.Add, ast.Sub)) and \
            isinstance(node.left, ast.Name) and node.left.id in ('xmin', 'xmax') and \
            isinstance(node.right, ast.BinOp) and isinstance(node.right.op, ast.Div) and \
            _is_extent(node.right.left):
        a, b = _linear_n(node.right.right)
        return (node.left.id == 'xmax', 1 if isinstance(node.op, ast.Add) else -1, a, b)
    raise ExtractionError('node placement outside the grammar: ' + ast.unparse(node))


def _flag_test(node):
    """test -> (bl, br) required"""
    if not (isinstance(node, ast.BoolOp) and isinstance(node.op, ast.And) and len(node.values) == 2):
        raise ExtractionError('flag test outside the grammar: ' + ast.unparse(node))
    req = {}
    for v in node.values:
        val = True
        if isinstance(v, ast.UnaryOp) and isinstance(v.op, ast.Not):
            v, val = v.operand, False
        if not (isinstance(v, ast.Name) and v.id in ('bdry_l', 'bdry_r')) or v.id in req:
            raise ExtractionError('flag test outside the grammar: ' + ast.unparse(node))
        req[v.id] = val
    return (req['bdry_l'], req['bdry_r'])


def _branch(body):
    if len(body) != 2:
        raise ExtractionError('branch body is not gmin.append; gmax.append')
    out = {}
    for st in body:
        if not (isinstance(st, ast.Expr) and isinstance(st.value, ast.Call) and
                isinstance(st.value.func, ast.Attribute) and st.value.func.attr == 'append' and
                isinstance(st.value.func.value, ast.Name) and st.value.func.value.id in ('gmin', 'gmax')
                and len(st.value.args) == 1):
            raise ExtractionError('branch statement outside the grammar: ' + ast.unparse(st))
        out[st.value.func.value.id] = _offset(st.value.args[0])
    if set(out) != {'gmin', 'gmax'}:
        raise ExtractionError('branch does not set both gmin and gmax')
    return out


def extract_table(repo):
    with open(os.path.join(repo, 'odl', 'discr', 'grid.py')) as f:
        tree = ast.parse(f.read())
    fn = _func(tree, 'uniform_grid_fromintv')
    chain = None
    for node in ast.walk(fn):
        if isinstance(node, ast.For):
            for st in node.body:
                if isinstance(st, ast.If) and 'bdry_l' in ast.unparse(st.test):
                    chain = st
    if chain is None:
        raise ExtractionError('flag chain not found in uniform_grid_fromintv')
    table = {}
    node = chain
    while True:
        key = _flag_test(node.test)
        if key in table:
            raise ExtractionError('duplicate flag combination')
        table[key] = _branch(node.body)
        if len(node.orelse) == 1 and isinstance(node.orelse[0], ast.If):
            node = node.orelse[0]
            continue
        rest = [(a, b) for a in (True, False) for b in (True, False) if (a, b) not in table]
        if len(rest) != 1 or not node.orelse:
            raise ExtractionError('else branch does not cover exactly one combination')
        table[rest[0]] = _branch(node.orelse)
        break
    return table


def _b(x):
    return 'true' if x else 'false'


def extract(repo=core.REPO):
    table = extract_table(repo)
    lines = ['/- GENERATED by tools/extract/uniform_grid.py from odl/discr/grid.py::uniform_grid_fromintv',
             '   -- do not edit. -/',
             'import OdlModel.Model.Partition',
             'namespace OdlModel.Gen.UniformGrid',
             'open OdlModel.Partition', '']
    for which in ('gmin', 'gmax'):
        lines.append('/-- `{}` per `(bdry_l, bdry_r)`: base + sign * (xmax - xmin) / (a * n + b). -/'.format(which))
        lines.append('def {} : Bool → Bool → Off'.format(which))
        for key in [(True, True), (True, False), (False, True), (False, False)]:
            bm, sg, a, b = table[key][which]
            lines.append('  | {}, {} => ⟨{}, {}, {}, {}⟩'.format(_b(key[0]), _b(key[1]), _b(bm), sg, a, b))
        lines.append('')
    lines += ['', 'end OdlModel.Gen.UniformGrid', '']
    return '\n'.join(lines)


def regenerate(repo=core.REPO):
    lean = extract(repo)
    return core.write_if_changed(os.path.join(core.LEAN, 'OdlModel', 'Gen', 'UniformGrid.lean'), lean)


if __name__ == '__main__':
    print(extract())
