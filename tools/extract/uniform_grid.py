"""Translator: odl/discr/grid.py::uniform_grid_fromintv (node placement table)
           ->  OdlModel/Gen/UniformGrid.lean

The table has, per (bdry_l, bdry_r), one entry for gmin and one for gmax of the form
    base + sign * (xmax - xmin) / (a * n + b),   base in {xmin, xmax}, sign in {0, +1, -1}, a, b integers.

1. source=ast.  The statements of the per-axis loop from the first `if` over `bdry_l` / `bdry_r` on are
   partially evaluated for each of the four flag assignments: `if` / conditional-expression tests must
   be boolean combinations of the two names, assignments to temporaries are substituted, and what is
   appended to `gmin` / `gmax` must reduce to
        E ::= xmin | xmax | (xmin|xmax) (+|-) (xmax - xmin) / D,   D linear in n with integer coefficients.
   This covers the 4-way chain as well as a shared half-stride temporary with per-side conditional
   expressions.  Anything else is not understood.
2. source=live.  If the AST is not understood, the table is obtained BEHAVIOURALLY from the live
   `uniform_grid_fromintv` of the tree under test (subprocess with that tree on PYTHONPATH): the entry of
   the above form is fitted from a handful of exactly representable inputs and then verified EXACTLY on a
   larger grid of dyadic inputs (n = 1, 2, 3, …, 4097; negative, mixed-sign and far-off intervals).
   A function that is not of the table's form, or disagrees anywhere on the verification grid, is
   rejected.
Failing both raises ExtractionError = broken obligation, never a pass.  The Lean theorem
`C14.extracted_table_is_model` then compares the table with the model for all inputs.
"""
import ast
import copy
import json
import os
import subprocess
from fractions import Fraction

from vf import core


class ExtractionError(Exception):
    pass


def _func(tree, name, cls=None):
    for node in ast.walk(tree):
        if cls is not None:
            if isinstance(node, ast.ClassDef) and node.name == cls:
                for sub in node.body:
                    if isinstance(sub, ast.FunctionDef) and sub.name == name:
                        return sub
        elif isinstance(node, ast.FunctionDef) and node.name == name:
            return node
    raise ExtractionError('function {} not found'.format(name))


def _linear_n(node):
    """integer (A, B) with node == A*n + B"""
    if isinstance(node, ast.Constant) and isinstance(node.value, int) and not isinstance(node.value, bool):
        return (0, node.value)
    if isinstance(node, ast.Name) and node.id == 'n':
        return (1, 0)
    if isinstance(node, ast.BinOp):
        l, r = _linear_n(node.left), _linear_n(node.right)
        if isinstance(node.op, ast.Add):
            return (l[0] + r[0], l[1] + r[1])
        if isinstance(node.op, ast.Sub):
            return (l[0] - r[0], l[1] - r[1])
        if isinstance(node.op, ast.Mult):
            if l[0] == 0:
                return (l[1] * r[0], l[1] * r[1])
            if r[0] == 0:
                return (l[0] * r[1], l[1] * r[1])
    raise ExtractionError('not linear in n: ' + ast.unparse(node))


def _is_extent(node):
    return (isinstance(node, ast.BinOp) and isinstance(node.op, ast.Sub) and
            isinstance(node.left, ast.Name) and node.left.id == 'xmax' and
            isinstance(node.right, ast.Name) and node.right.id == 'xmin')


def _offset(node):
    """(base_is_max, sign, A, B)"""
    if isinstance(node, ast.Name) and node.id in ('xmin', 'xmax'):
        return (node.id == 'xmax', 0, 0, 1)
    if isinstance(node, ast.BinOp) and isinstance(node.op, (ast.Add, ast.Sub)) and \
            isinstance(node.left, ast.Name) and node.left.id in ('xmin', 'xmax') and \
            isinstance(node.right, ast.BinOp) and isinstance(node.right.op, ast.Div) and \
            _is_extent(node.right.left):
        a, b = _linear_n(node.right.right)
        return (node.left.id == 'xmax', 1 if isinstance(node.op, ast.Add) else -1, a, b)
    raise ExtractionError('node placement outside the grammar: ' + ast.unparse(node))


def _bool(node, flags):
    """Concrete value of a test over bdry_l / bdry_r."""
    if isinstance(node, ast.Name) and node.id in flags:
        return flags[node.id]
    if isinstance(node, ast.UnaryOp) and isinstance(node.op, ast.Not):
        return not _bool(node.operand, flags)
    if isinstance(node, ast.BoolOp):
        vals = [_bool(v, flags) for v in node.values]
        return all(vals) if isinstance(node.op, ast.And) else any(vals)
    raise ExtractionError('test outside the grammar: ' + ast.unparse(node))


class _Subst(ast.NodeTransformer):
    def __init__(self, env, flags):
        self.env, self.flags = env, flags

    def visit_Name(self, node):
        if node.id in self.env:
            val = self.env[node.id]
            if val is None:
                raise ExtractionError('temporary {} used although it has no value on this path'.format(node.id))
            return copy.deepcopy(val)
        return node

    def visit_IfExp(self, node):
        return self.visit(node.body if _bool(node.test, self.flags) else node.orelse)


def _run(stmts, flags, env, out):
    for st in stmts:
        if isinstance(st, ast.If):
            _run(st.body if _bool(st.test, flags) else st.orelse, flags, env, out)
        elif isinstance(st, ast.Assign) and len(st.targets) == 1 and isinstance(st.targets[0], ast.Name) \
                and st.targets[0].id not in ('xmin', 'xmax', 'n', 'bdry_l', 'bdry_r', 'gmin', 'gmax'):
            if isinstance(st.value, ast.Constant) and st.value.value is None:
                env[st.targets[0].id] = None
            else:
                env[st.targets[0].id] = _Subst(env, flags).visit(copy.deepcopy(st.value))
        elif (isinstance(st, ast.Expr) and isinstance(st.value, ast.Call) and
              isinstance(st.value.func, ast.Attribute) and st.value.func.attr == 'append' and
              isinstance(st.value.func.value, ast.Name) and st.value.func.value.id in ('gmin', 'gmax')
              and len(st.value.args) == 1 and not st.value.keywords):
            which = st.value.func.value.id
            if which in out:
                raise ExtractionError(which + ' appended twice')
            out[which] = _offset(_Subst(env, flags).visit(copy.deepcopy(st.value.args[0])))
        else:
            raise ExtractionError('statement outside the grammar: ' + ast.unparse(st)[:80])


def extract_table_ast(repo):
    with open(os.path.join(repo, 'odl', 'discr', 'grid.py')) as f:
        tree = ast.parse(f.read())
    fn = _func(tree, 'uniform_grid_fromintv')
    loop = None
    for node in ast.walk(fn):
        if isinstance(node, ast.For) and any(
                isinstance(st, ast.If) and 'bdry_l' in ast.unparse(st.test) for st in node.body):
            loop = node
    if loop is None:
        raise ExtractionError('flag chain not found in uniform_grid_fromintv')
    start = [k for k, st in enumerate(loop.body)
             if isinstance(st, ast.If) and 'bdry_l' in ast.unparse(st.test)][0]
    table = {}
    for bl in (True, False):
        for br in (True, False):
            out = {}
            _run(loop.body[start:], {'bdry_l': bl, 'bdry_r': br}, {}, out)
            if set(out) != {'gmin', 'gmax'}:
                raise ExtractionError('gmin / gmax not both set for flags {}'.format((bl, br)))
            table[(bl, br)] = out
    return table


# ---------------------------------------------------------------------------
# behavioural fallback

_LIVE = r"""
import json, sys
from fractions import Fraction
import odl
qs = json.load(sys.stdin)
out = []
for xmin, xmax, n, bl, br in qs:
    try:
        g = odl.uniform_grid_fromintv(odl.IntervalProd(float(Fraction(xmin)), float(Fraction(xmax))), n,
                                      nodes_on_bdry=[(bool(bl), bool(br))])
        v = g.coord_vectors[0]
        out.append([str(Fraction(float(x))) for x in v.tolist()] if len(v) == n else None)
    except Exception as e:
        out.append(None)
json.dump(out, sys.stdout)
"""


def _live(repo, queries):
    env = dict(os.environ, PYTHONPATH=repo, PYTHONDONTWRITEBYTECODE='1')
    p = subprocess.run(['/venv/bin/python', '-c', _LIVE], input=json.dumps(
        [[str(a), str(b), n, bl, br] for a, b, n, bl, br in queries]), env=env, cwd='/tmp',
        stdout=subprocess.PIPE, stderr=subprocess.PIPE, text=True, timeout=600)
    if p.returncode != 0:
        raise ExtractionError('live uniform_grid_fromintv could not be run: ' + p.stderr[-200:])
    res = json.loads(p.stdout)
    return [None if r is None else [Fraction(x) for x in r] for r in res]


def _eval_entry(entry, xmin, xmax, n):
    bm, sg, a, b = entry
    base = xmax if bm else xmin
    return base if sg == 0 else base + sg * (xmax - xmin) / (a * n + b)


def _fit(obs, prefer_max):
    """obs: list of (xmin, xmax, n, value) with n >= 2.  Returns the table entry or raises."""
    for bm in ((True, False) if prefer_max else (False, True)):
        offs = [(v - (xmax if bm else xmin), xmax - xmin, n) for xmin, xmax, n, v in obs]
        if all(o == 0 for o, _, _ in offs):
            return (bm, 0, 0, 1)
        if any(o == 0 for o, _, _ in offs):
            continue
        rs = {}
        ok = True
        for o, ext, n in offs:
            r = ext / o
            if r.denominator != 1 or rs.setdefault(n, r) != r:
                ok = False
                break
        ns = sorted(rs)
        if not ok or len(ns) < 3:
            continue
        A = (rs[ns[1]] - rs[ns[0]]) / (ns[1] - ns[0])
        B = rs[ns[0]] - A * ns[0]
        if A.denominator != 1 or B.denominator != 1 or any(rs[n] != A * n + B for n in ns):
            continue
        sg = 1 if (A > 0 or (A == 0 and B > 0)) else -1
        return (bm, sg, int(sg * A), int(sg * B))
    raise ExtractionError('live node placement is not of the form base + sign*(xmax - xmin)/(a*n + b)')


def extract_table_live(repo):
    """Fit on few points, verify exactly on many.  Returns (table, n_fit, n_verify)."""
    # extents divisible by every candidate denominator up to 16: all divisions on the path are exact
    L = 720720
    fit_pts = [(Fraction(x), Fraction(x) + Fraction(L * m, 1024), n)
               for x, m in ((0, 1), (-3, 2), (Fraction(5, 4), 1)) for n in (2, 3, 4, 5, 7)]
    table = {}
    pairs = [(bl, br) for bl in (True, False) for br in (True, False)]
    res_all = _live(repo, [(a, b, n, bl, br) for bl, br in pairs for a, b, n in fit_pts])
    n_fit = len(res_all)
    for k, (bl, br) in enumerate(pairs):
        res = res_all[k * len(fit_pts):(k + 1) * len(fit_pts)]
        if any(r is None for r in res):
            raise ExtractionError('live uniform_grid_fromintv raised on a fit point')
        table[(bl, br)] = {
            'gmin': _fit([(a, b, n, r[0]) for (a, b, n), r in zip(fit_pts, res)], False),
            'gmax': _fit([(a, b, n, r[-1]) for (a, b, n), r in zip(fit_pts, res)], True)}
    # verification grid: extents = (product of the fitted denominators) * dyadic side, so exact again
    import math
    qs = []
    for (bl, br), ent in table.items():
        for n in (1, 2, 3, 4, 5, 6, 8, 9, 16, 17, 31, 64, 100, 1000, 4097):
            d = 1
            for e in ent.values():
                if e[1] != 0:
                    den = abs(e[2] * n + e[3])
                    if den == 0:
                        raise ExtractionError('fitted denominator vanishes at n={}'.format(n))
                    d = d * den // math.gcd(d, den)
            for x in (Fraction(0), Fraction(-7, 2), Fraction(3, 8), Fraction(-1024), Fraction(4096), Fraction(-1, 64)):
                for h in (Fraction(1), Fraction(1, 8), Fraction(3, 4), Fraction(1, 1024)):
                    qs.append((x, x + d * h, n, bl, br))
    res = _live(repo, qs)
    n_ver = len(qs)
    if True:
        for (xmin, xmax, n, bl, br), r in zip(qs, res):
            ent = table[(bl, br)]
            if r is None:
                raise ExtractionError('live uniform_grid_fromintv raised on [{}, {}], n={}, flags {}'.format(
                    xmin, xmax, n, (bl, br)))
            gmin = _eval_entry(ent['gmin'], xmin, xmax, n)
            gmax = _eval_entry(ent['gmax'], xmin, xmax, n)
            exp = [gmin] if n == 1 else [gmin + i * (gmax - gmin) / (n - 1) for i in (0, n - 1)]
            got = [r[0]] if n == 1 else [r[0], r[-1]]
            if got != exp:
                raise ExtractionError('fitted table disagrees with the live function on [{}, {}], n={}, flags {}: '
                                      '{} vs {}'.format(xmin, xmax, n, (bl, br), got, exp))
            if n >= 3:
                # interior nodes equally spaced (np.linspace), checked where exactly representable
                step = (gmax - gmin) / (n - 1)
                if step.denominator & (step.denominator - 1) == 0 and r[1] != gmin + step:
                    raise ExtractionError('interior nodes are not equally spaced on [{}, {}], n={}'.format(
                        xmin, xmax, n))
    return table, n_fit, n_ver


def extract_table(repo):
    """(table, description of its source)"""
    try:
        return extract_table_ast(repo), 'source=ast'
    except ExtractionError as e:
        why = str(e)
    table, n_fit, n_ver = extract_table_live(repo)
    return table, ('source=live (AST not understood: {}); fitted on {} and verified exactly on {} calls of the '
                   'live uniform_grid_fromintv'.format(why[:80], n_fit, n_ver))


def _b(x):
    return 'true' if x else 'false'


def extract(repo=core.REPO, info=None):
    table, src = extract_table(repo)
    if info is not None:
        info.append(src)
    lines = ['/- GENERATED by tools/extract/uniform_grid.py from odl/discr/grid.py::uniform_grid_fromintv',
             '   -- do not edit. -/',
             'import OdlModel.Model.Partition',
             'namespace OdlModel.Gen.UniformGrid',
             'open OdlModel.Partition', '']
    for which in ('gmin', 'gmax'):
        lines.append('/-- `{}` per `(bdry_l, bdry_r)`: base + sign * (xmax - xmin) / (a * n + b). -/'.format(which))
        lines.append('def {} : Bool → Bool → Off'.format(which))
        for key in [(True, True), (True, False), (False, True), (False, False)]:
            bm, sg, a, b = table[key][which]
            lines.append('  | {}, {} => ⟨{}, {}, {}, {}⟩'.format(_b(key[0]), _b(key[1]), _b(bm), sg, a, b))
        lines.append('')
    lines += ['', 'end OdlModel.Gen.UniformGrid', '']
    return '\n'.join(lines)


def regenerate(repo=core.REPO, info=None):
    lean = extract(repo, info)
    return core.write_if_changed(os.path.join(core.LEAN, 'OdlModel', 'Gen', 'UniformGrid.lean'), lean)


if __name__ == '__main__':
    print(extract())
