"""Behavioural derivation of the legacy `x.ufuncs` tables from the LIVE module.

Run as a script in a subprocess whose PYTHONPATH is the tree under test (never imported by the
checker itself).  Used only when tools/extract/ufunc_legacy.py does not recognise the source
form of odl/util/ufuncs.py.  Spy objects record exactly what every generated wrapper forwards
(`TensorSpaceUfuncs.<name>`, `.sum/prod/min/max`, `ProductSpaceUfuncs.<name>`, its
reductions); the recorded behaviour must match exactly one of the known rules, for EVERY name
of the registration loops; anything else aborts with a non-zero exit status (fail closed).
Prints the tables as JSON.
"""
import json
import sys

import numpy as np
import odl.util.ufuncs as uf


def fail(msg):
    sys.stderr.write(msg + '\n')
    raise SystemExit(3)


class DataT(object):
    """stands for `type(elem.data)`"""


class Foreign(object):
    pass


class Spy(object):
    """stands for an element: records what a wrapper forwards to `__array_ufunc__`"""

    def __init__(self):
        self.data = DataT()
        self.calls = []

    def __array_ufunc__(self, ufunc, method, *inputs, **kwargs):
        self.calls.append((ufunc, method, inputs, kwargs))
        return 'RESULT'


OUT_FORMS = {
    'OutRule.tupleIfNoneOrOwn': {'absent': ('tuple', ('None',)), 'own': ('tuple', ('same',)),
                                 'data': ('tuple', ('same',)), 'foreign': ('raw',),
                                 'pair': ('raw',)},
    'OutRule.pairIfNone': {'absent': ('tuple', ('None', 'None')), 'own': ('raw',),
                           'data': ('raw',), 'foreign': ('raw',), 'pair': ('raw',)},
    'OutRule.tupleAlways': {'absent': ('tuple', ('None',)), 'own': ('tuple', ('same',)),
                            'data': ('tuple', ('same',)), 'foreign': ('tuple', ('same',)),
                            'pair': ('tuple1',)},
}


def out_rule(name, n_in):
    u = getattr(np, name)
    seen = {}
    for pk in ('absent', 'own', 'data', 'foreign', 'pair'):
        e = Spy()
        pv = {'absent': None, 'own': Spy(), 'data': DataT(), 'foreign': Foreign(),
              'pair': (None, Foreign())}[pk]
        args = ['X2'] if n_in == 2 else []
        kw = {} if pk == 'absent' else {'out': pv}
        r = getattr(uf.TensorSpaceUfuncs(e), name)(*args, marker=7, **kw)
        if r != 'RESULT' or len(e.calls) != 1:
            fail('wrapper {} does not forward exactly once'.format(name))
        ufunc, method, inputs, kwargs = e.calls[0]
        if ufunc is not u or method != '__call__' or set(kwargs) != {'out', 'marker'} or \
                kwargs['marker'] != 7:
            fail('wrapper {} forwards {} {} {}'.format(name, ufunc, method, sorted(kwargs)))
        want_inputs = (e, 'X2') if n_in == 2 else (e,)
        if len(inputs) != len(want_inputs) or \
                any(a is not b for a, b in zip(inputs, want_inputs)):
            fail('wrapper {} forwards inputs {}'.format(name, inputs))
        o = kwargs['out']
        if pk == 'pair':
            if o is pv:
                seen[pk] = ('raw',)
            elif isinstance(o, tuple) and len(o) == 1 and o[0] is pv:
                seen[pk] = ('tuple1',)
            else:
                seen[pk] = ('other',)
        elif isinstance(o, tuple):
            seen[pk] = ('tuple', tuple('None' if t is None else ('same' if t is pv else 'other')
                                       for t in o))
        else:
            seen[pk] = ('raw',) if o is pv else ('other',)
    match = [k for k, v in OUT_FORMS.items() if v == seen]
    if len(match) != 1:
        fail('wrapper {}: behaviour {} matches no known rule'.format(name, seen))
    return match[0]


# ---------------------------------------------------------------------------
# product-space wrappers

class Rec(object):
    def __init__(self, log, tag):
        self._log, self._tag = log, tag

    def __getattr__(self, name):
        def f(*a, **k):
            self._log.append((self._tag, name, a, k))
            return ('R', self._tag)
        return f


class Comp(object):
    def __init__(self, log, tag):
        self.ufuncs = Rec(log, tag)


class PSpace(object):
    def __init__(self, log, members):
        self.log, self.members = log, members

    def element(self, inp=None):
        self.log.append(('element', inp))
        n = len(self.log)
        return ['E{}'.format(n), 'F{}'.format(n)] if inp is None else ('ELEM', inp)

    def __contains__(self, x):
        return any(x is m for m in self.members)


class PElem(object):
    def __init__(self, log, members=()):
        self.comps = [Comp(log, 0), Comp(log, 1)]
        self.space = PSpace(log, members)

    def __iter__(self):
        return iter(self.comps)


def power_rule(name, n_in, n_out):
    def run(zipped=None, **kw):
        log = []
        x2in = ['a', 'b']
        e = PElem(log, members=[x2in])
        args = []
        if n_in == 2:
            args = [x2in if zipped else 'S']
        r = getattr(uf.ProductSpaceUfuncs(e), name)(*args, m=1, **kw)
        return r, log
    both = [('R', 0), ('R', 1)]
    if (n_in, n_out) == (1, 1):
        r, log = run()
        ok = log == [(0, name, (), {'m': 1}), (1, name, (), {'m': 1}), ('element', both)] \
            and r == ('ELEM', both)
        o = ['o0', 'o1']
        r, log = run(out=o)
        ok = ok and r is o and log == [(0, name, (), {'m': 1, 'out': 'o0'}),
                                       (1, name, (), {'m': 1, 'out': 'o1'})]
        return 'PLegacyRule.mapOrInto' if ok else None
    if (n_in, n_out) == (1, 2):
        r, log = run()
        ok = (len(log) == 4 and log[0] == ('element', None) and log[1] == ('element', None) and
              isinstance(r, tuple) and len(r) == 2 and
              log[2] == (0, name, (), {'m': 1, 'out': (r[0][0], r[1][0])}) and
              log[3] == (1, name, (), {'m': 1, 'out': (r[0][1], r[1][1])}))
        o1, o2 = ['p0', 'p1'], ['q0', 'q1']
        r, log = run(out1=o1, out2=o2)
        ok = ok and isinstance(r, tuple) and r[0] is o1 and r[1] is o2 and log == [
            (0, name, (), {'m': 1, 'out': ('p0', 'q0')}),
            (1, name, (), {'m': 1, 'out': ('p1', 'q1')})]
        return 'PLegacyRule.twoOut' if ok else None
    if (n_in, n_out) == (2, 1):
        ok = True
        for zipped in (True, False):
            x = ['a', 'b'] if zipped else ['S', 'S']
            r, log = run(zipped=zipped)
            ok = ok and log == [(0, name, (x[0],), {'m': 1}), (1, name, (x[1],), {'m': 1}),
                                ('element', both)] and r == ('ELEM', both)
            o = ['o0', 'o1']
            r, log = run(zipped=zipped, out=o)
            ok = ok and r is o and log == [(0, name, (x[0],), {'m': 1, 'out': 'o0'}),
                                           (1, name, (x[1],), {'m': 1, 'out': 'o1'})]
        return 'PLegacyRule.binary' if ok else None
    return None


def main():
    names = list(uf.RAW_UFUNCS)
    if [t[0] for t in uf.UFUNCS] != names:
        fail('UFUNCS does not list RAW_UFUNCS')
    rules, prules = {}, {}
    for name, n_in, n_out, doc in uf.UFUNCS:
        u = getattr(np, name)
        if (u.nin, u.nout) != (n_in, n_out):
            fail('UFUNCS entry {} has the wrong signature'.format(name))
        for cls in (uf.TensorSpaceUfuncs, uf.ProductSpaceUfuncs):
            if getattr(cls, name).__name__ != name:
                fail('{}.{} is misnamed'.format(cls.__name__, name))
        r = out_rule(name, n_in)
        if rules.setdefault((n_in, n_out), r) != r:
            fail('wrappers of signature {} differ'.format((n_in, n_out)))
        pr = power_rule(name, n_in, n_out)
        if pr is None:
            fail('product-space wrapper {} matches no known rule'.format(name))
        if prules.setdefault((n_in, n_out), pr) != pr:
            fail('product-space wrappers of signature {} differ'.format((n_in, n_out)))
    # every public callable of the two classes must be accounted for
    for cls in (uf.TensorSpaceUfuncs, uf.ProductSpaceUfuncs):
        extra = [k for k, v in vars(cls).items() if callable(v) and not k.startswith('_') and
                 k not in names and k not in ('sum', 'prod', 'min', 'max')]
        if extra:
            fail('{} has unknown methods {}'.format(cls.__name__, extra))
    reds = []
    for red in ('sum', 'prod', 'min', 'max'):
        e, o = Spy(), Foreign()
        r = getattr(uf.TensorSpaceUfuncs(e), red)(axis=3, dtype='D', out=o, keepdims='K')
        if r != 'RESULT' or len(e.calls) != 1:
            fail('reduction {} does not forward exactly once'.format(red))
        ufunc, method, inputs, kwargs = e.calls[0]
        if len(inputs) != 1 or inputs[0] is not e or \
                set(kwargs) != {'axis', 'dtype', 'out', 'keepdims'} or kwargs['axis'] != 3 or \
                kwargs['dtype'] != 'D' or kwargs['keepdims'] != 'K' or \
                not (isinstance(kwargs['out'], tuple) and len(kwargs['out']) == 1 and
                     kwargs['out'][0] is o):
            fail('reduction {} forwards {} {}'.format(red, inputs, kwargs))
        e2 = Spy()
        getattr(uf.TensorSpaceUfuncs(e2), red)()
        k2 = e2.calls[0][3]
        if (k2['axis'], k2['dtype'], k2['keepdims'], k2['out']) != (None, None, False, (None,)):
            fail('reduction {} defaults {}'.format(red, k2))
        if getattr(np, ufunc.__name__, None) is not ufunc:
            fail('reduction {} forwards a foreign ufunc'.format(red))
        reds.append([red, ufunc.__name__, method])
    preds = []
    # finite data AND special values in a later part: the combiner must be NumPy's (a Python
    # builtin min/max drops a NaN that is not in the first part)
    vectors = [(2.0, 5.0, -3.0), (2.0, float('nan'), -3.0), (-1.0, 4.0, float('nan')),
               (float('inf'), 1.0, 2.0), (1.0, float('-inf'), 0.5)]

    def same(a, b):
        a, b = float(a), float(b)
        return (a != a and b != b) or a == b
    for red in ('sum', 'prod', 'min', 'max'):
        def comp(v, red=red):
            return type('C', (), {'ufuncs': type('U', (), {red: staticmethod(lambda: v)})()})()
        match = None
        for vals in vectors:
            class V(object):
                def __iter__(self, vals=vals):
                    return iter([comp(v) for v in vals])
            with np.errstate(all='ignore'):
                got = getattr(uf.ProductSpaceUfuncs(V()), red)()
                m = set(c for c in ('sum', 'prod', 'min', 'max')
                        if same(getattr(np, c)(list(vals)), got))
            match = m if match is None else (match & m)
        if match is None or len(match) != 1:
            fail('product-space reduction {} matches {} over finite and special-value '
                 'vectors'.format(red, sorted(match or [])))
        preds.append([red, sorted(match)[0]])
    json.dump({'raw': names,
               'rules': sorted([k[0], k[1], v] for k, v in rules.items()),
               'reds': reds,
               'prules': sorted([k[0], k[1], v] for k, v in prules.items()),
               'preds': preds}, sys.stdout)


if __name__ == '__main__':
    main()
