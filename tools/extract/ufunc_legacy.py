"""Translator: odl/util/ufuncs.py (legacy `x.ufuncs.<name>` interface) and the live NumPy ufunc
table  ->  OdlModel/Gen/UfuncLegacy.lean

Extracted, as data:
  * RAW_UFUNCS (the list of legacy names),
  * wrap_ufunc_base: that the wrapped ufunc is `getattr(np, name)`, and per (n_in, n_out)
    branch the way the wrapper builds the `out` tuple and which operands it forwards to
    `self.elem.__array_ufunc__(ufunc, '__call__', ...)`,
  * TensorSpaceUfuncs.sum/prod/min/max: (np ufunc, method) they forward to,
  * numpy's own table (name, nin, nout) of every ufunc object in np.core.umath.
The grammar is deliberately tiny: each wrapper body must unparse to one of the known
canonical forms; anything else raises ExtractionError (-> broken obligation, never a pass).
"""
import ast
import os

from vf import core


class ExtractionError(Exception):
    pass


def _u(node):
    return ast.unparse(node)


def _strip_doc(body):
    if body and isinstance(body[0], ast.Expr) and isinstance(body[0].value, ast.Constant) \
            and isinstance(body[0].value.value, str):
        return body[1:]
    return body


# canonical wrapper bodies (after ast.unparse) -> (OutRule constructor, forwards x2)
WRAPPER_FORMS = {
    ("if out is None or isinstance(out, (type(self.elem), type(self.elem.data))):\n"
     "    out = (out,)\n"
     "return self.elem.__array_ufunc__(ufunc, '__call__', self.elem, out=out, **kwargs)"):
        ('OutRule.tupleIfNoneOrOwn', False),
    ("if out is None:\n"
     "    out = (None, None)\n"
     "return self.elem.__array_ufunc__(ufunc, '__call__', self.elem, out=out, **kwargs)"):
        ('OutRule.pairIfNone', False),
    ("return self.elem.__array_ufunc__(ufunc, '__call__', self.elem, x2, out=(out,), **kwargs)"):
        ('OutRule.tupleAlways', True),
}


# canonical bodies of the ProductSpaceUfuncs wrappers (wrap_ufunc_productspace), as of /repo
# 2fbe3b2: the out= branches of the (1,1) and (2,1) wrappers check the number of parts of `out`
# BEFORE the loop (the model's psMapInto has that check; the older bodies without it are
# deliberately NOT accepted any more); as of 1021b41 the (1,2) wrapper also accepts the
# out=(out1, out2) form it passes to its parts (model: twoOutArgs)
POWER_WRAPPER_FORMS = {
    ("if out is None:\n"
     "    result = [getattr(x.ufuncs, name)(**kwargs) for x in self.elem]\n"
     "    return self.elem.space.element(result)\n"
     "else:\n"
     "    if len(out) != len(self.elem):\n"
     "        raise ValueError('`out` has {} parts, expected {}'.format(len(out), "
     "len(self.elem)))\n"
     "    for x, out_x in zip(self.elem, out):\n"
     "        getattr(x.ufuncs, name)(out=out_x, **kwargs)\n"
     "    return out"): ('PLegacyRule.mapOrInto', 'self, out=None, **kwargs'),
    ("if out is not None:\n"
     "    out1, out2 = out\n"
     "if out1 is None:\n"
     "    out1 = self.elem.space.element()\n"
     "if out2 is None:\n"
     "    out2 = self.elem.space.element()\n"
     "for x, out1_x, out2_x in zip(self.elem, out1, out2):\n"
     "    getattr(x.ufuncs, name)(out=(out1_x, out2_x), **kwargs)\n"
     "return (out1, out2)"): ('PLegacyRule.twoOut', 'self, out1=None, out2=None, out=None, **kwargs'),
    ("if x2 in self.elem.space:\n"
     "    if out is None:\n"
     "        result = [getattr(x.ufuncs, name)(x2p, **kwargs) for x, x2p in "
     "zip(self.elem, x2)]\n"
     "        return self.elem.space.element(result)\n"
     "    else:\n"
     "        if len(out) != len(self.elem):\n"
     "            raise ValueError('`out` has {} parts, expected {}'.format(len(out), "
     "len(self.elem)))\n"
     "        for x, x2p, outp in zip(self.elem, x2, out):\n"
     "            getattr(x.ufuncs, name)(x2p, out=outp, **kwargs)\n"
     "        return out\n"
     "elif out is None:\n"
     "    result = [getattr(x.ufuncs, name)(x2, **kwargs) for x in self.elem]\n"
     "    return self.elem.space.element(result)\n"
     "else:\n"
     "    if len(out) != len(self.elem):\n"
     "        raise ValueError('`out` has {} parts, expected {}'.format(len(out), "
     "len(self.elem)))\n"
     "    for x, outp in zip(self.elem, out):\n"
     "        getattr(x.ufuncs, name)(x2, out=outp, **kwargs)\n"
     "    return out"): ('PLegacyRule.binary', 'self, x2, out=None, **kwargs'),
}


# the two module-level loops, compared for EQUALITY after ast.unparse (an extra statement such
# as `if name == 'sin': continue` is a changed loop)
UFUNCS_LOOP = (
    "for name in RAW_UFUNCS:\n"
    "    ufunc = getattr(np, name)\n"
    "    n_in, n_out = (ufunc.nin, ufunc.nout)\n"
    "    descr = ufunc.__doc__.splitlines()[2]\n"
    "    descr = re.sub('`+', '``', descr)\n"
    "    doc = descr + '\\n\\nSee Also\\n--------\\nnumpy.{}\\n'.format(name)\n"
    "    UFUNCS.append((name, n_in, n_out, doc))")
REGISTER_LOOP = (
    "for name, n_in, n_out, doc in UFUNCS:\n"
    "    method = {wrap}(name, n_in, n_out, doc)\n"
    "    setattr({cls}, name, method)")


def _const_int(node, var):
    """`n_in == 1` -> 1"""
    if isinstance(node, ast.Compare) and len(node.ops) == 1 and isinstance(node.ops[0], ast.Eq) \
            and _u(node.left) == var and isinstance(node.comparators[0], ast.Constant):
        return int(node.comparators[0].value)
    raise ExtractionError('unknown branch test ' + _u(node))


def _branches(stmts, var):
    """if/elif chain over `var == k` -> [(k, body)], else-body"""
    if len(stmts) != 1 or not isinstance(stmts[0], ast.If):
        raise ExtractionError('expected an if chain over ' + var)
    out = []
    node = stmts[0]
    while True:
        out.append((_const_int(node.test, var), node.body))
        if len(node.orelse) == 1 and isinstance(node.orelse[0], ast.If):
            node = node.orelse[0]
            continue
        els = node.orelse
        break
    return out, els


def _check_wrapper(fn, n_in, n_out):
    """One `def wrapper(...)`: its body must be one of the canonical forms."""
    if not isinstance(fn, ast.FunctionDef) or fn.name != 'wrapper' or fn.decorator_list:
        raise ExtractionError('({},{}) does not define a plain `wrapper`'.format(n_in, n_out))
    args = _u(fn.args)
    text = '\n'.join(_u(s) for s in _strip_doc(fn.body))
    if text not in WRAPPER_FORMS:
        raise ExtractionError('wrapper ({},{}) has an unknown body:\n{}'.format(
            n_in, n_out, text))
    rule, fwd2 = WRAPPER_FORMS[text]
    want_args = 'self, x2, out=None, **kwargs' if fwd2 else 'self, out=None, **kwargs'
    if args != want_args or fwd2 != (n_in == 2):
        raise ExtractionError('wrapper ({},{}) signature {}'.format(n_in, n_out, args))
    return rule


WRAP_TAIL = ['wrapper.__name__ = wrapper.__qualname__ = name', 'wrapper.__doc__ = doc',
             'return wrapper']


def _rules_from_chain(wrap):
    """`if n_in == 1: if n_out == 1: def wrapper ... elif ... else: raise NotImplementedError`"""
    body = _strip_doc(wrap.body)
    if len(body) < 2 or _u(body[0]) != 'ufunc = getattr(np, name)':
        raise ExtractionError('wrapped ufunc is not getattr(np, name)')
    if [_u(s) for s in body[2:]] != WRAP_TAIL:
        raise ExtractionError('wrap_ufunc_base tail changed')
    rules = []
    outer, els = _branches([body[1]], 'n_in')
    if [_u(s) for s in els] != ['raise NotImplementedError']:
        raise ExtractionError('n_in else branch changed')
    for n_in, b in outer:
        inner, els2 = _branches(b, 'n_out')
        if [_u(s) for s in els2] != ['raise NotImplementedError']:
            raise ExtractionError('n_out else branch changed')
        for n_out, bb in inner:
            if len(bb) != 1:
                raise ExtractionError('branch ({},{}) has extra statements'.format(n_in, n_out))
            rules.append((n_in, n_out, _check_wrapper(bb[0], n_in, n_out)))
    return rules


def _rules_from_table(tree, wrap):
    """`make = TABLE.get((n_in, n_out)); if make is None: raise NotImplementedError;
    wrapper = make(ufunc)` with TABLE a module-level dict literal `{(i, o): factory}` that
    nothing else touches, each factory `def f(ufunc): def wrapper(...): <canonical>; return
    wrapper` referenced nowhere else."""
    body = _strip_doc(wrap.body)
    if len(body) != 4 + len(WRAP_TAIL) or _u(body[0]) != 'ufunc = getattr(np, name)':
        raise ExtractionError('not the table form')
    if [_u(s) for s in body[4:]] != WRAP_TAIL:
        raise ExtractionError('wrap_ufunc_base tail changed')
    st = body[1]
    if not (isinstance(st, ast.Assign) and len(st.targets) == 1 and
            isinstance(st.targets[0], ast.Name) and isinstance(st.value, ast.Call) and
            isinstance(st.value.func, ast.Attribute) and st.value.func.attr == 'get' and
            isinstance(st.value.func.value, ast.Name) and not st.value.keywords and
            [_u(a) for a in st.value.args] == ['(n_in, n_out)']):
        raise ExtractionError('no `<var> = <TABLE>.get((n_in, n_out))`')
    var, table = st.targets[0].id, st.value.func.value.id
    if var in ('ufunc', 'name', 'n_in', 'n_out', 'doc', 'wrapper', 'np', table):
        raise ExtractionError('local name {} shadows something'.format(var))
    if _u(body[2]) != 'if {} is None:\n    raise NotImplementedError'.format(var):
        raise ExtractionError('missing `if {} is None: raise NotImplementedError`'.format(var))
    if _u(body[3]) != 'wrapper = {}(ufunc)'.format(var):
        raise ExtractionError('missing `wrapper = {}(ufunc)`'.format(var))
    # the table: exactly one module-level assignment of a dict literal, no other use anywhere
    assigns = [n for n in tree.body if isinstance(n, ast.Assign) and len(n.targets) == 1 and
               isinstance(n.targets[0], ast.Name) and n.targets[0].id == table]
    if len(assigns) != 1 or not isinstance(assigns[0].value, ast.Dict):
        raise ExtractionError('{} is not one module-level dict literal'.format(table))
    uses = [n for n in ast.walk(tree) if isinstance(n, ast.Name) and n.id == table]
    if len(uses) != 2:    # the assignment target and the `.get` above
        raise ExtractionError('{} is referenced elsewhere (may be mutated)'.format(table))
    for n in ast.walk(tree):
        if isinstance(n, (ast.Global, ast.Nonlocal)) and table in n.names:
            raise ExtractionError('{} is declared global somewhere'.format(table))
        if isinstance(n, ast.Constant) and n.value == table:
            raise ExtractionError('{} may be reached by name'.format(table))
        if isinstance(n, ast.Call) and _u(n.func) in ('globals', 'vars', 'locals', 'exec',
                                                      'eval', 'setattr'):
            if _u(n.func) != 'setattr' or _u(n.args[0]) not in ('TensorSpaceUfuncs',
                                                                'ProductSpaceUfuncs'):
                raise ExtractionError('module uses {}'.format(_u(n.func)))
    funcs = {}
    for n in tree.body:
        if isinstance(n, ast.FunctionDef):
            funcs.setdefault(n.name, []).append(n)
    rules = []
    d = assigns[0].value
    for k, v in zip(d.keys, d.values):
        if not (isinstance(k, ast.Tuple) and len(k.elts) == 2 and all(
                isinstance(e, ast.Constant) and type(e.value) is int for e in k.elts)):
            raise ExtractionError('table key {} is not a pair of int literals'.format(
                _u(k) if k is not None else '**'))
        n_in, n_out = k.elts[0].value, k.elts[1].value
        if not isinstance(v, ast.Name) or len(funcs.get(v.id, [])) != 1:
            raise ExtractionError('table value {} is not one module-level function'.format(_u(v)))
        if len([n for n in ast.walk(tree) if isinstance(n, ast.Name) and n.id == v.id]) != 1:
            raise ExtractionError('factory {} is referenced elsewhere'.format(v.id))
        f = funcs[v.id][0]
        fb = _strip_doc(f.body)
        if _u(f.args) != 'ufunc' or f.decorator_list or len(fb) != 2 or \
                _u(fb[1]) != 'return wrapper':
            raise ExtractionError('factory {} is not `def f(ufunc): def wrapper...; return '
                                  'wrapper`'.format(v.id))
        rules.append((n_in, n_out, _check_wrapper(fb[0], n_in, n_out)))
    if len(set((a, b) for a, b, _ in rules)) != len(rules):
        raise ExtractionError('duplicate keys in ' + table)
    return rules


def extract(src):
    tree = ast.parse(src)
    raw = None
    wrap = None
    tcls = None
    for node in tree.body:
        if isinstance(node, ast.Assign) and _u(node.targets[0]) == 'RAW_UFUNCS':
            if not isinstance(node.value, ast.List) or not all(
                    isinstance(e, ast.Constant) and isinstance(e.value, str)
                    for e in node.value.elts):
                raise ExtractionError('RAW_UFUNCS is not a list of string literals')
            raw = [e.value for e in node.value.elts]
        if isinstance(node, ast.FunctionDef) and node.name == 'wrap_ufunc_base':
            wrap = node
        if isinstance(node, ast.ClassDef) and node.name == 'TensorSpaceUfuncs':
            tcls = node
    if raw is None or wrap is None or tcls is None:
        raise ExtractionError('RAW_UFUNCS / wrap_ufunc_base / TensorSpaceUfuncs not found')
    # the registration loop must use the same names
    loops = [_u(n) for n in tree.body if isinstance(n, ast.For)]
    if UFUNCS_LOOP not in loops:
        raise ExtractionError('UFUNCS construction loop changed')
    if REGISTER_LOOP.format(cls='TensorSpaceUfuncs', wrap='wrap_ufunc_base') not in loops:
        raise ExtractionError('TensorSpaceUfuncs registration loop changed')
    # wrap_ufunc_base: nested if/elif chain, or a lookup in a table of wrapper factories
    try:
        rules = _rules_from_chain(wrap)
        form = 'chain'
    except ExtractionError as e_chain:
        try:
            rules = _rules_from_table(tree, wrap)
            form = 'table'
        except ExtractionError as e_table:
            raise ExtractionError('wrap_ufunc_base: neither the if/elif chain ({}) nor the '
                                  'table-of-factories form ({})'.format(e_chain, e_table))
    extract.last_form = form
    # reductions
    reds = []
    for node in tcls.body:
        if isinstance(node, ast.FunctionDef) and node.name in ('sum', 'prod', 'min', 'max'):
            b = _strip_doc(node.body)
            if _u(node.args) != 'self, axis=None, dtype=None, out=None, keepdims=False':
                raise ExtractionError('reduction signature ' + _u(node.args))
            if len(b) != 1 or not isinstance(b[0], ast.Return):
                raise ExtractionError('reduction body ' + node.name)
            callnode = b[0].value
            if not isinstance(callnode, ast.Call) or _u(callnode.func) != \
                    'self.elem.__array_ufunc__':
                raise ExtractionError('reduction call ' + node.name)
            a = [_u(x) for x in callnode.args]
            k = {kw.arg: _u(kw.value) for kw in callnode.keywords}
            if len(a) != 3 or not a[0].startswith('np.') or a[2] != 'self.elem' or \
                    k != {'axis': 'axis', 'dtype': 'dtype', 'out': '(out,)',
                          'keepdims': 'keepdims'}:
                raise ExtractionError('reduction forwards {} {}'.format(a, k))
            reds.append((node.name, a[0][3:], ast.literal_eval(a[1])))
    if sorted(r[0] for r in reds) != ['max', 'min', 'prod', 'sum']:
        raise ExtractionError('reductions found: {}'.format(reds))
    return raw, rules, reds


def extract_power(src):
    """wrap_ufunc_productspace and ProductSpaceUfuncs.sum/prod/min/max."""
    tree = ast.parse(src)
    wrap = cls = None
    for node in tree.body:
        if isinstance(node, ast.FunctionDef) and node.name == 'wrap_ufunc_productspace':
            wrap = node
        if isinstance(node, ast.ClassDef) and node.name == 'ProductSpaceUfuncs':
            cls = node
    if wrap is None or cls is None:
        raise ExtractionError('wrap_ufunc_productspace / ProductSpaceUfuncs not found')
    loops = [_u(n) for n in tree.body if isinstance(n, ast.For)]
    if REGISTER_LOOP.format(cls='ProductSpaceUfuncs', wrap='wrap_ufunc_productspace') \
            not in loops:
        raise ExtractionError('ProductSpaceUfuncs registration loop changed')
    body = _strip_doc(wrap.body)
    tail = [_u(s) for s in body[1:]]
    if tail != ['wrapper.__name__ = wrapper.__qualname__ = name', 'wrapper.__doc__ = doc',
                'return wrapper']:
        raise ExtractionError('wrap_ufunc_productspace tail changed')
    rules = []
    outer, els = _branches([body[0]], 'n_in')
    if [_u(s) for s in els] != ['raise NotImplementedError']:
        raise ExtractionError('power n_in else branch changed')
    for n_in, b in outer:
        inner, els2 = _branches(b, 'n_out')
        if [_u(s) for s in els2] != ['raise NotImplementedError']:
            raise ExtractionError('power n_out else branch changed')
        for n_out, bb in inner:
            if len(bb) != 1 or not isinstance(bb[0], ast.FunctionDef) or bb[0].name != 'wrapper':
                raise ExtractionError('power branch ({},{})'.format(n_in, n_out))
            fn = bb[0]
            text = '\n'.join(_u(s) for s in _strip_doc(fn.body))
            if text not in POWER_WRAPPER_FORMS:
                raise ExtractionError('power wrapper ({},{}) has an unknown body:\n{}'.format(
                    n_in, n_out, text))
            rule, want_args = POWER_WRAPPER_FORMS[text]
            if _u(fn.args) != want_args:
                raise ExtractionError('power wrapper ({},{}) signature {}'.format(
                    n_in, n_out, _u(fn.args)))
            rules.append((n_in, n_out, rule))
    reds = []
    for node in cls.body:
        if isinstance(node, ast.FunctionDef) and node.name in ('sum', 'prod', 'min', 'max'):
            b = [_u(x) for x in _strip_doc(node.body)]
            if _u(node.args) != 'self' or len(b) != 2 or \
                    b[0] != 'results = [x.ufuncs.{}() for x in self.elem]'.format(node.name) or \
                    not (b[1].startswith('return np.') and b[1].endswith('(results)')):
                raise ExtractionError('power reduction {}: {}'.format(node.name, b))
            reds.append((node.name, b[1][len('return np.'):-len('(results)')]))
    if sorted(r[0] for r in reds) != ['max', 'min', 'prod', 'sum']:
        raise ExtractionError('power reductions found: {}'.format(reds))
    return rules, reds


def numpy_table():
    import numpy as np
    out = []
    for name in sorted(vars(np.core.umath)):
        u = getattr(np.core.umath, name)
        if isinstance(u, np.ufunc) and not name.startswith('_'):
            # `name` is the attribute np.<name>; u.__name__ the ufunc it denotes
            if getattr(np, name, None) is not u:
                continue
            out.append((name, u.__name__, u.nin, u.nout))
    return out


LEAN_DTYPES = [('bool', 'bool'), ('int8', 'int8'), ('int16', 'int16'), ('int32', 'int32'),
               ('int64', 'int64'), ('uint8', 'uint8'), ('uint16', 'uint16'),
               ('uint32', 'uint32'), ('uint64', 'uint64'), ('float16', 'float16'),
               ('float32', 'float32'), ('float64', 'float64'), ('longdouble', 'longdouble'),
               ('complex64', 'complex64'), ('complex128', 'complex128'),
               ('clongdouble', 'clongdouble'), ('object', 'object')]


def cancast_table():
    """np.can_cast (safe) over the dtypes of the model, from the live NumPy."""
    import numpy as np
    return [(a, b, bool(np.can_cast(np.dtype(na), np.dtype(nb))))
            for a, na in LEAN_DTYPES for b, nb in LEAN_DTYPES]


def render(raw, rules, reds, table, prules, preds):
    L = []
    L.append('/- GENERATED by tools/extract/ufunc_legacy.py from odl/util/ufuncs.py and the live')
    L.append('   NumPy ufunc table. Do not edit; regenerated on every run of ./check C17. -/')
    L.append('import OdlModel.Model.Ufunc')
    L.append('namespace OdlModel.Gen.UfuncLegacy')
    L.append('open OdlModel.Ufunc')
    L.append('')
    L.append('/-- `RAW_UFUNCS`: the names for which `x.ufuncs.<name>` is generated. -/')
    L.append('def legacyNames : List String := [')
    L.append('  ' + ', '.join('"{}"'.format(n) for n in raw))
    L.append(']')
    L.append('')
    L.append('/-- `wrap_ufunc_base`: per `(n_in, n_out)` the rule that builds the `out` tuple. -/')
    L.append('def legacyRules : List ((Nat × Nat) × OutRule) := [')
    L.append('  ' + ', '.join('(({}, {}), {})'.format(a, b, r) for a, b, r in rules))
    L.append(']')
    L.append('')
    L.append('/-- `TensorSpaceUfuncs.sum/prod/min/max`: `(legacy name, np ufunc, method)`. -/')
    L.append('def legacyReductions : List (String × String × String) := [')
    L.append('  ' + ', '.join('("{}", "{}", "{}")'.format(a, b, c) for a, b, c in reds))
    L.append(']')
    L.append('')
    L.append('/-- `wrap_ufunc_productspace`: per `(n_in, n_out)` the wrapper of `ProductSpaceUfuncs`. -/')
    L.append('def legacyPowerRules : List ((Nat × Nat) × PLegacyRule) := [')
    L.append('  ' + ', '.join('(({}, {}), {})'.format(a, b, r) for a, b, r in prules))
    L.append(']')
    L.append('')
    L.append('/-- `ProductSpaceUfuncs.sum/…`: component-wise legacy reduction combined by `np.<f>`. -/')
    L.append('def legacyPowerReductions : List (String × String) := [')
    L.append('  ' + ', '.join('("{}", "{}")'.format(a, b) for a, b in preds))
    L.append(']')
    L.append('')
    L.append('/-- NumPy: `(attribute name np.<name>, ufunc.__name__, nin, nout)`. -/')
    L.append('def npUfuncs : List (String × String × Nat × Nat) := [')
    L.append(',\n'.join('  ("{}", "{}", {}, {})'.format(*t) for t in table))
    L.append(']')
    L.append('')
    L.append('/-- NumPy: `np.can_cast(src, dst)` (safe rule) for every pair of model dtypes. -/')
    L.append('def npCanCast : List (DType × DType × Bool) := [')
    L.append(',\n'.join('  ' + ', '.join('(.{}, .{}, {})'.format(a, b, 'true' if v else 'false')
                                          for a, b, v in cancast_table()[i:i + 4])
                        for i in range(0, len(LEAN_DTYPES) ** 2, 4)))
    L.append(']')
    L.append('')
    L.append('end OdlModel.Gen.UfuncLegacy')
    return '\n'.join(L) + '\n'


def derive_live():
    """Behavioural derivation of the legacy tables from the LIVE module of the tree under test
    (tools/extract/ufunc_legacy_live.py in a subprocess with PYTHONPATH = that tree)."""
    import json
    import subprocess
    import sys
    env = dict(os.environ)
    env['PYTHONPATH'] = core.REPO
    env['PYTHONDONTWRITEBYTECODE'] = '1'
    script = os.path.join(os.path.dirname(os.path.abspath(__file__)), 'ufunc_legacy_live.py')
    p = subprocess.run([sys.executable, script], env=env, stdout=subprocess.PIPE,
                       stderr=subprocess.PIPE, text=True, timeout=300, cwd='/')
    if p.returncode != 0:
        raise ExtractionError('live derivation failed: ' + (p.stderr.strip()[-300:] or
                                                            'rc={}'.format(p.returncode)))
    d = json.loads(p.stdout)
    return (d['raw'], [tuple(t) for t in d['rules']], [tuple(t) for t in d['reds']],
            [tuple(t) for t in d['prules']], [tuple(t) for t in d['preds']])


LAST_SOURCE = {'source': None, 'why': None}


def regenerate():
    path = os.path.join(core.REPO, 'odl', 'util', 'ufuncs.py')
    with open(path) as f:
        src = f.read()
    LAST_SOURCE.update(source='none (extraction failed)', why=None)
    try:
        raw, rules, reds = extract(src)
        prules, preds = extract_power(src)
        source, why = 'ast:' + getattr(extract, 'last_form', 'chain'), None
    except (ExtractionError, SyntaxError, IndexError, AttributeError, TypeError) as e:
        # the source no longer has a form the translator understands: derive the same tables
        # behaviourally from the live module; fail (closed) if that does not succeed either
        why = '{}: {}'.format(type(e).__name__, str(e)[:300])
        LAST_SOURCE.update(why=why)
        try:
            raw, rules, reds, prules, preds = derive_live()
        except ExtractionError as e2:
            raise ExtractionError('{}; and {}'.format(why, e2))
        source = 'live'
    LAST_SOURCE.update(source=source, why=why)
    table = numpy_table()
    text = render(raw, sorted(rules), reds, table, sorted(prules), preds)
    out = os.path.join(core.LEAN, 'OdlModel', 'Gen', 'UfuncLegacy.lean')
    changed = core.write_if_changed(out, text)
    return changed, ('source={}; {} legacy names, {} wrapper rules, {} reductions, {} '
                     'product-space rules, {} product-space reductions, {} numpy ufuncs'.format(
                         source, len(raw), len(rules), len(reds), len(prules), len(preds),
                         len(table)))
