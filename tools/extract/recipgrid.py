"""Translator: odl/trafos/util/ft_utils.py  ->  OdlModel/Gen/RecipGrid.lean

Extracted (AST, tiny grammar; anything else raises ExtractionError = broken obligation):
  * reciprocal_grid: the four rmin/rmax assignments (checked against their normal form), the
    half-complex shape rule, and the `if last_odd and last_shifted / elif ... / else` table
    for rmax as a coefficient of half_rstride, evaluated for all (odd, shift);
  * dft_postprocess_data: `fmin`, and the nested `if halfcomplex / shift / odd` table for
    `fmax`, each symbolically evaluated to `a + b/len_orig` with exact rationals, for all
    (halfcomplex, shift, odd).
"""
import ast
import itertools
import os
from fractions import Fraction

from vf import core


class ExtractionError(Exception):
    pass


def _u(n):
    return ast.unparse(n)


def _func(tree, name):
    for n in tree.body:
        if isinstance(n, ast.FunctionDef) and n.name == name:
            return n
    raise ExtractionError('function {} not found'.format(name))


def _cond(node, env):
    if isinstance(node, ast.Name):
        if node.id not in env:
            raise ExtractionError('unknown condition atom ' + node.id)
        return env[node.id]
    if isinstance(node, ast.UnaryOp) and isinstance(node.op, ast.Not):
        return not _cond(node.operand, env)
    if isinstance(node, ast.BoolOp):
        vals = [_cond(v, env) for v in node.values]
        return all(vals) if isinstance(node.op, ast.And) else any(vals)
    raise ExtractionError('unknown condition ' + _u(node))


def _assigns(body, target):
    """all statements of `body` assigning to `target` (unparsed)"""
    return [s for s in body if isinstance(s, ast.Assign) and len(s.targets) == 1 and
            _u(s.targets[0]) == target]


def _check_no_other_writes(fn, counts):
    """Anywhere in the function (also nested): no augmented assignment to the table variables and
    exactly the expected number of plain assignments, so that an added `rmax[...] *= k` or a second
    assignment in another block cannot slip through."""
    seen = dict.fromkeys(counts, 0)
    for node in ast.walk(fn):
        if isinstance(node, (ast.AugAssign, ast.AnnAssign)):
            base = _u(node.target).split('[')[0]
            if base in counts:
                raise ExtractionError('augmented/annotated assignment to {}: {}'.format(base, _u(node)[:80]))
        elif isinstance(node, ast.Assign):
            for tgt in node.targets:
                for el in (tgt.elts if isinstance(tgt, (ast.Tuple, ast.List)) else [tgt]):
                    base = _u(el).split('[')[0]
                    if base in counts:
                        seen[base] += 1
    if seen != counts:
        raise ExtractionError('unexpected number of assignments {} (expected {})'.format(seen, counts))


def _eval_chain(stmts, target, env, value_fn):
    """Execute a list of statements made of if/elif/else and assignments to `target`."""
    val = None
    for s in stmts:
        if isinstance(s, ast.If):
            branch = s.body if _cond(s.test, env) else s.orelse
            v = _eval_chain(branch, target, env, value_fn)
            if v is not None:
                val = v
        elif isinstance(s, ast.Assign) and len(s.targets) == 1 and _u(s.targets[0]) == target:
            val = value_fn(s.value)
        elif isinstance(s, ast.Expr) and isinstance(s.value, ast.Constant):
            continue  # comment string
        else:
            raise ExtractionError('unexpected statement in the {} table: {}'.format(target, _u(s)[:80]))
    return val


# ---- reciprocal_grid

RG_NORMAL = {
    'rmin[shifted]': '-np.pi / stride[shifted]',
    'rmax[shifted]': '-rmin[shifted] - 2 * np.pi / (stride[shifted] * shape[shifted])',
    'rmin[not_shifted]': '(-1.0 + 1.0 / shape[not_shifted]) * np.pi / stride[not_shifted]',
    'rmax[not_shifted]': '-rmin[not_shifted]',
}
RG_DEFS = {
    'last_odd': 'shape[axes[-1]] % 2 == 1',
    'last_shifted': 'shift_list[-1]',
    'half_rstride': 'np.pi / (shape[axes[-1]] * stride[axes[-1]])',
    'rshape[axes[-1]]': 'shape[axes[-1]] // 2 + 1',
}


def _rg_value(node):
    s = _u(node)
    if s == 'half_rstride':
        return 1
    if s == '-half_rstride':
        return -1
    if isinstance(node, ast.Constant) and node.value == 0:
        return 0
    raise ExtractionError('unknown rmax value ' + s)


def extract_recip(tree):
    fn = _func(tree, 'reciprocal_grid')
    _check_no_other_writes(fn, {'rmin': 3, 'rmax': 6, 'rshape': 2, 'half_rstride': 1,
                                'last_odd': 1, 'last_shifted': 1})
    for tgt, normal in RG_NORMAL.items():
        a = _assigns(fn.body, tgt)
        if len(a) != 1 or _u(a[0].value) != normal:
            raise ExtractionError('{} is not `{}`: {}'.format(
                tgt, normal, [_u(x.value) for x in a]))
    hc_if = [s for s in fn.body if isinstance(s, ast.If) and _u(s.test) == 'halfcomplex']
    if len(hc_if) != 1 or hc_if[0].orelse:
        raise ExtractionError('`if halfcomplex:` block not found')
    body = hc_if[0].body
    for tgt, normal in RG_DEFS.items():
        a = _assigns(body, tgt)
        if len(a) != 1 or _u(a[0].value) != normal:
            raise ExtractionError('{} is not `{}`'.format(tgt, normal))
    chain = [s for s in body if isinstance(s, ast.If)]
    table = {}
    for odd, shift in itertools.product((True, False), repeat=2):
        v = _eval_chain(chain, 'rmax[axes[-1]]', {'last_odd': odd, 'last_shifted': shift}, _rg_value)
        if v is None:
            raise ExtractionError('rmax not assigned for odd={} shift={}'.format(odd, shift))
        table[(odd, shift)] = v
    return table


# ---- dft_postprocess_data

def _lin(node):
    """expression -> (a, b) meaning a + b/len_orig"""
    if isinstance(node, ast.Constant) and isinstance(node.value, (int, float)):
        return (Fraction(node.value).limit_denominator(10 ** 6), Fraction(0))
    if isinstance(node, ast.UnaryOp) and isinstance(node.op, ast.USub):
        a, b = _lin(node.operand)
        return (-a, -b)
    if isinstance(node, ast.BinOp) and isinstance(node.op, (ast.Add, ast.Sub)):
        a1, b1 = _lin(node.left)
        a2, b2 = _lin(node.right)
        return (a1 + a2, b1 + b2) if isinstance(node.op, ast.Add) else (a1 - a2, b1 - b2)
    if isinstance(node, ast.BinOp) and isinstance(node.op, ast.Div):
        num, nb = _lin(node.left)
        if nb != 0:
            raise ExtractionError('non-constant numerator ' + _u(node))
        d = node.right
        if isinstance(d, ast.Name) and d.id == 'len_orig':
            return (Fraction(0), num)
        if isinstance(d, ast.BinOp) and isinstance(d.op, ast.Mult):
            l, r = d.left, d.right
            if isinstance(r, ast.Name) and r.id == 'len_orig' and isinstance(l, ast.Constant):
                return (Fraction(0), num / Fraction(l.value))
            if isinstance(l, ast.Name) and l.id == 'len_orig' and isinstance(r, ast.Constant):
                return (Fraction(0), num / Fraction(r.value))
    raise ExtractionError('expression outside the grammar: ' + _u(node))


def extract_freqs(tree):
    fn = _func(tree, 'dft_postprocess_data')
    _check_no_other_writes(fn, {'fmin': 1, 'fmax': 5, 'freqs': 1, 'halfcomplex': 1, 'odd': 1,
                                'len_dft': 1, 'len_orig': 1})
    loops = [s for s in fn.body if isinstance(s, ast.For) and 'zip(axes, shift_list, interp)' in _u(s.iter)]
    if len(loops) != 1:
        raise ExtractionError('kernel loop not found')
    body = loops[0].body
    defs = {'halfcomplex': 'len_dft < len_orig', 'odd': 'len_orig % 2',
            'len_dft': 'recip_grid.shape[ax]', 'len_orig': 'real_grid.shape[ax]',
            'freqs': 'np.linspace(fmin, fmax, num=len_dft)'}
    for tgt, normal in defs.items():
        a = _assigns(body, tgt)
        if len(a) != 1 or _u(a[0].value) != normal:
            raise ExtractionError('{} is not `{}`'.format(tgt, normal))
    a = _assigns(body, 'fmin')
    if len(a) != 1 or not isinstance(a[0].value, ast.IfExp):
        raise ExtractionError('fmin is not a conditional expression')
    ife = a[0].value
    fmin = {}
    for shift in (True, False):
        fmin[shift] = _lin(ife.body if _cond(ife.test, {'shift': shift}) else ife.orelse)
    chain = [s for s in body if isinstance(s, ast.If) and _u(s.test) == 'halfcomplex']
    if len(chain) != 1:
        raise ExtractionError('fmax table not found')
    fmax = {}
    for hc, shift, odd in itertools.product((True, False), repeat=3):
        v = _eval_chain(chain, 'fmax', {'halfcomplex': hc, 'shift': shift, 'odd': odd}, _lin)
        if v is None:
            raise ExtractionError('fmax not assigned for {}'.format((hc, shift, odd)))
        fmax[(hc, shift, odd)] = v
    return fmin, fmax


def _b(x):
    return 'true' if x else 'false'


def _q(fr):
    return '({}, {})'.format(fr.numerator, fr.denominator)


def _lin_lean(v):
    return '({}, {})'.format(_q(v[0]), _q(v[1]))


def render():
    path = os.path.join(core.REPO, 'odl', 'trafos', 'util', 'ft_utils.py')
    with open(path) as f:
        tree = ast.parse(f.read())
    rg = extract_recip(tree)
    fmin, fmax = extract_freqs(tree)
    out = ['-- GENERATED by tools/extract/recipgrid.py from odl/trafos/util/ft_utils.py — do not edit.',
           'namespace OdlModel.Gen.RecipGrid', '',
           '/-- `reciprocal_grid`, half-complex case table: `rmax = coef · half_rstride` by',
           '`(last_odd, last_shifted)`. -/',
           'def hcRmaxCoef : Bool → Bool → Int']
    for (odd, shift), v in rg.items():
        out.append('  | {}, {} => {}'.format(_b(odd), _b(shift), v))
    out += ['', '/-- `dft_postprocess_data`: `fmin = a + b/len_orig` as `((a.num, a.den), (b.num, b.den))`',
            'by `shift`. -/', 'def fmin : Bool → (Int × Nat) × (Int × Nat)']
    for shift, v in fmin.items():
        out.append('  | {} => {}'.format(_b(shift), _lin_lean(v)))
    out += ['', '/-- `dft_postprocess_data`: `fmax` by `(halfcomplex, shift, odd)`. -/',
            'def fmax : Bool → Bool → Bool → (Int × Nat) × (Int × Nat)']
    for (hc, shift, odd), v in fmax.items():
        out.append('  | {}, {}, {} => {}'.format(_b(hc), _b(shift), _b(odd), _lin_lean(v)))
    out += ['', 'end OdlModel.Gen.RecipGrid', '']
    return '\n'.join(out)


def regenerate():
    path = os.path.join(core.LEAN, 'OdlModel', 'Gen', 'RecipGrid.lean')
    return core.write_if_changed(path, render())
