"""Translator: odl/trafos/util/ft_utils.py  ->  OdlModel/Gen/RecipGrid.lean

Extracted (AST, tiny grammar; anything else raises ExtractionError = broken obligation):
  * reciprocal_grid: the four rmin/rmax assignments (checked against their normal form), the
    half-complex shape rule, and the `if last_odd and last_shifted / elif ... / else` table
    for rmax as a coefficient of half_rstride, evaluated for all (odd, shift);
  * dft_postprocess_data: `fmin`, and the nested `if halfcomplex / shift / odd` table for
    `fmax`, each symbolically evaluated to `a + b/len_orig` with exact rationals, for all
    (halfcomplex, shift, odd).
"""
import ast
import itertools
import os
from fractions import Fraction

from vf import core


class ExtractionError(Exception):
    pass


def _u(n):
    return ast.unparse(n)


def _func(tree, name):
    for n in tree.body:
        if isinstance(n, ast.FunctionDef) and n.name == name:
            return n
    raise ExtractionError('function {} not found'.format(name))


def _cond(node, env):
    if isinstance(node, ast.Name):
        if node.id not in env:
            raise ExtractionError('unknown condition atom ' + node.id)
        return env[node.id]
    if isinstance(node, ast.UnaryOp) and isinstance(node.op, ast.Not):
        return not _cond(node.operand, env)
    if isinstance(node, ast.BoolOp):
        vals = [_cond(v, env) for v in node.values]
        return all(vals) if isinstance(node.op, ast.And) else any(vals)
    raise ExtractionError('unknown condition ' + _u(node))


def _assigns(body, target):
    """all statements of `body` assigning to `target` (unparsed)"""
    return [s for s in body if isinstance(s, ast.Assign) and len(s.targets) == 1 and
            _u(s.targets[0]) == target]


def _check_no_other_writes(fn, counts):
    """Anywhere in the function (also nested): no augmented assignment to the table variables and
    exactly the expected number of plain assignments, so that an added `rmax[...] *= k` or a second
    assignment in another block cannot slip through."""
    seen = dict.fromkeys(counts, 0)
    for node in ast.walk(fn):
        if isinstance(node, (ast.AugAssign, ast.AnnAssign)):
            base = _u(node.target).split('[')[0]
            if base in counts:
                raise ExtractionError('augmented/annotated assignment to {}: {}'.format(base, _u(node)[:80]))
        elif isinstance(node, ast.Assign):
            for tgt in node.targets:
                for el in (tgt.elts if isinstance(tgt, (ast.Tuple, ast.List)) else [tgt]):
                    base = _u(el).split('[')[0]
                    if base in counts:
                        seen[base] += 1
    if seen != counts:
        raise ExtractionError('unexpected number of assignments {} (expected {})'.format(seen, counts))


def _eval_chain(stmts, target, env, value_fn):
    """Execute a list of statements made of if/elif/else and assignments to `target`."""
    val = None
    for s in stmts:
        if isinstance(s, ast.If):
            branch = s.body if _cond(s.test, env) else s.orelse
            v = _eval_chain(branch, target, env, value_fn)
            if v is not None:
                val = v
        elif isinstance(s, ast.Assign) and len(s.targets) == 1 and _u(s.targets[0]) == target:
            val = value_fn(s.value)
        elif isinstance(s, ast.Expr) and isinstance(s.value, ast.Constant):
            continue  # comment string
        else:
            raise ExtractionError('unexpected statement in the {} table: {}'.format(target, _u(s)[:80]))
    return val


# ---- reciprocal_grid

RG_NORMAL = {
    'rmin[shifted]': '-np.pi / stride[shifted]',
    'rmax[shifted]': '-rmin[shifted] - 2 * np.pi / (stride[shifted] * shape[shifted])',
    'rmin[not_shifted]': '(-1.0 + 1.0 / shape[not_shifted]) * np.pi / stride[not_shifted]',
    'rmax[not_shifted]': '-rmin[not_shifted]',
}
RG_DEFS = {
    'last_odd': 'shape[axes[-1]] % 2 == 1',
    'last_shifted': 'shift_list[-1]',
    'half_rstride': 'np.pi / (shape[axes[-1]] * stride[axes[-1]])',
    'rshape[axes[-1]]': 'shape[axes[-1]] // 2 + 1',
}


def _rg_value(node):
    s = _u(node)
    if s == 'half_rstride':
        return 1
    if s == '-half_rstride':
        return -1
    if isinstance(node, ast.Constant) and node.value == 0:
        return 0
    raise ExtractionError('unknown rmax value ' + s)


def extract_recip(tree):
    fn = _func(tree, 'reciprocal_grid')
    _check_no_other_writes(fn, {'rmin': 3, 'rmax': 6, 'rshape': 2, 'half_rstride': 1,
                                'last_odd': 1, 'last_shifted': 1})
    for tgt, normal in RG_NORMAL.items():
        a = _assigns(fn.body, tgt)
        if len(a) != 1 or _u(a[0].value) != normal:
            raise ExtractionError('{} is not `{}`: {}'.format(
                tgt, normal, [_u(x.value) for x in a]))
    hc_if = [s for s in fn.body if isinstance(s, ast.If) and _u(s.test) == 'halfcomplex']
    if len(hc_if) != 1 or hc_if[0].orelse:
        raise ExtractionError('`if halfcomplex:` block not found')
    body = hc_if[0].body
    for tgt, normal in RG_DEFS.items():
        a = _assigns(body, tgt)
        if len(a) != 1 or _u(a[0].value) != normal:
            raise ExtractionError('{} is not `{}`'.format(tgt, normal))
    chain = [s for s in body if isinstance(s, ast.If)]
    table = {}
    for odd, shift in itertools.product((True, False), repeat=2):
        v = _eval_chain(chain, 'rmax[axes[-1]]', {'last_odd': odd, 'last_shifted': shift}, _rg_value)
        if v is None:
            raise ExtractionError('rmax not assigned for odd={} shift={}'.format(odd, shift))
        table[(odd, shift)] = v
    return table


# ---- dft_postprocess_data

def _lin(node):
    """expression -> (a, b) meaning a + b/len_orig"""
    if isinstance(node, ast.Constant) and isinstance(node.value, (int, float)):
        return (Fraction(node.value).limit_denominator(10 ** 6), Fraction(0))
    if isinstance(node, ast.UnaryOp) and isinstance(node.op, ast.USub):
        a, b = _lin(node.operand)
        return (-a, -b)
    if isinstance(node, ast.BinOp) and isinstance(node.op, (ast.Add, ast.Sub)):
        a1, b1 = _lin(node.left)
        a2, b2 = _lin(node.right)
        return (a1 + a2, b1 + b2) if isinstance(node.op, ast.Add) else (a1 - a2, b1 - b2)
    if isinstance(node, ast.BinOp) and isinstance(node.op, ast.Div):
        num, nb = _lin(node.left)
        if nb != 0:
            raise ExtractionError('non-constant numerator ' + _u(node))
        d = node.right
        if isinstance(d, ast.Name) and d.id == 'len_orig':
            return (Fraction(0), num)
        if isinstance(d, ast.BinOp) and isinstance(d.op, ast.Mult):
            l, r = d.left, d.right
            if isinstance(r, ast.Name) and r.id == 'len_orig' and isinstance(l, ast.Constant):
                return (Fraction(0), num / Fraction(l.value))
            if isinstance(l, ast.Name) and l.id == 'len_orig' and isinstance(r, ast.Constant):
                return (Fraction(0), num / Fraction(r.value))
    raise ExtractionError('expression outside the grammar: ' + _u(node))


def extract_freqs(tree):
    fn = _func(tree, 'dft_postprocess_data')
    _check_no_other_writes(fn, {'fmin': 1, 'fmax': 5, 'freqs': 1, 'halfcomplex': 1, 'odd': 1,
                                'len_dft': 1, 'len_orig': 1})
    loops = [s for s in fn.body if isinstance(s, ast.For) and 'zip(axes, shift_list, interp)' in _u(s.iter)]
    if len(loops) != 1:
        raise ExtractionError('kernel loop not found')
    body = loops[0].body
    defs = {'halfcomplex': 'len_dft < len_orig', 'odd': 'len_orig % 2',
            'len_dft': 'recip_grid.shape[ax]', 'len_orig': 'real_grid.shape[ax]',
            'freqs': 'np.linspace(fmin, fmax, num=len_dft)'}
    for tgt, normal in defs.items():
        a = _assigns(body, tgt)
        if len(a) != 1 or _u(a[0].value) != normal:
            raise ExtractionError('{} is not `{}`'.format(tgt, normal))
    a = _assigns(body, 'fmin')
    if len(a) != 1 or not isinstance(a[0].value, ast.IfExp):
        raise ExtractionError('fmin is not a conditional expression')
    ife = a[0].value
    fmin = {}
    for shift in (True, False):
        fmin[shift] = _lin(ife.body if _cond(ife.test, {'shift': shift}) else ife.orelse)
    chain = [s for s in body if isinstance(s, ast.If) and _u(s.test) == 'halfcomplex']
    if len(chain) != 1:
        raise ExtractionError('fmax table not found')
    fmax = {}
    for hc, shift, odd in itertools.product((True, False), repeat=3):
        v = _eval_chain(chain, 'fmax', {'halfcomplex': hc, 'shift': shift, 'odd': odd}, _lin)
        if v is None:
            raise ExtractionError('fmax not assigned for {}'.format((hc, shift, odd)))
        fmax[(hc, shift, odd)] = v
    return fmin, fmax


def _b(x):
    return 'true' if x else 'false'


def _q(fr):
    return '({}, {})'.format(fr.numerator, fr.denominator)


def _lin_lean(v):
    return '({}, {})'.format(_q(v[0]), _q(v[1]))


def _emit(rg, fmin, fmax, source):
    out = ['-- GENERATED by tools/extract/recipgrid.py from odl/trafos/util/ft_utils.py — do not edit.',
           'namespace OdlModel.Gen.RecipGrid', '',
           '/-- `reciprocal_grid`, half-complex case table: `rmax = coef · half_rstride` by',
           '`(last_odd, last_shifted)`. -/',
           'def hcRmaxCoef : Bool → Bool → Int']
    for odd, shift in itertools.product((True, False), repeat=2):
        out.append('  | {}, {} => {}'.format(_b(odd), _b(shift), rg[(odd, shift)]))
    out += ['', '/-- `dft_postprocess_data`: `fmin = a + b/len_orig` as `((a.num, a.den), (b.num, b.den))`',
            'by `shift`. -/', 'def fmin : Bool → (Int × Nat) × (Int × Nat)']
    for shift in (True, False):
        out.append('  | {} => {}'.format(_b(shift), _lin_lean(fmin[shift])))
    out += ['', '/-- `dft_postprocess_data`: `fmax` by `(halfcomplex, shift, odd)`. -/',
            'def fmax : Bool → Bool → Bool → (Int × Nat) × (Int × Nat)']
    for hc, shift, odd in itertools.product((True, False), repeat=3):
        out.append('  | {}, {}, {} => {}'.format(_b(hc), _b(shift), _b(odd), _lin_lean(fmax[(hc, shift, odd)])))
    out += ['', 'end OdlModel.Gen.RecipGrid', '']
    return '\n'.join(out)


def render_ast():
    path = os.path.join(core.REPO, 'odl', 'trafos', 'util', 'ft_utils.py')
    with open(path) as f:
        tree = ast.parse(f.read())
    rg = extract_recip(tree)
    fmin, fmax = extract_freqs(tree)
    return _emit(rg, fmin, fmax, 'ast')


# ---- behavioural extraction from the live functions of the tree under test
#
# Used when the source no longer has the syntactic form the AST grammar understands (e.g. the
# if/elif chains rewritten as dict look-ups).  The functions are CALLED on 1-d grids for every
# flag combination (odd/even, shifted or not, halfcomplex or not); the table form is fitted on one
# set of lengths and must reproduce a second, larger set; every quantity the AST stage checks
# syntactically (rmin/rmax normal forms, half-complex shape, fmin, fmax) is checked numerically.
# Anything that does not fit the form `coef * half_rstride` / `a + b/n` with the small candidate
# coefficients fails closed (ExtractionError).

FIT_NS = [3, 4, 5, 6, 7, 8, 9]
VERIFY_NS = [1, 2, 10, 11, 12, 13, 16, 17, 32, 33, 64, 101, 128]
STRIDES = [0.5, 2.0]
_CAND_A = [Fraction(-1, 2), Fraction(0), Fraction(1, 2)]
_CAND_B = [Fraction(-1), Fraction(-1, 2), Fraction(0), Fraction(1, 2), Fraction(1)]


def _close(x, y, scale=1.0):
    return abs(x - y) <= 1e-13 * max(1.0, abs(scale))


def _fit_lin(points):
    """points: [(n, value)] -> the unique (a, b) among the candidates with value = a + b/n"""
    fits = [(a, b) for a in _CAND_A for b in _CAND_B
            if all(_close(v, float(a) + float(b) / n) for n, v in points)]
    if len(fits) != 1:
        raise ExtractionError('no unique a + b/n form for {} (candidates {})'.format(points[:4], fits))
    return fits[0]


def render_live():
    import numpy as np
    import odl
    import odl.trafos.util.ft_utils as m
    pi = np.pi
    obs_rg, obs_fmin, obs_fmax = {}, {}, {}
    captured = []
    orig_sinc = np.sinc

    def spy(x):
        captured.append(np.array(x, dtype=float, copy=True))
        return orig_sinc(x)
    for n in FIT_NS + VERIFY_NS:
        for s in STRIDES:
            grid = odl.uniform_grid(0.0, (n - 1) * s, n) if n > 1 else odl.uniform_grid(0.0, 0.0, 1)
            se = s if n > 1 else 1.0
            odd = n % 2 == 1
            for shift in (True, False):
                full = m.reciprocal_grid(grid, shift=shift, halfcomplex=False)
                unit = pi / se
                rmin_doc = -unit if shift else (-1.0 + 1.0 / n) * unit
                rmax_doc = -rmin_doc - 2 * unit / n if shift else -rmin_doc
                if full.shape != (n,) or not _close(full.min_pt[0], rmin_doc, unit) or \
                        not _close(full.max_pt[0], rmax_doc, unit):
                    raise ExtractionError('reciprocal_grid(n={}, shift={}) is not in normal form: '
                                          '{} .. {}'.format(n, shift, full.min_pt, full.max_pt))
                hcg = m.reciprocal_grid(grid, shift=shift, halfcomplex=True)
                if hcg.shape != (n // 2 + 1,) or not _close(hcg.min_pt[0], rmin_doc, unit):
                    raise ExtractionError('half-complex reciprocal_grid(n={}, shift={}) shape/min'.format(n, shift))
                coef = hcg.max_pt[0] * n * se / pi
                obs_rg.setdefault((odd, shift), []).append((n, coef))
                for hc, rg_ in ((False, full), (True, hcg)):
                    del captured[:]
                    np.sinc = spy
                    try:
                        m.dft_postprocess_data(np.ones(rg_.shape, dtype=complex), grid, rg_, [shift], [0],
                                               'nearest')
                    finally:
                        np.sinc = orig_sinc
                    cands = [c for c in captured if c.shape == (rg_.shape[0],)]
                    if len(cands) != 1:
                        raise ExtractionError('could not observe the kernel frequencies (np.sinc called '
                                              '{} times with the expected shape)'.format(len(cands)))
                    fr = cands[0]
                    if len(fr) > 2 and not np.allclose(np.diff(fr), (fr[-1] - fr[0]) / (len(fr) - 1),
                                                       rtol=0, atol=1e-13):
                        raise ExtractionError('kernel frequencies are not equispaced')
                    detected_hc = rg_.shape[0] < n      # the code's own detection
                    obs_fmin.setdefault(shift, []).append((n, float(fr[0])))
                    obs_fmax.setdefault((detected_hc, shift, odd), []).append((n, float(fr[-1])))

    def split(points):
        return ([p for p in points if p[0] in FIT_NS], [p for p in points if p[0] in VERIFY_NS])
    rg = {}
    for key, pts in obs_rg.items():
        fit, ver = split(pts)
        coefs = {int(round(c)) for _, c in fit}
        if len(coefs) != 1 or not coefs <= {-1, 0, 1} or not all(_close(c, round(c)) for _, c in pts) or \
                {int(round(c)) for _, c in ver} - coefs:
            raise ExtractionError('half-complex rmax is not coef*half_rstride for {}: {}'.format(key, pts[:6]))
        rg[key] = coefs.pop()
    fmin, fmax = {}, {}
    for table, obs in ((fmin, obs_fmin), (fmax, obs_fmax)):
        for key, pts in obs.items():
            fit, ver = split(pts)
            ab = _fit_lin(fit if fit else pts)
            if not all(_close(v, float(ab[0]) + float(ab[1]) / n) for n, v in ver):
                raise ExtractionError('table entry {} = {} does not reproduce the verification set'.format(key, ab))
            table[key] = ab
    if set(rg) != set(itertools.product((True, False), repeat=2)) or set(fmin) != {True, False} or \
            set(fmax) != set(itertools.product((True, False), repeat=3)):
        raise ExtractionError('flag combinations not all observed')
    return _emit(rg, fmin, fmax, 'live')


LAST = {'source': None, 'detail': ''}


def render():
    try:
        text = render_ast()
        LAST.update(source='ast', detail='AST of reciprocal_grid / dft_postprocess_data')
        return text
    except ExtractionError as e:
        ast_msg = str(e)
    try:
        text = render_live()
    except ExtractionError as e:
        raise ExtractionError('AST: {} | live: {}'.format(ast_msg, e))
    except Exception as e:  # the tree under test raised: fail closed
        raise ExtractionError('AST: {} | live call raised {}: {}'.format(ast_msg, type(e).__name__, e))
    LAST.update(source='live', detail='AST grammar did not match ({}); table fitted on n={} and verified on '
                'n={}, strides {} by calling the live functions'.format(ast_msg[:160], FIT_NS, VERIFY_NS,
                                                                       STRIDES))
    return text


def regenerate():
    path = os.path.join(core.LEAN, 'OdlModel', 'Gen', 'RecipGrid.lean')
    return core.write_if_changed(path, render())
