"""Behavioural fallback of tools/extract/interp.py (C15).

When `_Interpolator._find_indices` or `_NearestInterpolator._evaluate` has a shape the
translator does not understand, the artefact is obtained from the LIVE class of the tree under
test (subprocess with that tree on PYTHONPATH): the methods are run on exactly representable
grids and points covering every branch of the model (below the first node, above the last one,
on every node, quarter / eighth points of cells, exact midpoints = ties, length-2 axes, uniform
and non-uniform axes, 1-3 d, `out` given / not given, every value-dtype class for the cast) and
the results must EQUAL the model's `findIndex` / `normDist` / `nearestIndex` (Lean driver op
`probe`) and the canonical cast table.  Only then the canonical constants are emitted; any
difference leaves the extraction error standing (fail closed).
"""
import json
import os
import subprocess
import sys
from fractions import Fraction as Fr

from vf import core

AXES = {
    'len2': [Fr(0), Fr(1)],
    'uniform': [Fr(-1), Fr(-1, 2), Fr(0), Fr(1, 2)],
    'nonuniform': [Fr(-1), Fr(0), Fr(1, 4), Fr(9, 4), Fr(25, 4)],
}


def axis_points(c):
    h0, hl = c[1] - c[0], c[-1] - c[-2]
    pts = [c[0] - h0 / 2, c[0] - 3 * h0, c[0] - h0 / 8, c[-1] + hl / 4, c[-1] + 3 * hl, c[-1] + hl]
    pts += list(c)
    for a, b in zip(c, c[1:]):
        for t in (Fr(1, 2), Fr(1, 4), Fr(3, 4), Fr(1, 8), Fr(7, 8), Fr(3, 8), Fr(5, 8)):
            pts.append(a + (b - a) * t)
    return pts


def probe_cases():
    cases = []
    names = list(AXES)
    for d in (1, 2, 3):
        combos = [[n] for n in names] if d == 1 else \
            [['uniform', 'nonuniform'], ['nonuniform', 'len2'], ['len2', 'uniform']] if d == 2 else \
            [['nonuniform', 'len2', 'uniform'], ['uniform', 'uniform', 'nonuniform']]
        for combo in combos:
            coords = [AXES[n] for n in combo]
            per_axis = [axis_points(c) for c in coords]
            N = max(len(p) for p in per_axis)
            # pair the per-axis lists cyclically with different strides so that branches mix
            pts = [[per_axis[j][(k * (j + 1)) % len(per_axis[j])] for k in range(N)]
                   for j in range(d)]
            cases.append(dict(coords=[[str(x) for x in c] for c in coords],
                              pts=[[str(x) for x in p] for p in pts]))
    return cases


LIVE_SCRIPT = r'''
import json, sys, warnings
from fractions import Fraction as Fr
import numpy as np
from odl.discr import discr_utils as du
cases = json.loads(sys.stdin.read())
out = {'cases': [], 'cast': []}
for c in cases:
    cv = [np.array([float(Fr(t)) for t in ax]) for ax in c['coords']]
    x = np.array([[float(Fr(t)) for t in row] for row in c['pts']])
    shape = tuple(len(a) for a in cv)
    vals = np.arange(int(np.prod(shape)), dtype='int64').reshape(shape)
    res = {}
    with warnings.catch_warnings():
        warnings.simplefilter('ignore')
        itp = du._NearestInterpolator(cv, vals, 'array')
        idx, nd = itp._find_indices(x.copy())
        res['i'] = [[int(t) for t in np.asarray(a).ravel()] for a in idx]
        res['nd'] = [[str(Fr(float(t))) for t in np.asarray(a, dtype=float).ravel()] for a in nd]
        idx, nd = itp._find_indices(x.copy())
        r1 = itp._evaluate(idx, nd)
        res['ev'] = [int(t) for t in np.asarray(r1).ravel()]
        idx, nd = itp._find_indices(x.copy())
        o = np.full(x.shape[1], -1, dtype='int64')
        r2 = itp._evaluate(idx, nd, out=o)
        res['ev_out'] = [int(t) for t in o.ravel()]
        res['out_returned'] = bool(r2 is o)
    out['cases'].append(res)
# the cast of the points: which value dtypes make the points take the value dtype (no warning),
# and do the normalised distances keep full float64 precision
cv = [np.array([0.0, 1.0, 2.0])]
p = 0.25 + 2.0 ** -30
for dt in ('float64', 'float32', 'complex128', 'complex64', 'int64', 'uint8', 'U1', 'U32', 'object'):
    vals = np.zeros(3, dtype=dt) if not dt.startswith('U') else np.array(['a', 'b', 'c'], dtype=dt)
    rec = {'dtype': dt}
    try:
        with warnings.catch_warnings(record=True) as wl:
            warnings.simplefilter('always')
            itp = du._NearestInterpolator(cv, vals, 'array')
            idx, nd = itp._find_indices(np.array([[p, 1.5]]))
        rec['warned'] = any('Unable to infer accurate dtype' in str(w.message) for w in wl)
        z = complex(np.asarray(nd[0]).ravel()[0])
        rec['nd_exact'] = bool(z.real == p and z.imag == 0.0)
        rec['i'] = [int(t) for t in np.asarray(idx[0]).ravel()]
    except Exception as e:
        rec['error'] = type(e).__name__ + ': ' + str(e)[:100]
    out['cast'].append(rec)
print(json.dumps(out))
'''


def probe(repo, part):
    """returns (ok, detail).  `part` in {'find_indices', 'nearest_rule'} (both probe the same
    calls; the part decides which results are compared)."""
    cases = probe_cases()
    env = dict(os.environ)
    env['PYTHONPATH'] = repo
    env['PYTHONDONTWRITEBYTECODE'] = '1'
    try:
        p = subprocess.run([sys.executable, '-c', LIVE_SCRIPT], input=json.dumps(cases), env=env,
                           stdout=subprocess.PIPE, stderr=subprocess.PIPE, text=True, timeout=300)
    except subprocess.TimeoutExpired:
        return False, 'live probe timed out'
    if p.returncode != 0:
        return False, 'live probe failed: ' + p.stderr[-300:]
    live = json.loads(p.stdout)
    # the model's answers (hand model = extracted program by the tie theorems)
    lines = []
    for c in cases:
        for ax, row in zip(c['coords'], c['pts']):
            lines.append('probe c={} x={}'.format(','.join(core.fs(Fr(t)) for t in ax),
                                                  ','.join(core.fs(Fr(t)) for t in row)))
    try:
        ok, log = core.lake_build(['OdlModel.Gen.InterpEdges', 'OdlModel.Model.Sampling'])
        if not ok:
            return False, 'model does not build: ' + log[-200:]
        outs = core.run_driver('C15', lines)
    except Exception as e:  # noqa
        return False, 'driver unavailable: {}'.format(e)
    k = 0
    npts = 0
    for c, res in zip(cases, live['cases']):
        dims = [len(ax) for ax in c['coords']]
        js = []
        for j in range(len(dims)):
            ans = outs[k]
            k += 1
            if not ans.startswith('ok '):
                return False, 'model answered ' + ans
            f = dict(t.split('=', 1) for t in ans.split()[1:])
            mi = [int(t) for t in f['i'].split(',')]
            mnd = [str(core.pfrac(t)) for t in f['nd'].split(',')]
            js.append([int(t) for t in f['j'].split(',')])
            if part == 'find_indices':
                if res['i'][j] != mi:
                    bad = [q for q, (a, b) in enumerate(zip(res['i'][j], mi)) if a != b][0]
                    return False, 'cell index differs on axis {} at point {}: live {} model {}'.format(
                        c['coords'][j], c['pts'][j][bad], res['i'][j][bad], mi[bad])
                if res['nd'][j] != mnd:
                    bad = [q for q, (a, b) in enumerate(zip(res['nd'][j], mnd)) if a != b][0]
                    return False, 'normalised distance differs on axis {} at point {}: live {} model {}'.format(
                        c['coords'][j], c['pts'][j][bad], res['nd'][j][bad], mnd[bad])
        if part == 'nearest_rule':
            N = len(c['pts'][0])
            exp = []
            for q in range(N):
                flat = 0
                for j, n in enumerate(dims):
                    flat = flat * n + js[j][q]
                exp.append(flat)
            for name in ('ev', 'ev_out'):
                if res[name] != exp:
                    bad = [q for q, (a, b) in enumerate(zip(res[name], exp)) if a != b][0]
                    return False, 'nearest node differs ({}) at point {}: live flat index {} model {}'.format(
                        name, [row[bad] for row in c['pts']], res[name][bad], exp[bad])
            if not res['out_returned']:
                return False, '_evaluate(out=o) does not return o'
        npts += len(c['pts'][0])
    if part == 'find_indices':
        # canonical cast table: points take the value dtype (no warning) iff numeric and safely
        # castable from float64; precision is never lost; no error
        want_cast = {'float64': True, 'complex128': True}
        for rec in live['cast']:
            if 'error' in rec:
                return False, 'cast probe raised for {}: {}'.format(rec['dtype'], rec['error'])
            if (not rec['warned']) != want_cast.get(rec['dtype'], False):
                return False, 'cast probe: dtype {} warned={}'.format(rec['dtype'], rec['warned'])
            if not rec['nd_exact'] or rec['i'] != [0, 1]:
                return False, 'cast probe: dtype {} lost precision / wrong cell: {}'.format(rec['dtype'], rec)
    return True, 'probe grid: {} cases (1-3 d; axes len2/uniform/nonuniform), {} points, out given and not, ' \
                 '{} value dtypes: equal to the model'.format(len(cases), npts, len(live['cast']))
