"""Translator: odl/set/space.py::LinearSpaceElement.__add__ … __itruediv__  ->  OdlModel/Gen/OpFront.lean

Extracts, for each of the twelve arithmetic operator methods, the decision chain IN FRONT of the
arithmetic: the `__array_priority__` delegation, `field is None`, `other in self.space`,
`isinstance(other, LinearSpaceElement)`, `other in self.space.field`, `one is None`, and the
coercion `try: other = self.space.element(other) except (TypeError, ValueError): … else: re-enter`.
A branch that calls `self.space.lincomb / multiply / divide` is the leaf `write` (what it writes is
the business of Model/ElemOps.lean::Op.exec).  Anything outside this vocabulary: ExtractionError.
"""
import ast
import os

from vf import core


class ExtractionError(Exception):
    pass


METHODS = ['add', 'radd', 'sub', 'rsub', 'mul', 'rmul', 'truediv', 'rtruediv',
           'iadd', 'isub', 'imul', 'itruediv']
TESTS = {
    "getattr(other, '__array_priority__', 0) > self.__array_priority__": 'prio',
    'self.space.field is None': 'noField',
    'other in self.space': 'inSpace',
    'isinstance(other, LinearSpaceElement)': 'isElem',
    'other in self.space.field': 'inField',
    'one is None': 'noOne',
}


def _u(n):
    return ast.unparse(n)


def _is_space_call(node):
    return (isinstance(node, ast.Call) and isinstance(node.func, ast.Attribute) and
            _u(node.func.value) == 'self.space' and node.func.attr in ('lincomb', 'multiply', 'divide'))


def tr(stmts, meth):
    stmts = [s for s in stmts if not (isinstance(s, ast.Expr) and isinstance(s.value, ast.Constant))]
    if not stmts:
        raise ExtractionError('{}: empty branch'.format(meth))
    s0 = stmts[0]
    if isinstance(s0, ast.If) and (len(stmts) == 1 or not s0.orelse):
        t = _u(s0.test)
        if t not in TESTS:
            raise ExtractionError('{}: unknown test {!r}'.format(meth, t))
        if s0.orelse:
            orelse = s0.orelse
        else:
            # `if c: return/raise …` followed by the rest of the function
            if len(stmts) == 1 or not isinstance(s0.body[-1], (ast.Return, ast.Raise)):
                raise ExtractionError('{}: if without else that falls through'.format(meth))
            orelse = stmts[1:]
        return '(.ite .{} {} {})'.format(TESTS[t], tr(s0.body, meth), tr(orelse, meth))
    if isinstance(s0, ast.Assign) and _u(s0) == "one = getattr(self.space, 'one', None)":
        return tr(stmts[1:], meth)
    if isinstance(s0, ast.Try) and len(stmts) == 1:
        if [_u(b) for b in s0.body] != ['other = self.space.element(other)'] or len(s0.handlers) != 1 \
                or _u(s0.handlers[0].type) != '(TypeError, ValueError)' or s0.finalbody:
            raise ExtractionError('{}: coercion block changed'.format(meth))
        return '(.coerce {} {})'.format(tr(s0.handlers[0].body, meth), tr(s0.orelse, meth))
    if len(stmts) == 1 and isinstance(s0, ast.Return):
        v = s0.value
        if _u(v) == 'NotImplemented':
            return '(.ret .notimpl)'
        if isinstance(v, ast.Call) and isinstance(v.func, ast.Attribute) and len(v.args) == 1:
            name = v.func.attr.strip('_')
            if _u(v.func.value) == 'other' and _u(v.args[0]) == 'self' and name in METHODS:
                return '(.ret (.delegate .{}))'.format(name)
            if _u(v.func.value) == 'self' and _u(v.args[0]) == 'other' and name in METHODS:
                return '(.reenter .{})'.format(name)
    if len(stmts) == 1 and isinstance(s0, ast.Raise) and _u(s0.exc).startswith('TypeError('):
        return '(.ret .typeerror)'
    # a writing leaf: temporaries, calls of the space primitives, and a final return of one
    ok = isinstance(stmts[-1], ast.Return) and _is_space_call(stmts[-1].value)
    for s in stmts[:-1]:
        if isinstance(s, ast.Assign) and _u(s.targets[0]) == 'tmp' and \
                _u(s.value) in ('self.space.element()', 'one()'):
            continue
        if isinstance(s, ast.Expr) and _is_space_call(s.value):
            continue
        ok = False
    if ok:
        return '(.ret .write)'
    raise ExtractionError('{}: statement outside the vocabulary: {!r}'.format(
        meth, '; '.join(_u(s) for s in stmts)[:200]))


def extract(repo=core.REPO):
    path = os.path.join(repo, 'odl', 'set', 'space.py')
    tree = ast.parse(open(path).read())
    cls = [n for n in tree.body if isinstance(n, ast.ClassDef) and n.name == 'LinearSpaceElement']
    if len(cls) != 1:
        raise ExtractionError('LinearSpaceElement not found')
    defs = {n.name: n for n in cls[0].body if isinstance(n, ast.FunctionDef)}
    rows = []
    for m in METHODS:
        fn = defs.get('__{}__'.format(m))
        if fn is None or [a.arg for a in fn.args.args] != ['self', 'other']:
            raise ExtractionError('__{}__ not found / signature changed'.format(m))
        rows.append('  | .{} => {}'.format(m, tr(fn.body, m)))
    # the Python-2 / alias names must still be bound to the same functions
    aliases = {_u(n.targets[0]): _u(n.value) for n in cls[0].body
               if isinstance(n, ast.Assign) and len(n.targets) == 1}
    for a, b in (('__div__', '__truediv__'), ('__rdiv__', '__rtruediv__'), ('__idiv__', '__itruediv__')):
        if aliases.get(a) != b:
            raise ExtractionError('alias {} = {} missing'.format(a, b))
    return """/- GENERATED by tools/extract/opfront.py from odl/set/space.py — do not edit. -/
import OdlModel.Model.ElemOps
namespace OdlModel.Gen.OpFront
open OdlModel.ElemOps

/-- The decision chain in front of each operator method of `LinearSpaceElement`, as written. -/
def progOf : Meth → OStmt
{}

end OdlModel.Gen.OpFront
""".format('\n'.join(rows))


def regenerate(repo=core.REPO):
    return core.write_if_changed(os.path.join(core.LEAN, 'OdlModel', 'Gen', 'OpFront.lean'),
                                 extract(repo))


if __name__ == '__main__':
    print(extract())
