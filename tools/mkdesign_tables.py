#!/usr/bin/env python3
"""Regenerates the machine-maintained tables of DESIGN.md (between <!-- BEGIN x --> / <!-- END x -->
markers) from known_findings.json, seeded/*/meta.json, evidence/*.json and the Lean sources."""
import glob
import json
import os
import re

HERE = os.path.dirname(os.path.dirname(os.path.abspath(__file__)))


def findings_tables():
    d = json.load(open(os.path.join(HERE, 'known_findings.json')))
    out = ['### 8.1 Open known findings (reported as `KNOWN-FINDING`, never re-raised as violations)', '']
    if d['findings']:
        out += ['| id | property | what fails (specific input / call site) | why not repaired |', '|---|---|---|---|']
        for f in sorted(d['findings'], key=lambda f: (f['property'], f['id'])):
            what = f['what'].replace('|', '\\|').replace('\n', ' ')
            why = f.get('why_not_fixed', '').replace('|', '\\|').replace('\n', ' ')
            out.append('| {} | {} | {} | {} |'.format(f['id'], f['property'], what[:600], why[:500]))
    else:
        out.append('(none)')
    out += ['', '### 8.2 Genuine defects repaired in /repo (one `fix:` commit each; suppress nothing)', '']
    for s in d['fixed']:
        out.append('* ' + s.replace('\n', ' '))
    return '\n'.join(out)


def seeded_table():
    rows = []
    for m in sorted(glob.glob(os.path.join(HERE, 'seeded', '*', 'meta.json'))):
        j = json.load(open(m))
        sid = os.path.basename(os.path.dirname(m))
        cr = j.get('check_result', {})
        if 'no longer applies' in (cr.get('how') or ''):
            res = 'patch no longer applies to /repo HEAD (the code it changes was repaired since)'
        elif 'patched exit 0' in (j.get('demo_at_recheck') or '') and not cr.get('detected'):
            res = 'no longer a defect on /repo HEAD (its own demo passes with the patch): equivalent mutant'
        elif cr.get('detected'):
            res = '**detected** ({})'.format(cr.get('how', ''))
        else:
            res = '**missed**'
        rows.append('| {} | {} | {} | {} | {} |'.format(
            sid, j.get('property', ''), (j.get('summary', '') or '').replace('|', '\\|')[:200],
            (j.get('needs', '') or '').replace('|', '\\|')[:200], res))
    head = ['| seed | property | change | needs, to manifest | check result (quick tier) |', '|---|---|---|---|---|']
    return '\n'.join(head + rows)


def neutral_table():
    rows = []
    for m in sorted(glob.glob(os.path.join(HERE, 'neutral', '*', 'meta.json'))):
        j = json.load(open(m))
        sid = os.path.basename(os.path.dirname(m))
        cr = j.get('check_result', {})
        if not cr.get('detected'):
            res = 'silent'
        elif 'no-failing-input-found' in cr.get('how', ''):
            res = 'tie broken: VIOLATION … no-failing-input-found ({})'.format(
                '; '.join(cr.get('first_reports', [])[:1])[:160].replace('|', '\\|'))
        else:
            res = '**FALSE ALARM** ({})'.format('; '.join(cr.get('first_reports', [])[:1])[:160].replace('|', '\\|'))
        rows.append('| {} | {} | {} | {} |'.format(
            sid, j.get('property', ''), (j.get('summary', '') or '').replace('|', '\\|')[:300], res))
    head = ['| rewrite | property | what was rewritten (behaviour unchanged) | check result (quick tier) |', '|---|---|---|---|']
    return '\n'.join(head + rows)


def status_table():
    rows = []
    man = json.load(open(os.path.join(HERE, 'MANIFEST.json')))
    for c in man['checks']:
        pid = c['property_id']
        props = os.path.join(HERE, 'lean', 'OdlModel', 'Props', pid + '.lean')
        nthm = 0
        if os.path.exists(props):
            nthm = len(re.findall(r'^theorem\s', open(props).read(), flags=re.M))
        ev = {}
        try:
            ev = json.load(open(os.path.join(HERE, 'evidence', pid + '.json')))
        except Exception:
            pass
        cov = ev.get('coverage', {})
        rows.append('| {} | {} | {}/{} | {} | {} | {} | {} |'.format(
            pid, nthm, cov.get('discharged', '?'), cov.get('obligations', '?'),
            cov.get('evaluations', '?'), cov.get('distinct_nontrivial', '?'),
            ', '.join(cov.get('known_findings_seen', [])) or '-', ev.get('wall_s', '?')))
    head = ['| property | theorems in Props | obligations discharged (last committed run) | evaluations | distinct non-trivial | known findings seen | wall s |',
            '|---|---|---|---|---|---|---|']
    return '\n'.join(head + rows)


def asbuilt():
    man = json.load(open(os.path.join(HERE, 'MANIFEST.json')))
    out = []
    for c in man['checks']:
        out.append('**{}** — *{}*'.format(c['property_id'], c.get('technique', '')))
        out.append('')
        out.append('Claim: ' + c['level_claimed']['text'])
        out.append('')
        out.append('Tie / trusted: ' + c['level_note'].split('The model is tied to /repo by ')[-1])
        out.append('')
    return '\n'.join(out)


def main():
    path = os.path.join(HERE, 'DESIGN.md')
    s = open(path).read()
    for name, fn in [('FINDINGS', findings_tables), ('SEEDED', seeded_table), ('STATUS', status_table), ('ASBUILT', asbuilt),
                     ('NEUTRAL', neutral_table)]:
        b, e = '<!-- BEGIN {} -->'.format(name), '<!-- END {} -->'.format(name)
        if b in s and e in s:
            s = s[:s.index(b) + len(b)] + '\n' + fn() + '\n' + s[s.index(e):]
    open(path, 'w').write(s)
    print('DESIGN.md tables regenerated')


if __name__ == '__main__':
    main()
