#!/bin/sh
# tools/run_all.sh [quick|thorough] [parallelism]  — run every claimed check, summarise exit codes.
HERE="$(cd "$(dirname "$0")/.." && pwd)"
cd "$HERE" || exit 2
TIER="${1:-quick}"; P="${2:-6}"
mkdir -p out/logs
python3 -c "import json; print('\n'.join(c['property_id'] for c in json.load(open('MANIFEST.json'))['checks']))" |
  xargs -P "$P" -I{} sh -c "start=\$(date +%s); ./check {} --tier $TIER > out/logs/{}.$TIER.log 2>&1; rc=\$?; end=\$(date +%s); echo {} rc=\$rc \$((end-start))s \$(grep -c '^VIOLATION' out/logs/{}.$TIER.log) violation-lines \$(grep -c '^KNOWN-FINDING' out/logs/{}.$TIER.log) known"
