#!/usr/bin/env python3
"""Regenerates MANIFEST.json from the table below (kept valid at all times)."""
import json
import os

HERE = os.path.dirname(os.path.dirname(os.path.abspath(__file__)))
BASE = ("cd /repo && /venv/bin/python -m pytest -ra -q -p no:cacheprovider --timeout=900 "
        "--continue-on-collection-errors")

COMMON_NOTE = ("Trusted: Lean 4.33 kernel (+ leanchecker in the thorough tier); axioms limited to "
               "propext/Classical.choice/Quot.sound, audited by #print axioms on every run; no "
               "sorry/admit/native_decide/own axioms (source grep on every run). The theorems are "
               "about the Lean model; the model is tied to /repo by ")

CHECKS = {
    'C01': dict(
        technique='Lean 4 theorem over the dispatch program regenerated from the Python AST + '
                  'differential correspondence model-vs-code',
        text='Theorem C01.lincomb_correct: for every commutative ring, size/regime, identity-alias '
             'pattern, scalars and contents, the dispatch program EXTRACTED from _lincomb_impl on '
             'this run yields out = a*x1+b*x2 entry-wise and leaves other buffers untouched '
             '(plus frame and out-independence corollaries). The element-operator layer '
             '(+,-,*,/, in-place, scalar broadcast, **, copy/assign/zero/one on tensor, discretized '
             'and nested product spaces) is tied by correspondence to the entry-wise specification '
             'evaluated in the Lean driver and by an independent exact-rational oracle; that layer '
             'is not yet a theorem (partial).',
        note='the AST translator tools/extract/lincomb.py and an exact (dyadic-grid, tolerance 0) '
             'differential run of space.lincomb against the Lean execution of the extracted '
             'program; rounding, BLAS and NumPy ufunc internals are modelled as exact entry-wise '
             'maps; identity aliasing only.',
        design='6/C01'),
}

CHECKS['C01']['text'] = (
    'Theorems (any commutative ring, any size/regime, any buffer ids i.e. all 5 identity-alias patterns, all scalars, all '
    'contents): C01.lincomb_correct / _frame / _out_independent for the dispatch program EXTRACTED from _lincomb_impl on this '
    'run; C01.elem_op_correct and C01.ipow_correct: every LinearSpaceElement operator (+,-,*,/ with element or scalar, '
    'reflected and in-place forms, neg, pos/copy, assign, set_zero, **n by the code\'s even/odd recursion) modelled statement '
    'for statement over a _lincomb that satisfies the spec yields the entry-wise formula, returns the right object and '
    'touches nothing else; C01.plincomb_correct: ProductSpace._lincomb is correct component-wise for any number of '
    '(nested, flattened) parts under identity aliasing. Tie: translator + exact correspondence of space.lincomb, the operators '
    'and product-space lincomb against the Lean executions. Partial: NumpyTensor/DiscretizedSpace overrides of __ipow__/copy '
    'and array-like operand coercion are tied by correspondence/oracle only.')

CHECKS.update({
'C13': dict(
    technique='Lean 4 proof over AST-extracted stencil tables + exact differential correspondence',
    text='21 theorems over any field (incl. C) and ALL axis lengths: fd_eq_stencil_ext (model output = textbook stencil on the '
         'padded array / dx for constant/symmetric/periodic/order0/order1 x 3 methods and central order2; order2_edge_rule for '
         'the documented 2nd-order edges), size_ok_iff, fd_adjoint_transpose/fd_adjoint_entry (all 30 method x pad leaves incl. '
         'adjoint modes: sum g(Df) = -sum f(D\'g), via summation by parts + a verified finite corner checker decided over the '
         'GENERATED tables), adj_involutive (decide on extracted dicts), fd_affine/pd_affine (derivative of constant padding = '
         'zero padding), pd_adjoint, grad_div_adjoint, div_grad_adjoint, laplacian_selfadjoint (ndim<=3, any shape), '
         'fd_adjoint_hermitian. Interior bands, all boundary leaves, guards, _ADJ_METHOD/_ADJ_PADDING, supported lists and the '
         'text of the operator _call/adjoint/derivative bodies are regenerated from diff_ops.py every run.',
    note='translator tools/extract/finite_diff.py (AST grammar; anything outside it is a broken obligation) and exact '
         'correspondence of full matrices/offsets of finite_diff and of the four operator classes on 1-3 d uniform_discr; NumPy '
         'swapaxes/slicing identified with line-wise action (tested); exact arithmetic; "symmetric" = edge replication as coded; '
         'order1/order2 edges follow the documented edge-order rule (a literal forward/backward stencil reading of order2 is '
         'proved NOT to hold: order2_forward_edge_differs); ndim<=3; uniform weighting.',
    design='6/C13'),
'C14': dict(
    technique='Lean 4 proof over an executable rational model of partition/grid/domain/normalize + differential correspondence',
    text='24 theorems over Rat, all n: wf_iff_valid, bdry_ends, bdry_strict_mono, node_in_own_cell, cell_size_is_width, '
         'cell_sizes_sum_partial (n>=2; n=1 is finding C14-F2 with proved counterexample), bdry_fraction_formula, '
         'uniform_node_placement, uniform_side_times_count (all 4 flag combos), index_correct (+floating index), index_outside, '
         'getitem_slice/getitem_cells/getitem_int/getitem_full, squeeze_cells, insert_append_cells, nonuniform_limits, '
         'uniform_spec_agree, uniform_flags_agree_partial (flat 1-d flag pair is finding C14-F1 with counterexample). '
         'byaxis, list indexing, squeeze(axis), uniform_partition_fromgrid: modelled and tied, not proved.',
    note='hand-written model tied by exact (dyadic) / 1e-9 (decimal) correspondence over 11 operations, 12k cases quick / 150k '
         'thorough, dims 1-3, all flags, negative/stepped/ellipsis/list indices; np.searchsorted/linspace/slicing modelled by '
         'their specifications; isclose tolerances and the 1e-5 integrality epsilon are parameters.',
    design='6/C14'),
'C18': dict(
    technique='Lean 4 proofs over an executable model + generated pad-mode table + differential correspondence',
    text='31 theorems: reciprocal/real grid algebra for all n, parities, shifts (recip_grid_uniform, recip_halfcomplex_prefix, '
         'recip_real_roundtrip, halfcomplex_shape_roundtrip, interp_freqs_match_grid); over any field with a primitive n-th root '
         'of unity: dft_inverse (coded sign/normalisation), dft_backends_agree (numpy vs pyfftw branches), dft_hermitian, '
         'halfcomplex_roundtrip; phase_factorisation (exponents mod 2), ft_inverse_factors; wavelets: ravel_unravel_id, crop_rule, '
         'pad_table_sound/documented (decide over the generated table), wavelet_adjoint_scale (given an isometric W). Six defect '
         'classes (F18a-f) are excluded from the claims by _partial theorems with proved counterexamples and reproduced every '
         'run as known findings. Not proved: Gaussian convergence (measured), PyWavelets PR/orthogonality (assumed, measured), '
         'n-d composition (fibre-wise, tested).',
    note='translator tools/extract/waveletpad.py; numpy.fft/pyFFTW as naive root-of-unity sums with documented plan '
         'normalisation and PyWavelets wavedecn/waverecn/ravel as parameters (compared on every case); exact for axis lengths '
         '1/2/4 with integer data, tolerance 1e-9*scale (float64) / 2e-4 (float32) elsewhere; reciprocal-grid and fmin/fmax tables '
         'hand-modelled and tied by correspondence.',
    design='6/C18'),
'C20': dict(
    technique='Lean 4 proof on an executable descriptor model; dtype tables by translator; all-pairs correspondence on a live zoo',
    text='28 theorems, unbounded in shape/axes/nesting: eq equivalence for weightings, interval products (equal ndim), grids, '
         'partitions, tensor/discretized/nested product spaces (space_eq_equivalence incl. cross-class pairs), eq => equal hash '
         '(partial where the code is defective: C20-F1..F3 with proved counterexamples), mem_iff_space_eq, element_idem, '
         'element_values/shape errors, astype_descr, real_complex_involution (re-checked against the GENERATED dtype tables), '
         'byaxis_descr, pspace_index_descr_partial (C20-F4), composite_eq_equivalence_partial. Tested only: frozenset-hash '
         'consistency of SetUnion/SetIntersection/FiniteSet, FiniteSet equivalence, element indexing vs asarray, byaxis_in.',
    note='translator tools/extract/dtypes.py (TYPE_MAP_R2C/C2R, is_*_dtype truth tables); harness `describe` reads live '
         'attributes into descriptors (trusted); ~350 live objects, all ~120k ordered pairs and all triples (transitivity by '
         'boolean matrix product) compared; NaN excluded; hashes compared with array contents fixed.',
    design='6/C20'),
'C19': dict(
    technique='Lean 4 proofs over commutative rings / ordered fields of a polynomial (cos,sin) model + differential correspondence',
    text='29 theorems for all parameters under c^2+s^2=1 and unit axes: rot_orthonormal_2d/_euler/_axis (R^T R = 1, det 1), '
         'rot_axis_fixed, from_to_maps, circular/curved detector alignment, det_point_decomp, src_det_consistent, normalised_unit, '
         'parallel_dir_const, parallel_dir_orth_axes, det_axes_rotated, fan_radii/cone_radii (incl. helical offset), '
         'frommatrix_initial/_consistent(_2d), factory_covers_volume_parallel, fan_det_coord, vectorised_shape_*; partial with '
         'proved counterexamples where the code is defective (getitem with translation F19a/b, fan/cone factory coverage F19c, '
         'shape logic F19d/e).',
    note='no translator; model fed with exact rationals of the stored attributes and of the float cos/sin of the real objects; '
         'correspondence on the general stream 1e-12*(1+scale); einsum/broadcast/squeeze, transform_system, collinear branches of '
         'rotation_matrix_from_to and factory coverage of volume corners are oracle-tested only.',
    design='6/C19'),
'C08': dict(
    technique='Lean 4 theorems on Fenchel-Young pairs and the coded conjugation rules + differential correspondence + oracles',
    text='Theorems (any real inner-product space, i.e. any weighting): each convex_conj rule of the derived classes preserves '
         'Fenchel-Young with equality on the subgradient relation (left/right scalar, scalar sum, translation, linear '
         'perturbation, right vector, separable, inf-conv inequality); moreau_identity + resolvent_unique; built-in pairs L2^2, '
         'L2, Constant/IndicatorZero, L1 / Linf-ball indicator (weighted lists, all n), QuadraticForm with the factor 1/4; '
         'conj_sound_partial: tree-level soundness on a fragment (QuadraticForm-with-operator excluded: finding F5 with proved '
         'counterexample). KL, Lp, group norms, SeparableSum, Huber pair and f**=f: correspondence/oracle only.',
    note='hand-written expression model (Model/Functionals.lean) tied by serialising live ODL functionals (class+attributes) and '
         'comparing f(x), f*(y), f**(x) exactly on the dyadic stream / 1e-9 on the general stream over 9 spaces (weighted rn, '
         'uniform_discr with cell volume != 1, product spaces); np.linalg.inv checked exactly by the driver.',
    design='6/C08'),
'C09': dict(
    technique='Lean 4 theorems (Mathlib HasGradientAt) over the expression model of functional.py + correspondence + FD/Lipschitz oracles',
    text='Theorems for all expression trees and every real Hilbert space: grad_sound (the coded gradient is the gradient of the '
         'coded value under stated side conditions, by induction with chain/product/quotient rules), derivative_eq_inner_grad, '
         'grad_comp, grad_moreau_envelope, lipschitz_sound (the propagated grad_lipschitz is a valid bound whenever finite: '
         '|s|L, |s|^2 L, L1+L2, L, L+2|a|, 1/gamma, 2, 0), huber_lipschitz on weighted lists, and lip_right_scalar_abs_fails (the '
         'pre-fix constant is not a bound). Partial: derivatives of L1/L2-norm/Huber/KL leaf values are hypotheses, tested by '
         'finite differences only.',
    note='same serialiser/driver as C08: value, gradient, derivative and grad_lipschitz of live functionals compared with the '
         'model; oracle: central differences (h=2^-k, Richardson) and random point pairs for the Lipschitz ratio.',
    design='6/C09'),
'C05': dict(
    technique='Lean 4 proof over an executable adjoint model + exact full-matrix oracle on the real code',
    text='Proved for all sizes, per-entry weights, fields with involution and unbounded tree depth: adj_sound (the adjoint rules '
         'of Sum, Comp, Left/RightScalarMult, Left/RightVectorMult, FunctionalLeftVectorMult, ProductSpaceOperator, Broadcast, '
         'Reduction, Diagonal preserve <Ax,y>_ran = <x,A*y>_dom; real-part pairing for mixed real/complex trees), leaf lemmas '
         '(Scaling, Zero, Multiply incl. field variants, InnerProduct, Matrix with equal const weights, PointwiseInner/Adjoint, '
         'Sampling<->WeightedSumSampling with duplicates, Flattening), adj_type, adj_adj_partial; sharp negatives '
         '(matrix_adj_fails etc.) for the recorded findings. Opaque leaves (finite differences, Resizing, Fourier, wavelets, '
         'RealPart/ImagPart/ComplexEmbedding, ComponentProjection): decided exactly on small spaces by the full-matrix oracle '
         'G_ran*A = (A*)^H*G_dom, not by theorem.',
    note='hand-written model; trusted: element flattening and unit-vector extraction, NumPy/FFT/PyWavelets kernels; dyadic '
         'entries so the matrix oracle is exact (1e-9 for Fourier/wavelets); Resampling, RayTransform, LinDeform* exempt.',
    design='6/C05'),
'C06': dict(
    technique='Lean 4 proof over dual numbers + translator of the ufunc derivative table + differential test + central-difference oracle',
    text='Theorems for all trees/depths/dimensions/commutative rings: deriv_sound_poly (running the tree on x + eps d over '
         'R[eps]/(eps^2) gives <op(x), derivative(x)(d)>: pins every inner point, scalar and block slice of the coded chain/'
         'product/sum rules over 24 constructors), deriv_is_linear, flagged_linear_is_linear, deriv_linear, deriv_affine, '
         'central_diff_poly_partial (no first-order error term: O(h^2) for the polynomial world), ufunc_table_sound (every '
         'EXTRACTED (f,f\') pair is HasDerivAt in Mathlib) and ufunc_op_hasFDerivAt on R^n. Not proved: general HasFDerivAt '
         'soundness and analytic leaf lemmas (norms, moduli, PointwiseNorm): covered by the sampled central-difference oracle.',
    note='translator tools/extract/ufunc_deriv.py; exact differential stream of random typed trees built with the real '
         'constructors on integer data (magnitudes < 2^50); zoo of 40 classes implementing derivative checked by central '
         'differences h=2^-4..2^-14 with Richardson rate; LinDeform* exempt.',
    design='6/C06'),
'C03': dict(
    technique='Lean 4 proof by structural induction over a buffer-language model of Operator.__call__ + correspondence + introspected zoo',
    text='Theorems (any commutative ring, unbounded depth): call_in_place, call_out_of_place, call_protocol_partial, '
         'out_content_irrelevant, call_casts_input, call_rejects (domain/range/type error before any write) for expression trees '
         'over leaves satisfying the leaf contract, the three _call signature classes and both default bridges. Partial: the '
         'contract demands a fresh out-of-place result and ring scalars exclude NaN/inf junk; both exclusions are witnessed by '
         'real defects (C03-F1, C03-F2) with proved counterexamples. 198 of 216 introspected classes are opaque leaves: their '
         'contract is established on sampled inputs only (test).',
    note='hand-written model (Model/Call.lean) tied by a dispatch stream (~300 synthetic operators through the real '
         'Operator.__call__) and a tree stream over modelled leaves; product-space combinators, FunctionalLeftVectorMult and '
         'user temporaries are zoo-tested only; in-place vs out-of-place compared at 1e-9 relative.',
    design='6/C03'),
'C10': dict(
    technique='Lean 4 proof by symbolic execution of statement-for-statement straight-line programs + correspondence',
    text='alias_safe: every _call body of proximal_operators.py (13 proximal classes with all g/sigma/lower/upper branches and '
         'copy guards), ProximalSimplex/Sum and Scaling/LinComb/Multiply/Constant/Zero/Power is alias safe for all inputs and '
         'all element-wise functions (alias_safe_ieee: with no algebraic hypothesis for all but ProximalL2); '
         'out_junk_independent, frame, alias_safe_tree (lifted through the C03 combinators), l1_without_guard_fails '
         '(sensitivity). Calculus wrappers, combine_proximals and .proximal of 37 functionals: oracle-tested.',
    note='hand-written programs tied by running real non-aliased and aliased calls and the two model runs at Float on all '
         'buffers; the set of in-place Operator classes is read from the module AST and checked against the model table (an '
         'uncovered class breaks the obligation); assumes lincomb meets its C01 spec.',
    design='6/C10'),
})

CHECKS.update({
'C16': dict(
    technique='Lean 4 proof over an executable slice-level model; slice arithmetic regenerated from source; correspondence + np.pad/transpose oracle',
    text='18 theorems for all sizes, offsets, contents and pad modes (any commutative ring): guards_are_documented_limits, '
         'pad_eq_nppad (constant/wrap/reflect/edge entry for entry, order1 = linear extrapolation), resize_intersection, '
         'crop_extend_id, adjoint_transpose (one axis, every mode) and adjoint_transpose_nd (any number of axes, grow/shrink '
         'mixes, by fibre lifting), nd_accepts_iff, order1_linear_extrapolation; operator: range_cell_unchanged (all 16 '
         'nodes_on_bdry combos), range_grid_min, range_covers_domain, range_grid_aligned_partial and weighted_adjoint_partial '
         '(the excluded cases are findings C16-F1/F2 with proved counterexamples). n-d identification with NumPy slicing, dtype/out '
         'handling and the ResizingOperator wrappers are tied by exact correspondence / oracle.',
    note='translator tools/extract/padslices.py (_padding_slices_inner/_outer by symbolic evaluation, supported modes); the lemmas '
         'are proved over the generated slices; exact correspondence on integer-valued arrays dims 1-3, all admissible offsets '
         'and the limit paddings +-1; np.pad index formulas compared with the Lean reference each run; commutation of per-axis '
         'adjoint steps tested, not proved.',
    design='6/C16'),
'C04': dict(
    technique='Lean 4 proof over a two-layer model (documented table vs replayed overload dispatch) + class-tree correspondence',
    text='Theorems for every expression tree (unbounded depth, all scalars incl. 0, arbitrary nonlinear leaves, any field): '
         'build_sound(_inv) (the object built by the modelled dispatch - MRO, reflected-first +, shortcuts f*0/0*f/linear A*a, '
         'scalar merges, A-B, a-A, A/a, A**n - evaluates to the documented table), inplace_eq_outofplace, build_sound_inplace, '
         'build_type / build_total / build_rejects (domain, range, Functional-ness; ill-typed rejected), linear_flag_sound, '
         'linear_flag_complete (partial at the call site of finding C04-F1 until repaired).',
    note='no translator yet for the dispatch: the tie is an exact comparison, for ~58k (quick) / 248k (thorough) random typed '
         'trees and all two-level combinations over real ODL leaves on rn/cn, of the real object\'s CLASS TREE (type names '
         'recursively, merged scalars, stored vectors), raise/no-raise, domain, range, is_linear and out-of-place + in-place '
         'values with build/run/runIn/typeOf/den; Python overload semantics as encoded in `build` are trusted; leaves opaque.',
    design='6/C04'),
'C15': dict(
    technique='Lean 4 proof over an executable interpolation model + differential correspondence + sampling oracle',
    text='Proved for all dimensions, node counts >= 2, strictly increasing (non-uniform) coordinates, all points and all '
         'real/complex value arrays: nearest_is_closest (right ties, clamping), interp_node_exact, linear_weights, linear_blend, '
         'linear_affine_exact (N-d), outside_zero_extension as coded, nearest_paths_agree, peraxis_nearest_axis, '
         'call_convention_invariant (point / array / mesh), collocate_paths_agree (sampling dispatch; NumPy fitting abstract). '
         'Values produced by the sampling wrapper (broadcasting, vectorize) are checked by an exact polynomial oracle on the '
         'real code only.',
    note='hand-written model tied by exact correspondence of nearest/linear/per_axis interpolators, Resampling and '
         'linear_deform in 1-3 d on uniform and non-uniform dyadic grids, all scheme mixes and calling conventions; trusted: '
         'np.searchsorted(left) = number of nodes < p, fancy indexing, np.vectorize.',
    design='6/C15'),
'C17': dict(
    technique='Lean 4 proof of the ufunc-glue decision model + legacy-table translator + exhaustive differential enumeration vs NumPy',
    text='Proved on the decision model for all methods, out tuples, shapes and dtypes: out arity/kind rejection, identity of out '
         'per position, kind/shape/dtype/weighting of the wrapped result, partition of discretized reduce/outer results, operand-'
         'kind independence, legacy table totality (decide over the GENERATED tables), no-copy wrapping rule, writable_array '
         'contract. Partial: totality only on regular requests (recorded defects excluded, each with a proved counterexample). '
         'Numerical equality with NumPy is by delegation: tested exhaustively (84k cases quick / 424k thorough), not proved.',
    note='NumPy\'s result (exception class or per-output None/scalar/array shape+dtype) is a parameter of the model; translator '
         'tools/extract/ufunc_legacy.py (RAW_UFUNCS, wrapper out rules, reductions, live NumPy ufunc table); every enumerated '
         'case compares outcome class, returned-object identity and space kind/shape/dtype/weighting/partition exactly; gufuncs, '
         'where=/order=/casting= not enumerated; assumes the NumPy 1.26 dispatch protocol.',
    design='6/C17'),
'C02': dict(
    technique='Lean 4 proofs over an executable model of the weighting classes + differential execution + axiom oracle',
    text='Proved over R/C with positive real weights for all lengths, shapes and nesting depths: inner_conj_symm, inner_add_left, '
         'inner_smul_left, inner_self_nonneg, inner_self_eq_zero, weighted cauchy_schwarz on tensor/discretized/nested product '
         'spaces; the documented weighted-sum / quadrature / component-sum formulas; norm2_sq_eq_inner on every space kind; '
         'dist = norm(x-y) on tensor and discretized spaces (all exponents); pspace_norm_eq_norm_of_norms; '
         'discr_one_inner_eq_volume (||1||^2 = volume for every uniform_discr with any per-axis-side nodes_on_bdry; partial at '
         'cell volume exactly 1.0 = finding C02-F1 with proved counterexample). Partial: absolute homogeneity and triangle '
         'inequality (tensor spaces; p in {1,2,inf}), dist symmetry (leaf spaces). Generic-p triangle and lifting to product '
         'nodes: correspondence-tested only.',
    note='hand-written model (no translator) of npy_tensors/weighting/pspace/discr_space/partition/apply_on_boundary; inner '
         'products compared exactly (Gaussian rationals, dyadic inputs and weights), norms/dists by a double evaluation of the '
         'same definitions within 1e-9 (1e-4 float32); NumPy dot/vdot/tensordot/linalg.norm and BLAS nrm2 as the exact sums they '
         'specify; custom inner/norm/dist callables opaque (delegation tested).',
    design='6/C02'),
})

# ---- round 2 wording (after the fix round) ----
CHECKS['C08']['text'] = (
    'Theorems (any real inner-product space = any weighting/discretisation/product structure): conj_sound / conj_sound_eq - '
    'for every expression tree built from L1, Linf-ball indicator, Huber, L2^2, Constant, IndicatorZero, QuadraticForm (linear '
    'and SPD operator) by LeftScalarMult, RightScalarMult, RightVectorMult, ScalarSum, Translation, QuadraticPerturb(a=0), '
    'BregmanDistance, the convex_conj computed by the coded rules (incl. the is_linear dispatch of __mul__) satisfies '
    'Fenchel-Young, with equality at the coded gradient; each rule also stand-alone with the subgradient relation; Moreau '
    'identity from the resolvent of the inverse relation + uniqueness; concrete pairs L2^2, L2, Constant/IndicatorZero, '
    'QuadraticForm (1/4), L1/Linf and Huber on weighted lists (all n); quadform_conj_without_quarter_fails (sensitivity). '
    'InfimalConvolution and SeparableSum: rule-level theorems only; KL, Lp, group norms, nuclear norm, f**=f: '
    'correspondence/oracle only.')
CHECKS['C08']['note'] += ' The model follows /repo after fix commits bdb9b62, b8f4257, 8145920.'
CHECKS['C09']['text'] += (' Round 2: entry-wise derivatives of L1 and Huber away from kinks and their lifting to weighted '
                          'spaces are proved (l1_entry_deriv, huber_entry_deriv, separable_grad); L2 norm and KL leaf '
                          'derivatives remain finite-difference-tested hypotheses.')
CHECKS['C19']['text'] = (
    '34 theorems for all parameters under c^2+s^2=1 and unit axes: rot_orthonormal_2d/_euler/_axis (R^T R = 1, det 1), '
    'rot_axis_fixed, from_to_maps, constructor_frame_2d/_axis/_euler (vectors derived by transform_system, generic branch), '
    'circular/curved detector alignment, det_point_decomp, src_det_consistent, normalised_unit, parallel_dir_const, '
    'parallel_dir_orth_axes, det_axes_rotated, fan_radii/cone_radii (incl. helical offset), frommatrix_initial/_consistent, '
    'getitem_angles_par2d/_par3d (full after the repairs), vectorised_shape_documented (= documented broadcast shape for all '
    'inputs), factory_covers_volume_parallel; fan/cone factory coverage only partially, with the missing part proved to fail '
    '(F19c, open: the repair contradicts the repo\'s own tests/doctests).')
CHECKS['C15']['text'] = (
    'Proved for all dimensions, node counts >= 2, strictly increasing (non-uniform) coordinates, all points and all real/complex '
    'value arrays: nearest = closest node with right-ties and clamping; node exactness; barycentric weights; multilinear blend; '
    'affine exactness inside the hull; coded zero-extension outside; per-axis nearest = nearest interpolator; calling-convention '
    'invariance for every mesh/array/point input; input classification; every value dtype class accepted; sampling dispatch '
    'paths agree (NumPy fitting abstract). The edge/weight programs, the nearest rule and the node-search constants are '
    'EXTRACTED from the source each run and proved equal to the model (extracted_linear_edge, _nearest_edge, _nearest_rule, '
    '_find_indices). Sampling values are checked only by an exact oracle on the real code.')
CHECKS['C15']['note'] = (
    'translator tools/extract/interp.py (tiny AST grammar; anything outside it is a broken obligation); exact differential '
    'testing of nearest/linear/per_axis interpolators, Resampling and linear_deform in 1-3 d on uniform and non-uniform dyadic '
    'grids; trusted: np.searchsorted(left) = count of nodes < p, NumPy fancy indexing/broadcasting, np.vectorize; n >= 2 per '
    'axis; NaN/inf excluded; findings C15-F1..F5 fixed in /repo.')
CHECKS['C18']['text'] = (
    '33 theorems: reciprocal/real grid algebra for all n, parities, shifts (recip_grid_uniform, recip_halfcomplex_prefix, '
    'recip_real_roundtrip, halfcomplex_shape_roundtrip, interp_freqs_match_grid; recip_table_matches_source / '
    'freq_table_matches_source against the tables EXTRACTED from the source); over any field with a primitive n-th root of '
    'unity: dft_inverse, dft_backends_agree, dft_hermitian, halfcomplex_roundtrip, dft_range_matches_output, '
    'pyfftw_planning_preserves_data; phase_factorisation, ft_forward_is_fourier_sum (the forward transform is the discretised '
    'Fourier integral), ft_inverse (inverse o forward = id for arbitrary phase and kernel factors); wavelets: ravel_unravel_id, '
    'crop_rule, pad_table_sound/documented, wavelet_adjoint_scale (given an isometric W). One defect class (F18e, open) is '
    'excluded and reproduced on every run. Not proved: Gaussian convergence (measured), PyWavelets PR/orthogonality (assumed, '
    'measured), n-d composition (fibre-wise, tested).')
CHECKS['C18']['note'] = (
    'translators tools/extract/waveletpad.py and tools/extract/recipgrid.py (AST of reciprocal_grid and dft_postprocess_data); '
    'numpy.fft/pyFFTW as naive root-of-unity sums with documented plan normalisation and PyWavelets as parameters (compared on '
    'every case); exact for axis lengths 1/2/4 with integer data, tolerance 1e-9*scale (float64) / 2e-4 (float32) elsewhere.')
CHECKS['C02']['text'] = (
    'Proved for all spaces (tensor, discretized, product spaces nested to any depth), all lengths and elements, over R/C with '
    'positive real weights: conjugate symmetry, additivity and homogeneity in the first argument, positivity, definiteness and '
    'weighted Cauchy-Schwarz; the documented weighted-sum formulas for inner products and for all norm branches '
    '(norm_eq_weighted_pnorm); ||x||^2 = re<x,x> for exponent 2; norm_nonneg; absolute homogeneity; the triangle inequality for '
    'p in {1,2,inf} and every generic p >= 1 (Mathlib Minkowski); dist = norm(x-y) and its symmetry; ||1||^2 = domain volume '
    'for every uniform_discr with any per-axis-side nodes_on_bdry. No partial theorems remain. Custom inner/norm/dist callables: '
    'delegation is tested only.')
CHECKS['C02']['note'] += ' Findings C02-F1..F4 fixed in /repo (6f82d20, fc49971, f3b810b, 983d10f).'
CHECKS['C06']['text'] = (
    '(a) executable model of `derivative` for all expression classes, Broadcast/Reduction/Diagonal/ProductSpaceOperator, '
    'polynomial leaves incl. ComplexModulusSquared/RealPart/ImagPart/ComplexEmbedding (C=R^2): deriv_sound_poly (dual-number '
    'soundness: pins every inner point, scalar and block slice), deriv_is_linear, deriv_linear, deriv_affine, '
    'central_diff_poly_partial (O(h^2) cancellation) for all trees/depths/dimensions/rings; (b) analytic: deriv_sound (leaf '
    'HasFDerivAt => tree HasFDerivAt for the coded rules over opaque leaves on a commutative normed R-algebra), '
    'central_diff_tendsto; (c) ufunc_table_sound: the EXTRACTED ufunc (f,f\') table proved against Mathlib, ufunc_leaves_ok and '
    'deriv_sound_ufunc discharge it as leaves of (b). The leaf contract for Norm/Dist/ComplexModulus/PointwiseNorm/finite '
    'differences/functionals is established by the sampled central-difference oracle only.')

CHECKS['C17']['text'] = (
    'Proved for all methods, out tuples, shapes and dtypes on the decision model of the (repaired) code: out arity and kind '
    'rejection; identity of out per position (tensor, discretized, legacy product-space); exact kind, shape, dtype and weighting '
    'of the wrapped tensor result; discretized __call__/accumulate/reduce (all axes incl. negative)/outer result spaces; '
    'operand-kind independence; legacy tables total (tensor and product-space wrappers, decide over the GENERATED tables); '
    'no-copy wrapping; writable_array contract. Totality is full for constant weightings and partial otherwise: the one '
    'exclusion is C17-F4 (array weighting with a dtype too narrow for float64 weights, open). Product-space limits (C17-F6, '
    'open: no ProductSpaceElement.__array_ufunc__) are stated as theorems about the model. Numerical equality with NumPy is by '
    'delegation, tested exhaustively (85k quick / 425k thorough), not proved.')
CHECKS['C17']['note'] += (' Translator also ties wrap_ufunc_productspace and ProductSpaceUfuncs.sum/prod/min/max; every '
                          'expected model branch must be hit (unhit_model_branches fails the thorough tier).')
CHECKS['C03']['text'] = (
    'Theorems (scalars: any type with commutative + and * and 0+a=a, so NaN/inf junk included; unbounded depth): call_protocol '
    '(full), call_in_place, call_out_of_place, out_content_irrelevant, call_casts_input, call_rejects, call_functional for every '
    'well-formed expression tree over the eight operator-arithmetic classes plus FunctionalLeftVectorMult, and '
    'pso_out_of_place / pso_in_place / component_projection(_adjoint) for ProductSpaceOperator (arbitrary sparsity, empty rows) '
    'hence Broadcast/Reduction/Diagonal, over leaves satisfying the leaf contract: op(x) returns the tree\'s value and writes '
    'no existing object; op(x,out=y) returns y with the same value whatever y held; functionals and malformed arguments are '
    'rejected with the domain/range/type error before any write. 198 of 216 introspected classes are opaque leaves whose '
    'contract is established on sampled inputs only (test).')
CHECKS['C03']['note'] += (' All six C03 findings are repaired in /repo (e5d6c3c, ab9b331, 4527a77, ac168e7, 631ee69+82e7c58, '
                          '27b55a3); sensitivity theorems old_vector_sum_writes_input, functional_rejects_out.')
CHECKS['C10']['text'] = CHECKS['C10']['text'].replace(
    '(alias_safe_ieee: with no algebraic hypothesis for all but ProximalL2)',
    '(for every scalar type, no arithmetic law used; combine_proximals covered by diagonal_alias_safe)')
CHECKS['C14']['text'] = (
    '30 theorems over Rat, all n: wf_iff_valid, bdry_ends, bdry_strict_mono, node_in_own_cell, cell_size_is_width, cell_sizes_sum '
    '(all n >= 1), bdry_fraction_formula, uniform_node_placement, uniform_side_times_count (all 4 flag combos), index_correct '
    '(+floating index), index_outside, getitem_slice/_cells/_int/_full/_list/_nd, byaxis_cells, squeeze_cells, '
    'insert_append_cells, nonuniform_limits, fromgrid_limits, uniform_spec_agree, uniform_flags_agree (every flag form), '
    'extracted_table_is_model (the node-placement table of uniform_grid_fromintv EXTRACTED from the AST each run equals the '
    'model). Tested only: squeeze with an axis list, negative-step slices, out-of-range negative integers.')
CHECKS['C14']['note'] += (' History stream: partitions sharing grid/IntervalProd objects with interleaved queries must answer '
                          'like freshly built equal partitions. Findings C14-F1/F2 fixed in /repo (e9629b2, 56dfd19).')

CHECKS.update({
'C11': dict(
    technique='Lean 4 proof of refinement/resumption over abstract solver state machines + exact-rational differential test against the real solvers',
    text='18 theorems for all operators, proximal and gradient maps (arbitrary functions), all step sizes, all n and m: '
         'admm_refines / adupdates_refines / doubleprox_refines (the optimised solvers produce the iterates and callback logs '
         'of their _simple versions, by induction with the carried invariant, e.g. tmp_ran = L x); resume_landweber, '
         '_kaczmarz (fixed order), _proximal_gradient (constant lam), _osmlem, _steepest_descent (stateless line search), '
         'pdhg_resume (x_relax, y passed back) and pdhg_resume_needs_state (proved 2-step counterexample without them); '
         'callback_once and per-solver callback counts. "Up to rounding" is the tolerance of the correspondence, not a theorem. '
         'KL, Huber, group-L1, separable sums, balls: implementation-vs-implementation streams only (test).',
    note='hand-written model Model/Solvers.lean (one let per statement of the loop bodies) tied by running every state machine '
         'on the matrices of the real operator/adjoint and closed-form proximals and comparing the whole callback-recorded '
         'iterate sequence (exact on short-dyadic inputs, 1e-9 relative otherwise); excluded: random=True, accelerated PDHG, '
         'callable lam, line searches with memory, gauss_newton.',
    design='6/C11'),
'C12': dict(
    technique='Lean 4 + Mathlib proofs on real inner-product spaces about the solver state machines + differential test + monotonicity/optimality oracles',
    text='proof (partial). Proved for all dimensions: landweber_residual_mono, kaczmarz_error_mono, cg_energy_mono, '
         'cgn_residual_mono, armijo_descent and steepest_descent_mono (backtracking never increases f), power_method_le_opnorm, '
         'KKT point <=> fixed point for pdhg, (accelerated) proximal_gradient, admm_linearized, forward_backward_pd; one '
         'direction for douglas_rachford_pd (_partial). NOT proved (measured by the harness as labelled tests): convergence of '
         'the non-smooth solvers towards optimality, CG exact after dim steps, the self-adjoint power-method branch. Open '
         'finding F12 (forward_backward_pd aliases x_old; the repair contradicts the repository\'s own test).',
    note='same models and tie as C11 plus conjugate gradients, CG on the normal equations, the line search, both power-method '
         'branches and FISTA (on doubles); operators are linear with an adjoint pair and any bound c >= ||A||; proximals enter '
         'as resolvents (C07 ties the real proximals to that); numpy.linalg for oracle references.',
    design='6/C12'),
'C07': dict(
    technique='Lean 4 proof over an executable proximal model + differential correspondence + optimality oracle',
    text='32 theorems. Abstract (any real inner product space, so every weighted/product space): prox_minimises (resolvent '
         'inequality => unique minimiser with quadratic gap), prox_unique, prox_firmly_nonexpansive, indicator prox feasible '
         'and idempotent, and all calculus rules with the code\'s step formulas (translation, argument scaling, left scaling, '
         'quadratic perturbation, Moreau, separable sum); L2 norm and its conjugate. Scalar layer over any ordered field lifted '
         'to every n with positive weights and per-point steps: the coded formulas of L1 (incl. the x-(x-g)/max(|x-g|/s,1) form), '
         'conj-L1, L2^2, conj-L2^2, box, Huber, KL-conj; l1_list_minimises end to end; sum-constraint, simplex KKT sufficiency and '
         'threshold feasibility (index-wise; _partial for the sorted-list algorithm, whose residual the driver checks exactly on '
         'every run). No optimality theorem for Linf/L1-ball (proj_l1), group L1-L2, nuclear norm, KL cross entropy (Lambert-W): '
         'executed model or oracle on the real code only. Open findings C07-F1..F6.',
    note='hand-written model Model/Prox.lean tied by correspondence: f.proximal(sigma)(x) of every functional class with a '
         'proximal (29 by introspection), all proximal_* factories, random expression trees and separable sums vs Fn.prox at Rat '
         '(exact on the dyadic stream, 1e-9 elsewhere; np.sqrt a parameter); oracle on the real code for all classes: objective at '
         'p vs segment/coordinate/random probes and Nelder-Mead <= 3-d, f(p) finite, indicator idempotence, firm '
         'non-expansiveness, Moreau bridge.',
    design='6/C07'),
})
CHECKS['C04']['technique'] = ('Lean 4 proof over a two-layer model; overload dispatch and constructor flags extracted from the Python AST on '
                              'every run and proved equal to the model; class-tree correspondence')
CHECKS['C04']['text'] = (
    'Theorems for every expression tree (unbounded depth, all scalars incl. 0, arbitrary nonlinear leaves, any field): the object '
    'built by the dispatch AS EXTRACTED from the source (buildT_eq_build, extracted_dispatch_sound) evaluates out-of-place and '
    'in-place to the documented table value (build_sound, inplace_eq_outofplace); build_type / build_total / build_rejects '
    '(domain, range, Functional-ness; ill-typed rejected); linear_flag_sound and linear_flag_complete (full after the repair of '
    'C04-F1); flag_table_matches (the is_linear rule of each of the 19 expression classes extracted from its __init__); '
    'extracted_facts (A**n loop, __array_priority__ order, __radd__ alias, scalar-merge shortcuts).')
CHECKS['C04']['note'] = (
    'translator tools/extract/algebra_dispatch.py -> Gen/AlgebraDispatch.lean (ordered guard trees of the overloads, delegations, '
    'priority order, scalar-merge shortcut, is_linear of 19 constructors; tiny grammar, anything else is a broken obligation); '
    'correspondence ~28k cases quick / ~207k thorough: class tree, raise/no-raise, domain, range, is_linear, Functional-ness and '
    'out-of-place/in-place values vs build/run/runIn/typeOf/den/linOf; trusted: Python MRO and reflected-first semantics as encoded '
    'in the interpreter; constructors\' argument checks and _call bodies hand-modelled; leaves opaque; dyadic grid, degree <= 12.')

CHECKS['C16']['text'] = (
    '20 theorems for all sizes, offsets, contents and pad modes: pad_eq_nppad (constant/wrap/reflect/edge entry for entry, order1 = '
    'linear extrapolation), resize_intersection, crop_extend_id, offset_range_checked (offsets out of range refused), '
    'linear_when_padconst_zero, adjoint_transpose (1-d) and adjoint_transpose_nd in the code\'s own axis order '
    '(axis_order_irrelevant proved), guards_are_documented_limits over the GENERATED guard table, nd_accepts_iff; operator: '
    'range_cell_unchanged, range_grid_aligned (copied block grid-aligned for every offset), range_covers_domain, weighted_adjoint '
    '(adjoint identity for arbitrary diagonal boundary-fraction weights). No _partial theorems remain; C16-F1..F3 repaired. '
    'dtype/out handling, the NumPy fibre view and the operator wrappers are tied by exact correspondence on 1-3-d integer arrays.')
CHECKS['C16']['note'] = (
    'translator tools/extract/padslices.py (slices, guard table, pad lengths, skip condition of the source by symbolic evaluation); '
    'NumPy basic slicing/sum/diff/arange, apply_on_boundary and np.pad (its index formulas are compared with the Lean definitions '
    'each run) trusted; arithmetic exact; offsets are naturals in the model (negative offsets only as malformed calls).')

CHECKS['C20']['text'] = (
    '32 theorems (model level, unbounded in shape/axes/nesting): eq equivalence and eq => equal hash, FULL, for weightings, '
    'interval products (all and mixed dimensions), grids (grid_interior_coordinate_matters), partitions, tensor/discretized/'
    'nested product spaces (space_eq_equivalence, space_hash_respects_eq), FiniteSet (finite_eq_hash), SetUnion/'
    'SetIntersection/CartesianProduct (composite_eq_equivalence, composite_hash_respects_eq for duplicate-free member tuples); '
    'mem_iff_space_eq; element() decision logic and values; astype / real_complex_involution (dtype tables by translator) / '
    'byaxis / product-space astype (pspace_astype_mixed_dtype_casts) and indexing descriptors. Partial: product-space indexing '
    'keeps only constant weightings (C20-F4 open, counterexample proved). Tested only: hash of composites containing '
    'FiniteSets, element indexing vs asarray (C20-F6 open), byaxis_in.')

CHECKS['C05']['text'] = (
    'Proved for all sizes, per-entry weights, fields with involution and unbounded tree depth: adj_sound (the full complex identity, '
    'or the real-part identity for trees that mix real and complex spaces) through Sum, Comp, Left/RightScalarMult, Left/'
    'RightVectorMult, FunctionalLeftVectorMult, ProductSpaceOperator, Broadcast, Reduction, Diagonal; every modelled leaf as coded '
    'after the fix commits (leaf_sound: only `opaque` is assumed): Scaling, Identity, Zero, Multiply (space and field domains), '
    'InnerProduct, RealPart, ImagPart, ComplexEmbedding, MatrixOperator (1-d, any weights: matrix_adj), PointwiseInner/Adjoint/Sum, '
    'Sampling<->WeightedSumSampling (any weights, duplicates, complex), Flattening (C order), ComponentProjection(Adjoint); adj_type; '
    'adj_adj_partial (right-scalar and vector multiples only tested); old_matrix_adj_fails (sensitivity). Opaque leaves (finite '
    'differences, Resizing, Fourier, wavelets, MatrixOperator with axis/sparse/n-d, F-order flattening, n-d sampling) are decided '
    'exactly on small spaces by the full-matrix oracle G_ran*A = (A*)^H*G_dom (out-of-place AND in-place evaluation), not by '
    'theorem. Open findings F7 (n-d array-weighted), F56-F60.')
CHECKS['C07']['text'] = (
    '41 theorems, no _partial. Abstract (any real inner product space): prox_minimises (resolvent inequality => unique minimiser '
    'with quadratic gap), prox_unique, prox_firmly_nonexpansive, indicator prox feasible/idempotent, all calculus rules with the '
    'code\'s step formulas (translation, argument scaling, left scaling, quadratic perturbation, Moreau, separable sum), '
    'prox_composition (L L^t = mu Id), tree_prox (whole expression trees of any depth over the calculus nodes); L2 norm and '
    'conjugate. Scalar layer over any ordered field lifted to every n with positive weights and per-point steps: L1, conj-L1, '
    'L2^2, conj-L2^2, box, Huber (fixed formula), KL-conj; l1_list_minimises; simplex projection fully proved '
    '(simplex_threshold_feasible for the executable sort/cumsum/last-index rule on every list + KKT optimality, also the '
    'array-weight path), projL1_threshold, l1ball_kkt_sufficient, linf_vi (L-infinity proximal, constant weight), '
    'sumc_weighted_vi. No optimality theorem for group L1-L2 and vector Huber (executed model only), nuclear norm and KL cross '
    'entropy (oracle only); Linf / l1-ball on ARRAY-weighted spaces is the open finding C07-F1 (linf_array_weighted_fails).')

CHECKS['C01']['technique'] = ('Lean 4 theorems over programs regenerated from the Python AST (dispatch, BLAS predicate, argument checks) + '
                              'statement-level models of the element operators + exact differential correspondence')
CHECKS['C01']['text'] = (
    '21 theorems. About definitions EXTRACTED from the source on every run: lincomb_correct / _frame / _out_independent (any '
    'commutative ring, any size, any array descriptor = dtypes and contiguity flags, any buffer ids i.e. all 5 identity-alias '
    'patterns, all ring scalars, all contents: _lincomb_impl incl. its zero guard, regime selection and recursive re-entry yields '
    'out = a*x1+b*x2 entry-wise from the pre-state and touches nothing else), blas_applicable_sound and blas_writes_through (the '
    'extracted _blas_is_applicable implies that out.ravel(order) is a view, so BLAS writes reach out), extracted_front_is_model '
    'and lincomb_front_rejects (the extracted argument checks of LinearSpace.lincomb reach _lincomb iff the call is well-formed), '
    'lincomb_correct_executed_instance (the theorem applied to the Gaussian-rational instance the driver runs; CommRing CRat '
    'proved). Statement-level hand models of odl/set/space.py from the selected branch on: elem_op_correct (every '
    'LinearSpaceElement operator incl. reflected, in-place, other-is-self; division claimed where DivOK holds; '
    'div_by_zero_scalar_raises), ipow_correct / ipow_int_correct (x **= p for every integer p by the code\'s recursion), '
    'plincomb_correct (ProductSpace._lincomb over part buffers when no part object occurs twice or crosswise). The element '
    'layer is closed by theorem for tensor (and delegating discretized) spaces only; for product spaces, NumpyTensor / '
    'DiscretizedSpace overrides (__ipow__, copy), array-like operand coercion and power-space broadcasting it is tied by '
    'correspondence / oracle only. Integer dtypes are claimed with integer scalars (open finding C01-F2: non-integer field '
    'scalars on integer spaces truncate silently below 100 entries).')
CHECKS['C01']['note'] = (
    'translators tools/extract/lincomb.py (AST of _lincomb_impl and _blas_is_applicable -> Gen/LincombTree.lean) and '
    'tools/extract/lincomb_front.py (AST of LinearSpace.lincomb -> Gen/LincombFront.lean); tiny grammars, anything else is a broken '
    'obligation. Correspondence (exact, dyadic grid): space.lincomb on real NumpyTensor elements vs the Lean execution on the '
    'descriptor read from the actual arrays (model regime/leaf reported; for > 400 entries the entry-wise model is compared on a '
    'sample of entries while the oracle checks every entry), the extracted BLAS predicate vs the real _blas_is_applicable on the '
    'same arrays, every leaf of the dispatch in the fallback AND the BLAS regime (expected-branch list from the driver; an unhit '
    'leaf fails the thorough tier), strided large outputs for every alias pattern, NaN-poisoned operands for a=b=0, malformed '
    'calls, element operators and product-space lincomb vs the statement-level models. Because the model provably equals the '
    'specification, the value comparison of the lincomb stream coincides with the oracle a*x1+b*x2; what the correspondence adds '
    'is the BLAS predicate, regime and leaf bookkeeping and the statement-level element models. Rounding, BLAS and NumPy ufunc '
    'internals are modelled as exact entry-wise maps; identity aliasing only (elements sharing part objects are outside).')

# ---- round 3 wording (after the independent audits) ----
CHECKS['C18']['text'] = (
    '38 theorems in Props/C18.lean, for every n and input; field-level ones over any field with a primitive n-th root of unity. '
    'Grid/table arithmetic over Q: recip_grid_uniform, recip_point_formula, recip_halfcomplex_stride/_prefix, '
    'recip_contains_zero_iff, halfcomplex_shape_roundtrip, recip_real_roundtrip, interp_freqs_match_grid; tie to the EXTRACTED '
    'source tables: recip_table_matches_source, freq_table_matches_source. Field-level: dft_inverse, dft_hermitian, '
    'halfcomplex_roundtrip, ft_inverse and ft_forward_is_fourier_sum (one axis, full grid, arbitrary non-vanishing kernel factors, '
    'abstract phase function), ft_halfcomplex_inverse (one halved axis), ft_sep_1d (the executed n-d definition equals the one-axis '
    'maps on 1-d arrays). Case splits over modelled flags: dft_backends_agree, dft_range_matches_output, '
    'pyfftw_planning_guards_cover_both_arrays (a Boolean fact about the guards; FFTW behaviour is an assumption compared with the '
    'real library), ft_status_partial. Exponent arithmetic mod 2: phase_factorisation, pre_factor_*, ft_inverse_factors. Wavelets '
    '(ODL\'s part): raveled_slices_layout/_roundtrip (about precompute_raveled_slices), crop_rule(_rejects), pad_table_sound/'
    '_documented, inner_weight_uniform. CONDITIONAL on leaf hypotheses: wavelet_adjoint_of_leaf_hyps (W an l2 isometry with '
    'two-sided inverse), crop_rule (admissible waverecn length). Sensitivity theorems about old variants; F18e counterexample. '
    'Executed definitions with NO theorem: dftForwardNd/dftInverseNd/ftForwardNd/ftInverseNd (staged, incl. half-complex real-part '
    'steps), applyAxes for > 1 axis, kernelAmp/sincF (Float), padMode, cropShape. Not proved: Gaussian convergence (measured: '
    'order ~4), PyWavelets PR/orthogonality (assumed, measured).')
CHECKS['C13']['technique'] = 'Lean 4 proof over AST-extracted stencil tables + pinned hand-written wiring + exact differential correspondence'
CHECKS['C13']['text'] = (
    '23 theorems about the Lean model over any field (incl. C) and ALL axis lengths; none conditional on leaf hypotheses: '
    'adj_involutive; size_ok_iff; fd_eq_stencil_ext (finite_diff row = the method\'s textbook stencil on the array extended by the '
    'INDEPENDENTLY defined rule ruleOf p, for constant/symmetric/periodic/order0/order1 x 3 methods and central order2); '
    'symmetric_is_replicate_not_reflect (symmetric is order0 in the generated tables; the reflect reading refuted); '
    'order2_edge_rule / order2_forward_edge_differs; adj_tables_transposed, fd_adjoint_transpose, fd_adjoint_entry, '
    'fd_adjoint_hermitian (all 30 leaves: the PLAIN sum identity sum g(Df) = -sum f(D\'g) by summation by parts + a verified corner '
    'checker decided on the generated tables); fd_map; fd_affine, pd_affine; pd_adjoint, grad_div_adjoint, div_grad_adjoint; '
    'laplacian_*selfadjoint; pd_eq_stencil_ext, laplacian_eq_second_difference; op_adjoint_involutive (pad_const = 0 only); '
    'affine_instances_have_no_adjoint. Regenerated from diff_ops.py every run: interior bands, the 30 boundary leaves, size guards, '
    '_ADJ_METHOD/_ADJ_PADDING, supported lists, modes Laplacian refuses, per-class linear-rule and adjoint-guard flags. NOT '
    'regenerated (hand-written in the model and PINNED as normalised text; a change is a broken obligation): prologue/epilogue of '
    'finite_diff, /dx, N-d line-wise action, Gradient/Divergence/Laplacian accumulation, which instance .adjoint/.derivative build.')
CHECKS['C13']['note'] = (
    'translator tools/extract/finite_diff.py (tables + tools/extract/finite_diff_pins.json) and exact correspondence: full matrices '
    'and offsets of finite_diff for method x pad x n=1..9 (13 thorough), direct call forms (array-like, layouts, negative axis, '
    'out=None, N-d), the four classes on 1-3 d uniform_discr incl. shifted, nodes_on_bdry, other-dtype range, length-1 axes, '
    'real and complex. Adjoint = transpose is claimed, proved (plain sums) and checked ONLY for uniformly weighted spaces; the '
    'step from plain sums to the space inner product is an argument, not a Lean statement (nodes_on_bdry / weighted power spaces: '
    'open C05 findings F60, F56). symmetric = edge-repeating mirror as coded, tested and (since cebeffe) documented; ndim <= 3; '
    'integer dtypes outside the quantifier.')
CHECKS['C14']['technique'] = ('Lean 4 proof over an executable rational model (1-d partition; n-d as separate grid and set paths for '
                              'insert/append/squeeze) + correspondence + offset table by translator')
CHECKS['C14']['text'] = (
    '36 theorems (32 about the current code, 4 sensitivity theorems about old variants of repaired defects), all n, all rationals; '
    'the code\'s tolerances are universally quantified with side conditions the code\'s values satisfy. 1-d tiling: bdry_ends, '
    'bdry_strict_mono, node_in_own_cell, cell_size_is_width, cell_sizes_sum, bdry_fraction_formula; uniform (n >= 2, all 4 '
    'flags): uniform_node_placement, uniform_side_times_count (+ _code instance), uniform_valid; nonuniform_limits, '
    'fromgrid_limits; index_correct, index_degenerate; 1-d indexing: getitem_slice_general (None/negative/clamped bounds, step >= '
    '1), getitem_slice/_cells/_int (incl. rejection outside [-n, n))/_full/_list, wrap_index_spec; uniform_spec_agree, '
    'flags_two_normalisations_agree; grid and set paths aligned: insert_two_paths_aligned, squeeze_two_paths_aligned; n-d '
    'model-structure statements on the aligned view (hold by construction of the list model): insert_append_cells, squeeze_cells, '
    'byaxis_cells, getitem_nd; translator tripwire extracted_table_is_model; by unfolding: wf_iff_valid, index_outside. Executed '
    'without theorem: completeAxis on inconsistent input, squeeze with an axis list, byaxisSlice, negative-step slices, unsorted / '
    'repeated lists, n-d getItem and byaxis grid/set alignment.')
CHECKS['C15']['text'] = (
    '20 theorems, none conditional on leaf hypotheses: nearest = closest node (right ties, clamped); per-axis nearest = nearest '
    'interpolator and the all-nearest dispatch changes no value; barycentric weights, multilinear blend, node exactness, affine '
    'exactness inside the hull, coded zero extension (all dimensions, n >= 2 strictly increasing coordinates, real/complex values); '
    'the edge/weight programs, nearest rule, node-search constants and the dtype cast guard/rule are EXTRACTED each run and proved '
    'equal to / harmless for the model; sampling_paths_collocate (the executed sampling wrapper model Sampling.sample: dispatch, '
    'reshape-or-assign, squeeze/reshape/broadcast delivers the callable\'s values for every return-shape form and path on '
    'mesh/array input). Statements about the model\'s own tables/combinators only: call_convention_invariant, '
    'input_classification, value_dtypes_ok, point_cast_sensitivity. Executed and tied without theorem: single-point sampling, '
    'corner-loop order vs NumPy indexing, classifyArrayInput. Oracle only: vectorize, ufunc and tensor-valued sampling, '
    'Resampling / linear_deform point computation, single-node axes (open C15-F6..F6d).')
CHECKS['C16']['text'] = (
    '24 theorems over all sizes, offsets, contents; none conditional on leaf hypotheses. One axis: pad_eq_nppad, '
    'order1_linear_extrapolation, resize_intersection, crop_extend_id, guards over the GENERATED guard table, offset_range_checked, '
    'adjoint_needs_zero_padconst, adjoint_transpose, weighted_adjoint (adjoint identity for the CODE\'S scaling with constant/array '
    'weightings and boundary fractions), linear_when_padconst_zero. n axes: forward_nd_eq_reference (= reference applied axis by axis '
    'on the whole box), axis_order_irrelevant, adjoint_transpose_nd, weighted_adjoint_nd, nd_axes_accept_iff, nd_accepts_iff. '
    'Operator, per axis: range_cell_unchanged, range_grid_min, range_grid_aligned, range_covers_domain, '
    'offset_from_spaces_aligned/_roundtrip; supported_modes. overlap-copied and crop-extend have no n-d theorem; n-d statements '
    'are about the per-axis composition (fibre view of NumPy slicing). Open findings C16-F7 (array-weighted domain cannot be '
    'resized), C16-F8 (order1 on unsigned dtypes).')
CHECKS['C16']['note'] = (
    'Generated from source each run (tools/extract/padslices.py): slice arithmetic, guard table, pad lengths, skip condition. '
    'Hand-modelled and tied by exact correspondence only: the statement sequence of _apply_padding after the guards, fill / offset / '
    'pad_const checks, _resize_discr, _offset_from_spaces (exact arithmetic instead of round/isclose), the adjoint scaling. Every '
    'definition the theorems are about (resizeCore, resizeAxes/resizeND, npPad, refAxes, offsetFromAxes, opAdjointW, opAdjointND) '
    'is executed by the driver against the real code. Executed without theorem: np.can_cast refusal (not modelled), dtype '
    'casting / out, inverse, derivative. Exact on dyadic data; uint8 compared mod 256.')
CHECKS['C20']['text'] = (
    '38 theorems. PROVED LAWS (28): == is an equivalence and equal objects hash equally, in full, for the 10 modelled weighting '
    'classes, interval products, grids, partitions, tensor / discretized / nested product spaces and FiniteSet (int/str atoms); '
    'the same for SetUnion / SetIntersection / CartesianProduct over non-composite members (hash theorem restricted to '
    'non-FiniteSet members and duplicate-free member tuples); castVal_idem, real_complex_involution, astype_round_trip, '
    'astype_byaxis_commute, pspace_index_list_int, dtype_tables_coherent (tables regenerated by the translator and independently '
    'checked against NumPy); counterexample / sensitivity theorems. EXECUTABLE SPECIFICATION WITH BRANCH LEMMAS ONLY (10; these '
    'unfold hand-written definitions: for element(), astype, real/complex spaces, byaxis and indexing the level reached is '
    'correspondence of that specification with the real code on the zoo): mem_iff_space_eq, element_idem, element_new_in_space, '
    'element_values, pspace_element_length, astype_descr, byaxis_descr_partial, byaxis_nonnumeric, pspace_index_descr_partial, '
    'pspace_astype_descr. Oracle only: composites with FiniteSet or nested members, MatrixWeighting, byte-swapped dtypes, '
    'non-function callables, array FiniteSet atoms, byaxis_in, indexing vs asarray. Open findings C20-F4, F6, F7, F8, F9, F10, F12.')
CHECKS['C20']['note'] += (' The zoo is a fixed recipe list plus random one-field variants: "all pairs / all triples" are '
                          'exhaustive over the zoo, not over the property\'s quantifier.')
CHECKS['C05']['text'] = (
    '27 theorems (arbitrary field with ring involution, all sizes, weights, depths): adj_sound / adj_identity for trees of '
    'OperatorSum, OperatorComp, Left/RightScalarMult with arbitrary field scalars (following the repaired code: conj(s) applied '
    'before the operator adjoint when it is not real), Left/RightVectorMult, FunctionalLeftVectorMult; block operators on '
    'UNWEIGHTED product spaces only; trees through real and complex spaces get the real-part identity only; for `opaque` leaves '
    'the statement is conditional on their contract. Leaf contracts proved under Leaf.WT: Scaling/Identity/Zero, Multiply '
    '(domain = range, field domain), InnerProduct, RealPart/ImagPart/ComplexEmbedding, MatrixOperator (1-d, const or array '
    'weights), PointwiseInner/Adjoint/Sum, Sampling<->WeightedSumSampling (1-d), Flattening (C order) and inverse, '
    'ComponentProjection(Adjoint). adj_type_tree, leaf_typed; adj_adj_partial CONDITIONAL on a leaf hypothesis that leaf_adj_adj '
    'discharges for 10 leaf kinds; sensitivity: old_matrix_adj_fails, old_lscal_adj_fails. Decided by the exact full-matrix oracle '
    'only (no theorem): finite differences, resizing, wavelets, Fourier, MatrixOperator with axis/sparse/n-d, F-order flattening, '
    'n-d sampling. For FourierTransform, DFT and db2 wavelets the check establishes only that the returned adjoint is exactly the '
    'inverse (open F57-F59); open F7 (n-d array weighting / custom inner), F56, F60, F61.')
CHECKS['C06']['text'] = (
    '15 theorems. Unconditional, about the EXECUTED model Impl (all trees, depths, dimensions): deriv_sound_poly (dual-number '
    'soundness of derivative for every expression class, Broadcast/Reduction/Diagonal/ProductSpaceOperator, polynomial leaves, '
    'ComplexModulusSquared/RealPart/ImagPart/ComplexEmbedding and complex scalars on cn(n) read as flat [re, im]), '
    'deriv_is_linear, flagged_linear_is_linear, deriv_linear, deriv_affine, central_diff_poly_partial (O(h^2) cancellation in the '
    'polynomial world), model_line_hasDerivAt and model_central_diff_tendsto (over R every entry of op(x+sd) is differentiable at 0 '
    'with derivative derivative(x)(d): Gateaux form; HasFDerivAt on R^n not formalised). Both EXTRACTED ufunc (f,f\') tables '
    '(derivative_factory, gradient_factory) proved against Mathlib (ufunc_table_sound, ufunc_gradient_table_sound) and lifted '
    '(ufunc_op_hasFDerivAt); their Float reading is compared with the code\'s values. Four theorems about a separately transcribed, '
    'UN-EXECUTED rule set (endomorphism trees on one normed algebra, six smooth ufuncs): rules_sound_of_leaf_hyps and '
    'central_diff_tendsto_of_leaf_hyps are conditional on leaf hypotheses; ufunc_leaves_ok and the smooth-ufunc tree theorem '
    'discharge them. Oracle only (central differences with Richardson agreement and decay test): Norm, Dist, ComplexModulus, '
    'PointwiseNorm, ufunc operators inside trees, finite differences, ResizingOperator, functionals other than InnerProduct and '
    'L2NormSquared.')

CHECKS['C02']['text'] = (
    '20 theorems, no partial or conditional ones, about the model Model/Weighting.lean over R/C with positive real weights, for all '
    'tensor, discretized and arbitrarily nested product spaces, all lengths and elements: conjugate symmetry, additivity and '
    'homogeneity in the first argument, positivity, definiteness, weighted Cauchy-Schwarz; ||x||^2 = re<x,x> for exponent 2; '
    'norm_nonneg; absolute homogeneity; the triangle inequality for p in {1,2,inf} and generic p >= 1 ONLY (the code accepts any '
    'positive exponent; for p < 1 the triangle inequality genuinely fails); dist = norm(x-y) (by unfolding of parallel code '
    'branches) and its symmetry; norm_eq_weighted_pnorm. For uniform_discr (default weighting, finite exponent, any dimension, '
    'shape, per-axis-side nodes_on_bdry): discr_weight_eq_cell_volume (the model\'s per-entry quadrature weight equals the '
    'GEOMETRIC cell volume stated from node positions only), discr_inner_eq_cell_quadrature, <1,1> = volume, '
    'discr_one_norm_eq_volume_rpow; these hold for the model\'s node placement mkAxis with np.isclose(frac,1) idealised as '
    'frac = 1. tensor/discr/pspace_inner_normal_form are unfoldings, not independent specifications. Executed without theorem: '
    'the np.isclose tolerance variant of the boundary test (tied by correspondence incl. fractions at 1 +- 5e-6, 1 +- 2e-5), the '
    'Float evaluation of norms, explicit-grid spaces, custom inner/norm/dist (delegation tested only).')
CHECKS['C02']['note'] = (
    'hand-written model (no translator) of npy_tensors/weighting/pspace/discr_space/partition/uniform_grid_fromintv/'
    'apply_on_boundary; tie = correspondence on every run: inner products exactly (Gaussian rationals) with both the '
    'real-tolerance and the idealised boundary test, norms/dists in doubles within 1e-9 (1e-4 single precision), uniform_discr '
    'sent as constructor arguments, mkAxis also compared with partition.boundary_cell_fractions and cell_volume; 59 expected '
    'model/code branches must be hit. NumPy/BLAS reductions as exact sums/maxima; positive weights assumed (not validated by the '
    'code); size-0 arrays outside the model. Fixed findings C02-F1..F5.')
CHECKS['C03']['text'] = (
    '23 theorems. For every well-formed expression tree (unbounded depth) over OperatorSum, OperatorVectorSum, OperatorComp, '
    'OperatorPointwiseProduct, Left/RightScalarMult, Left/RightVectorMult, FunctionalLeftVectorMult, and for ProductSpaceOperator '
    '(hence Broadcast, Reduction, Diagonal), ComponentProjection(Adjoint) whose blocks are such trees, over scalars with '
    'commutative + and * and 0+a=a (so NaN/inf junk included): op(x) returns the tree\'s value and writes no existing object; '
    'op(x,out=y) returns y with the same value whatever y held (call_out_of_place, call_in_place, call_protocol, '
    'out_content_irrelevant, call_casts_input, pso_*, component_projection*). These are CONDITIONAL on the leaf contract LeafOK, '
    'which is the property itself for a leaf. LeafOK is PROVED for the model leaves Scaling, Identity, Constant, Multiply, Power, '
    'Zero, ComplexModulusSquared(real), scalar Multiply, for every pure out-of-place body (oop_leaf_ok), for a leaf returning its '
    'argument (ret_input_leaf_ok) and for all 42 proximal program variants (C10.prog_leaf_ok). call_rejects, uncastable_result '
    'and the rejection half of call_functional restate model definitions tied by the dispatch stream. Leaf classes of the '
    'library are TESTED by the oracle, not proved: of 216 Operator classes found by introspection 201 have at least one successful '
    'call (179 of them opaque leaves), 7 abstract, 5 without constructor, 3 without _call. Open findings C03-F10, C03-F11.')
CHECKS['C03']['note'] = (
    'hand-written model tied by correspondence only: dispatch stream (~440 synthetic operators incl. ndarray input and uncastable '
    'results) compared bitwise; random trees and block matrices with garbage/NaN/inf prefills at 1e-12 relative; malformed '
    'stream (20 kinds of bad input decided by the domain itself, 10 kinds of near-miss out). Assumptions: input cast modelled as '
    'a copy; range membership and castability are tags; inner membership checks not modelled (except a functional rejecting '
    'out); not modelled: identity wrapping of Reduction/Broadcast, ComponentProjection with a list index, ZeroOperator with '
    'domain != range, user temporaries; callables on discretised spaces execute user code. Unhit model branches fail the thorough '
    'tier; replay rebuilds exactly the recorded case.')
CHECKS['C10']['text'] = (
    '10 theorems. alias_safe, frame and out_junk_independent hold for all 42 program variants (21 bodies x flags) of the _call '
    'bodies of proximal_operators.py and the solver-invoked in-place operators, over any scalar type, no arithmetic law used. '
    'alias_safe has content of its own for the 17 variants that write out more than once (box with both bounds; ccL2Sq / l2Sq with '
    'element sigma and g; ccL1; l1; l1l2; linfty; ccLinfty; ccKL; unweighted sum constraint; power); for the 25 last-write-only '
    'variants it is the semantics of one statement (last_write_only_is_alias_safe), i.e. the assumption that a NumPy/ODL call '
    'reads its inputs before writing out. prog_leaf_ok, alias_safe_tree, diagonal_loop_alias, diagonal_alias_safe lift this '
    'through the operator calculus and combine_proximals (conditional on LeafOK). Sensitivity: l1_without_guard_fails, '
    'simplex_with_view_writes_input.')
CHECKS['C10']['note'] = (
    'hand-written programs; proj_simplex and the weighted simplex modelled statement for statement over uninterpreted '
    'sort/cumsum/argsort; the component loops of Huber/ConvexConjL1L2/L1L2 merged into one statement. Correspondence on real '
    'float64 spaces (rn, uniform_discr, constant/array weights, power spaces): non-aliased calls with NaN-prefilled out and '
    'aliased calls, exact thresholds, a history stream (several calls on one operator instance vs fresh instances: ties '
    'statelessness, which the straight-line programs assume), real closed-over data checked bitwise before/after; complex, '
    'float32, 2-d, nested spaces oracle only. The class cross-check scans odl/solvers by AST (an uncovered in-place proximal class '
    'breaks the obligation); the aliased solver call sites `f(a, out=a)` are extracted by AST on every run (6 in odl/solvers, all '
    'applications of proximal operators). Assumes lincomb meets its C01 spec.')
CHECKS['C07']['text'] = (
    '57 theorems. (1) Abstract layer on any real inner product space: resolvent characterisation => unique minimiser with quadratic '
    'gap, firm non-expansiveness, indicator idempotence; rules for translation, argument scaling (incl. the scaling==0 guard), left '
    'scaling, quadratic perturbation, Moreau, separable sum, composition with L L^t = mu Id; L2 norm and ball. (2) About the '
    'EXECUTED Fn.prox on lists, every length, non-negative weights: L1, L2^2, conj-L2^2, conj-L1 with scalar or point-wise steps; '
    'box; Huber (tensor space, gamma > 0, float step; gamma = 0 scalar only); KL-conj over R; simplex and sum-constraint '
    'projections without array weights (feasibility proved for the executed sort/cumsum/last-index rule); l1-ball projection and '
    'L-infinity proximal for unweighted / constant weight. (3) Array-weighted simplex and sum constraint: KKT sufficiency with '
    'feasibility as HYPOTHESIS only (threshold residual checked exactly per input by the driver). (4) tree_prox_of_leaf_hyps is '
    'CONDITIONAL on leaf contracts (established for the L2 norm/ball on any space and for executed L1, Huber, box on R only) and is '
    'over PTree, a separate type sharing the combinator definitions with the executed Fn. No theorem for: pwNorm / group L1-L2 / '
    'vector Huber, simplexTauW, SeparableSum and step handling in Fn.prox, Fn.ok, Fn.err, nuclear norm, KL cross entropy. Open '
    'findings C07-F1, C07-F1b (Linf / l1-ball under non-constant weights), C07-F7.')
CHECKS['C07']['note'] = (
    'hand-written model tied by correspondence only: all Fn nodes incl. comp executed by the driver and compared (exact on the '
    'dyadic stream incl. dyadic trees, 1e-9 elsewhere); a malformed stream compares error outcomes. The functionals in the theorems '
    'are restated in Lean; only Huber is linked to the _call model of C08/C09 (huberFn_eq_huberVal1), the others are tied by the '
    'oracle on the real code (objective at p vs probes and Nelder-Mead <= 3-d, f(p) finite, idempotence, firm non-expansiveness, '
    'Moreau bridge) for all 29 classes with a proximal. np.sqrt is a model parameter; eps fudges are parameters (theorems at '
    'eps = 0); proximal_composition: theorem under L L^t = mu Id, only square scaled-orthogonal matrices generated.')
CHECKS['C08']['technique'] = ('Lean 4 theorems on the expression model of functional.py (conjugation rules as coded) + structural and value '
                              'correspondence of Fn.conj with convex_conj + Fenchel-Young / attainment / biconjugate / Moreau oracles')
CHECKS['C08']['text'] = (
    '51 theorems (30 property, 21 helper/transfer lemmas). UNCONDITIONAL on the weighted spaces WSp w (R^n with <x,y> = sum w_i '
    'x_i y_i, all n, all w > 0, coordinate-wise leaves computed by the executed list functions): conj_sound_weighted / '
    'conj_sound_eq_weighted - for trees over L1, Linf-ball indicator, Huber(gamma>0), L2^2, Constant, IndicatorZero, QuadraticForm '
    '(linear; SPD operator with inverse) closed under LeftScalarMult(s>0), RightScalarMult(s!=0), RightVectorMult, ScalarSum, '
    'Translation, QuadraticPerturb(a=0), BregmanDistance, the convex_conj built by the coded rules (incl. merging of nested '
    'scalings/translations and the is_linear dispatch of __mul__) satisfies Fenchel-Young, with equality at the coded gradient '
    'when the tree has one. CONDITIONAL on the three leaf pairs: conj_sound / conj_sound_eq on an arbitrary real inner-product '
    'space. Rule-level only (no executed counterpart): conj_separable, conj_infconv_ineq, resolvent_unique; '
    'moreau_inverse_resolvent_bookkeeping is a bookkeeping lemma, not a Moreau theorem. Moreau decomposition is a theorem only for '
    'the coded L1 and L2^2 proximal pairs (moreau_l1_coded, moreau_l2sq_coded) and, given IsConjPair/IsProx, C07.prox_moreau. No '
    'theorem: tightness / f**=f for gradient-less classes (oracle: attainment at grad f*(y), biconjugate), SeparableSum, '
    'InfimalConvolution values, KL / Lp / group / nuclear norms, Moreau for Huber and derived trees.')
CHECKS['C09']['text'] = (
    '28 theorems (23 property, 5 helpers). grad_sound (coded gradient = gradient of coded value for every tree, under WF), '
    'derivative_eq_inner_grad, grad_comp, grad_moreau_envelope. The coordinate-wise leaf conditions of WF are DISCHARGED on the '
    'weighted spaces WSp w by wOps_leaf_wf for L1 (no zero entry) and Huber (gamma>0, no |x_i|=gamma); they remain hypotheses on '
    'an abstract space and for L2-norm / KL leaves (tested by finite differences only). lipschitz_sound / '
    'lipschitz_sound_weighted: whenever the propagated grad_lipschitz is FINITE (trees over L2^2, Constant, Huber closed under '
    'lscal/rscal/sum/ssum/trans/qp/breg; every other class gives nan and the statement is empty there) it bounds the model '
    'gradient; the Huber 1/gamma leaf is discharged on WSp w. Sensitivity: lip_right_scalar_old_fails. The true constant of '
    'MoreauEnvelope (1/sigma; code passes nan) is outside.')
for k in ('C08', 'C09'):
    CHECKS[k]['note'] = (
        'Trusted: the serializer `wire` (live object -> expression incl. the live operator.adjoint/inverse matrices; the driver checks '
        'M M^-1 = I), NumPy as exact entry-wise maps, C07\'s tie of softCode/ccL1Code/l2sqCode to proximal_operators.py. A raise of '
        'convex_conj / gradient on a modelled tree is compared with the model\'s noconj / nograd in both directions (never a silent '
        'skip). Rounding outside the model (exact on the dyadic stream, 1e-9 otherwise). The identification of ODL\'s rn / '
        'uniform_discr with WSp w is by correspondence (weights read from the live inner product).')
CHECKS['C17']['text'] = (
    '44 theorems (about 28 statements and 16 helper lemmas) about the decision model of the ufunc glue at /repo HEAD, for all '
    'methods, out tuples, NumPy result shapes and the model\'s 17 dtypes: out arity and kind rejection (tensor, discretized); the '
    'returned object is the given out, per position (tensor, discretized, legacy product-space) - the object, not its contents; '
    'exact shape, dtype and weighting of a wrapped tensor result; totality of the tensor glue (full for constant and custom '
    'weightings; for weight arrays it excludes exactly C17-F4, the cast table proved equal to NumPy\'s); discretized elements (one '
    'output, no out): __call__/accumulate for non-array weightings, reduce for constant weightings on uniform and non-uniform '
    'partitions (kept axes equal NumPy\'s independently stated rule for every valid axis list), outer with the exponent pinned, '
    'the three documented rejections; open defects C17-F10, C17-F11, C17-F6a-d as theorems on the model; legacy tables total; '
    'no-copy rule of element. Close to definitional: dispatch_ignores_operand_kinds (the result space follows the first element '
    'operand: NumPy\'s dispatch rule). NOT proved, only tested on a fixed zoo (118k cases quick, 727k thorough): all numbers - '
    'result values, contents written to out, operands untouched.')
CHECKS['C17']['note'] = (
    'NumPy\'s result (exception class or per-output none/scalar/array shape+dtype) is a parameter. Translator '
    'tools/extract/ufunc_legacy.py (canonical-form equality): RAW_UFUNCS, both registration loops, wrapper bodies, the eight legacy '
    'reductions, the live NumPy ufunc and can_cast tables. Correspondence: every case\'s outcome class, object identity, kind/shape/'
    'dtype/weighting/partition; all 114 expected model branches must be hit. Not covered: Tensor.__array_ufunc__ of base_tensors.py, '
    'a tensor and a discretized element in one call, gufuncs, where=/order=/casting=, weighted or nested product spaces, float128/'
    'complex256. Open findings C17-F4, F6a-e, F10, F11.')
CHECKS['C19']['text'] = (
    '32 theorems about an executable model. SUBSTANTIVE (27): the three rotation constructions are rotations (orthonormal, det 1); '
    'axisRot fixes its axis; rotation_matrix_from_to (generic branch) is a rotation taking u to v (det = 1 included); the '
    'constructor-derived frames; curved and circular detector alignment; det_to_src_normalised (unit length and a positive '
    'multiple of src - det point, CONDITIONAL on the leaf hypothesis sqrt(s)^2 = s, sqrt s >= 0); parallel ray direction orthogonal '
    'to the rotated axes; fan/cone radii incl. the helix (zero shift functions, constructor-accepted geometries); frommatrix '
    'rigid-motion covariance (Par3 reference point, Cone source position and reference point with shifts, Par2); '
    'Parallel2dGeometry slicing keeps position, translation and check_bounds; parallel factory coverage in 2-d and 3-d; '
    'helical_height_axis_window; fan_det_coord; fan coverage only partially with the missing part and the cone height proved to '
    'fail (F19c, open); vectorised output shape = documented broadcast shape for all inputs. DEFINITIONAL (5; they unfold the model '
    'and say nothing beyond the correspondence run): det_point_decomp, src_det_consistent, parallel_dir_const, frommatrix_initial, '
    'getitem_angles_par3d. Open: F19c, F19m (Parallel3dEulerGeometry cannot be sliced).')
CHECKS['C19']['note'] = (
    'no translator; tie = correspondence at 1e-12*(1+scale) on stored attributes and float cos/sin; normalisation executed by the '
    'driver with an approximate square root. Executed without theorem: Det*.surface/deriv for general parameters, '
    'coneHalfHeightRaw rounding, Cone.ctorRejects. Oracle only: Fan/Cone __getitem__, det_point_position / det_to_src under '
    'frommatrix, vectorised values, factory corner coverage, Tam-Danielsson window, which angles a slice keeps (C14), collinear / '
    'opposite / near-opposite branches of rotation_matrix_from_to, transform_system\'s 1e-8 snap to the default. Hypotheses '
    'c^2+s^2=1, unit axes, sqrt(s)^2 = s hold only up to rounding.')

CHECKS['C11']['text'] = (
    '19 theorems (refinement over solver state machines). Substantive: admm_step_refines / admm_refines / admm_logs_agree '
    '(carried invariant tmp_ran = L x); adupdates_step_refines / adupdates_refines (shared-buffer read-after-write; CONDITIONAL on '
    'the leaf hypothesis hprox: hoisted proximal = per-iteration proximal; adupdates_refines_needs_prox shows it is needed); '
    'doubleprox_*refines; pdhg_resume_needs_state; resume_proximal_gradient (constant lam); resume_steepest_descent (stateless '
    'line search, first call did not raise); kaczmarz / adupdates / osmlem_callback_count. BY CONSTRUCTION of the state machines '
    '(no hidden state is modelled): resume_landweber, resume_kaczmarz, resume_osmlem, pdhg_resume; callback_once is a lemma about '
    'the driver loop. That the code has no hidden state and calls back once per iteration rests on the split-run oracle (all '
    'splits for n <= 8; one shared BacktrackingLineSearch object) and on the comparison of fresh, resumed and half-resumed calls '
    'against the model. Comparison is exact on short-dyadic inputs and relative 1e-9 per iterate otherwise ("up to rounding" is '
    'that tolerance). Thorough tier draws n <= 60.')
CHECKS['C11']['note'] = (
    'Trusted: Model/Solvers.lean (one let per statement); PSpec closed forms in solverlib.py; NumPy/BLAS arithmetic as exact. '
    'Non-linear operators are compared against the model through A x^2 only. Tested only, implementation against implementation: '
    'KL, Huber, L2, group-L1, separable sums, balls; random order; pointwise inner steps under random order. Excluded: accelerated '
    'PDHG resumption, callable lam, estimate_step=True with a fresh object, gauss_newton, aliasing inside operators (C10), array or '
    'unequal weightings, complex spaces. Fixed in /repo: mlem/osmlem element sensitivities (26dfc42).')
CHECKS['C12']['text'] = (
    'PARTIAL proof + tests. 31 theorems on real inner-product spaces or ordered fields. Proved for the model: Landweber residual '
    'monotone, and error monotone with a projection; Kaczmarz error monotone in fixed order and in any order; CG energy and CGN '
    'residual monotone; cg_exact_after_dim_partial (consecutive orthogonality and conjugacy only; exactness after dim steps NOT '
    'proved); power-method estimate <= ||A|| on both branches; default step rules relative to the norm estimate '
    '(pdhg_stepsize_product / _admissible, landweber_default_omega_admissible, douglas_rachford_pd_stepsize_sum). By construction '
    'of the loop: armijo_descent, steepest_descent_mono (no projection; a raise leaves x unchanged), with backtracking_returns as '
    'the existence half. Resolvent algebra, valid for arbitrary maps related by IsProx: pdhg_, proximal_gradient_, '
    'accelerated_proximal_gradient_, admm_ (the _simple body), admm_opt_ (the optimised body under tmp_ran = L x) and '
    'forward_backward_pd_fixed_point_iff (with or without l, aliased or documented); douglas_rachford_pd_fixed_point and '
    '..._converse_partial (the converse assumes the governing point exists; l = None); isProx_soft_threshold links IsProx to the '
    'genuine subdifferential of |.|; "solution => KKT" is assumed. F12 on the model: forward_backward_pd_aliased_not_contracting, '
    '_invariant_run, _never_optimal, _never_at_solution, _distance_lower_bound, and forward_backward_pd_documented_contracts. NOT '
    'proved, TESTS only: convergence (KKT-residual decay, sub-gradient inclusion with pdhg\'s dual certificate, start-at-solution '
    'drift, objective agreement, FISTA/ISTA rates); admissibility of the default steps for the TRUE norm. Executed definitions '
    'without a theorem: DrP.last / DrP.run, accStep momentum, osmlem, drStepsize given-both branch, Douglas-Rachford with l.')
CHECKS['C12']['note'] = (
    'Trusted: Mathlib; numpy.linalg for reference quantities; Lean Float = binary64 for the sqrt paths. Real-code oracles recompute '
    'documented iterations out of place: kaczmarz incl. seeded random order, landweber incl. omega=None, mlem/osmlem with all '
    'sensitivities forms, pdhg as Chambolle-Pock Algorithm 1/2, admm_linearized, FISTA/ISTA, and forward_backward_pd as documented '
    'vs aliased. The optimality test class: f is a strongly convex quadratic only; L from the operator zoo incl. gradient, partial '
    'derivative and weighted matrix; g incl. indicators, KL, Huber, L2, group-L1; 2-3 operators against pdhg on the stacked '
    'problem. Known finding F12 open; only the alias deviation is suppressed (any other deviation of forward_backward_pd from the '
    'documented iteration is a separate violation key).')

CHECKS['C04']['technique'] = (
    'Lean 4 proof over a two-layer model; guard trees, delegations, merge rules, constructor flags and out-of-place _call bodies '
    'are extracted from the Python AST on every run and proved equal to the model; class-tree correspondence; oracle stream for '
    'mixed-field trees')
CHECKS['C04']['text'] = (
    'Proof, CONDITIONAL on leaf hypotheses. For every single-field expression tree (unbounded depth, all scalars of the field '
    'including 0, each marked Python-Real or not, arbitrary nonlinear leaves), the object built by the dispatch AS EXTRACTED from '
    'the source evaluates to the documented-table value, under EnvOK (flagged-linear leaves are R-linear, with R the scalars the '
    'leaf commutes with, e.g. the reals for RealPart-based leaves; Functional leaves return scalars) and with total division. '
    'Domain, range and Functional-ness are those of the typing rules and ill-typed expressions are rejected (unconditional). A set '
    'is_linear flag implies R-linearity (conditional) and the implied flag is always set (conditional). 14 theorems: conditional on '
    'EnvOK: build_sound_inv, build_sound, linear_flag_sound, build_sound_inplace, linear_flag_complete, extracted_dispatch_sound; '
    'unconditional apart from LeavesWf: build_type, build_total, build_rejects, buildT_eq_build(_aux); unconditional: '
    'flag_table_matches, call_table_matches; inplace_operand_order is commutativity of operand order only (buffers and aliasing '
    'belong to C03/C10).')
CHECKS['C04']['note'] = (
    'Executed definitions with no theorem: the driver\'s leaf maps; the in-place statement lists (source-text pins, each a separate '
    'obligation); constructor argument checks and MRO / reflected-first rules (hand-modelled, correspondence-tested); mixed rn/cn '
    'trees (oracle only). The override scan covers operator.py, functional.py, default_functionals.py and the live class hierarchy '
    '(211 Operator subclasses). Excluded: vanishing quotient divisors, A/0 (either a raise or an inf-scalar operator is accepted), '
    'float overflow, rounding (dyadic grid, degree <= 12, exact compare <= 45 bits, else 1e-9). Not generated: ndarray/list '
    'operands, product and discretised spaces, field-domain evaluation points. Fixed in /repo: C04-F1, C04-F2 (a87a1d2: A*a -> a*A '
    'only for Real scalars), C04-F3 (0630db6: f*A is a FunctionalComp only if fields agree).')
CHECKS['C18']['note'] = CHECKS['C18']['note'] + (
    ' Generator: equal-length axes with mixed per-axis shift tuples are enumerated in the factor (n-d) and FourierTransform '
    'streams; a list of expected strata (EXPECTED_BRANCHES) is enforced and an unhit one fails the run.')

CHECKS['C03']['text'] = CHECKS['C03']['text'].replace('23 theorems.', '30 theorems.') + (
    ' The in-place theorem for x != out (call_in_place_distinct, pso_in_place) assumes leaves that are only correct for distinct x '
    'and out (contract AllOKg False); it holds because every expression class passes a FRESH temporary to its operand '
    '(sensitivity: reusing_out_as_temporary_is_wrong; accum_leaf_ok / accum_leaf_not_alias_safe exhibit such a leaf); '
    'call_out_of_place / call_in_place for alias-tolerant leaves (used by C10) follow from the general form.')
CHECKS['C03']['note'] = CHECKS['C03']['note'] + (
    ' A harness-defined non-alias-safe leaf (`accum`: writes out before it has read x) and 90 wrapper x leaf strata (15 wrapper '
    'variants incl. cached temporaries x 6 leaves incl. Laplacian, PartialDerivative, Rosenbrock gradient) are part of every run.')

CHECKS['C15']['note'] = CHECKS['C15']['note'] + (
    ' Complex data: node values / affine exactness hold bitwise on dyadic grids and within ~1 ulp on decimal grids (NumPy complex '
    'division). The pinned bodies of _find_indices / _NearestInterpolator._evaluate are compared after sound normalisations and, '
    'failing that, probed behaviourally on an exactly representable grid against the model (evidence: extraction_source).')

CHECKS['C01']['text'] = CHECKS['C01']['text'].replace('21 theorems.', '24 theorems.').replace(
    'array-like operand coercion and power-space broadcasting it is tied by correspondence / oracle only.',
    'array-like operand coercion and out-of-place power-space broadcasting it is tied by correspondence / oracle only. IN-PLACE '
    'power-space broadcasting (x *= other, other possibly one of x\'s own parts) is a theorem: bcast_inplace_correct (with the copy '
    'guard AS EXTRACTED from _broadcast_arithmetic_impl every part gets g(part, ORIGINAL other), nothing outside the parts changes; '
    'any number of pairwise distinct parts), bcastLoop_ok, opStep_ok (the four in-place element operators meet the step contract), '
    'bcast_without_copy_fails (sensitivity: the pre-repair behaviour, /repo fix 60d322b).')
CHECKS['C01']['note'] = CHECKS['C01']['note'].replace(
    'tiny grammars, anything else is a broken obligation.',
    'and tools/extract/broadcast.py (the copy guard of _broadcast_arithmetic_impl -> Gen/Broadcast.lean). The dispatch of '
    '_lincomb_impl is translated by a small symbolic executor (local bindings of the scalars / sources, conditional expressions, '
    'merged branches, early returns); _blas_is_applicable, when it is not a plain if/elif chain, is tabulated from the LIVE function '
    'over all 32 descriptor classes after an AST vocabulary check (evidence: lincomb_translator = source=ast|live); anything outside '
    'the vocabularies is a broken obligation.')

CHECKS['C02']['note'] = CHECKS['C02']['note'].replace('67 expected model/code branches', '75 expected model/code branches') + (
    ' The correspondence includes a history stream: spaces sharing one grid, partition or weighting object, queried interleaved and '
    'compared with freshly built equal spaces.')
CHECKS['C18']['note'] = CHECKS['C18']['note'] + (
    ' tools/extract/recipgrid.py: the case tables come from the AST of reciprocal_grid and dft_postprocess_data, or, when the source '
    'has another syntactic form, are fitted behaviourally on the live functions (n = 3..9) and verified on a second set of lengths; '
    'the source (ast or live) is recorded in the evidence, and extraction fails closed otherwise.')

CHECKS['C03']['note'] = CHECKS['C03']['note'] + (
    ' The zoo instances are chosen per _call branch: a per-class branch-coverage table is measured on every run (sys.monitoring), '
    'and an untaken branch outside the recorded baseline fails the thorough tier. The wrapper strata include Operator.__pow__ '
    '(n = 1..4) and the derivative and adjoint wrappers that share a cached temporary. Open finding C03-F12 (Huber(space, 0).gradient).')
CHECKS['C10']['note'] = CHECKS['C10']['note'] + (
    ' Statelessness is tested per instance and across instances of one factory or class, against operators built by a new factory call.')

CHECKS['C01']['text'] = CHECKS['C01']['text'].replace('24 theorems.', '25 theorems.').replace(
    'Integer dtypes are claimed with integer scalars',
    'small_correct: the small-size branch is an extracted program of direct NumPy expressions too (Gen progSmall), so a change of '
    'its form is re-proved, not assumed. IEEE special values are outside the exact model: an oracle-only stream compares * and / '
    '(incl. x / x with one object) and one-term lincombs on inf / nan / signed zeros with NumPy\'s entry-wise result (open finding '
    'C01-F3: below 100 entries c * x, -x, x / c, assign turn inf into nan). Integer dtypes are claimed with integer scalars')

CHECKS['C18']['text'] = CHECKS['C18']['text'].replace('38 theorems', '40 theorems').replace(
    'pyfftw_planning_guards_cover_both_arrays', 'pyfftw_planning_guards_cover_both_arrays, pyfftw_executed_plan_matches_call / '
    'pyfftw_executed_plan_old_mismatch (Boolean facts about the guard that a cached FFTW plan is executed only with the aliasing it '
    'was planned for; /repo fix 5b6c0e9)')
CHECKS['C18']['note'] = CHECKS['C18']['note'] + (
    ' Operator streams use lengths <= 9, plus a size stratum (1-d 100, 128, 400, 1000; 2-d (65, 33), (30, 100)) and a call-history '
    'stratum per operator instance; both are oracle-only (numpy.fft or a fresh operator, no model values at those sizes).')
CHECKS['C12']['note'] = CHECKS['C12']['note'] + (
    ' Default-step streams include a call-history stratum (adversarial op.norm(estimate=...) calls on the same operator before the '
    'solver; steps must equal those for a freshly built equal operator). Open finding F21: power_method_opnorm can stop early at the '
    'second singular value, making the default pdhg / Landweber steps inadmissible for the true norm.')
CHECKS['C04']['note'] = CHECKS['C04']['note'] + (
    ' Ownership and history strata: user vectors overwritten / used as out after the expression was built, every object evaluated '
    'in both conventions twice, user-supplied temporaries, one operator object occurring several times (oracle-only protocol '
    'stream). Fixed: C04-F4 (ae56df3: A + v and f * v store a copy of the user vector).')

CHECKS['C03']['note'] = CHECKS['C03']['note'] + (
    ' The oracle also checks result ownership (the caller overwrites the returned element and reuses it as out; later calls must '
    'be unchanged and no memory is shared with operator state; results that are views of x are listed, not violations) and memory '
    'layout and size (x and out Fortran-ordered or strided, 2-d spaces above the BLAS threshold, bitwise against C copies).')

CHECKS['C02']['note'] = CHECKS['C02']['note'].replace('75 expected model/code branches', '165 expected model/code branches') + (
    ' A large stream checks every size-dependent branch of npy_tensors.py on both sides of its threshold for each dtype class x '
    'weighting kind x layout against NumPy reference sums (complex data with non-real inner products).')
CHECKS['C11']['note'] = CHECKS['C11']['note'] + (
    ' Resume strata also hand the state back in equal but separately built spaces, from a run on an equal but distinct operator, '
    'and in float32.')

CHECKS['C02']['note'] = CHECKS['C02']['note'].replace('165 expected model/code branches', '295 expected model/code branches') + (
    ' Validation stream: documented constructor rejections must raise and legal neighbours pass the full oracle. Magnitude stream: '
    'homogeneity, finiteness and positivity on 2^k-scaled vectors on every path (open findings C02-F6 / C02-F7: p-norms from '
    'unscaled powers overflow / underflow at extreme magnitudes; the theorems are over exact arithmetic and do not cover the IEEE '
    'range).')
CHECKS['C18']['note'] = CHECKS['C18']['note'] + (
    ' Executed definitions with no theorem also include normAxes and adjointExposed. Generator: wavelet family cross over all '
    'discrete PyWavelets families (adjoint exposed exactly for orthogonal wavelets), argument-form strata for every constructor '
    'option of the DFT, FT and wavelet operators and the ft_utils functions, the documented equivalences; PyWavelets\' own '
    'reconstruction error bounds the demanded accuracy (dmey ~1e-2).')
CHECKS['C13']['note'] = CHECKS['C13']['note'] + (
    ' Explicit range= / domain= options (other dtype, equal-but-distinct space, weighted power spaces) are part of the operator '
    'streams: adjoint spaces swapped, full-basis inner-product identity (open findings C13-F1 / C13-F2: weighted power spaces in '
    'Gradient / Divergence adjoints, same root cause as C05 F56).')
CHECKS['C16']['note'] = CHECKS['C16']['note'] + (
    ' Result ownership (result never aliases the input, identity resizes included), a validation stream (38 documented rejections '
    'with their nearest legal neighbours), history streams (reused kwargs dict / operator / arrays) and the domain-dtype x '
    'range-dtype x pad_const cross are part of every run.')
CHECKS['C05']['note'] = CHECKS['C05']['note'] + (
    ' Adjoint gates (every family / option that decides whether .adjoint is exposed: all pywt families, affine and non-linear '
    'variants: documented error or full-matrix identity), magnitude strata (weights and cell volumes 2^-40..2^40, near-equal '
    'pairs) with relative tolerances, minimal sizes for every family.')
CHECKS['C11']['note'] = CHECKS['C11']['note'] + (
    ' On the non-exact stream the per-iterate tolerance is 1e-9*scale + 1e-2 * (sensitivity envelope measured by re-running the real '
    'code with inputs perturbed by +-1e-9), so amplification and threshold flips caused by rounding-sized differences do not count.')
CHECKS['C12']['note'] = CHECKS['C12']['note'] + (
    ' Model-compared families use the same sensitivity-envelope tolerance as C11.')

CHECKS['C07']['text'] = CHECKS['C07']['text'].replace(
    'Huber (tensor space, gamma > 0, float step; gamma = 0 scalar only)',
    'Huber on tensor spaces: gamma > 0 list-level theorem (huber_list_minimises), gamma = 0 scalar theorem (huber_vi_gamma0); on '
    'product spaces Huber (including gamma = 0, the isotropic group L1-L2 norm) has NO theorem: the executed model .huberG is '
    'compared with the code and oracle-tested (edge strata edge/Huber/gamma=0/product*)')
CHECKS['C07']['note'] = CHECKS['C07']['note'] + (
    ' An edge-value stream (224 strata: documented boundary values of every parameter, points exactly on ball / box / simplex '
    'boundaries and kinks, sort ties, zero vectors, one-component product space), an argument-type stream (140 strata) and '
    'calling-convention / same-instance strata run in every tier; an unhit stratum fails the thorough tier.')
CHECKS['C17']['note'] = CHECKS['C17']['note'] + (
    ' Oracle-only strata added after the seed waves: memory layouts (F / strided / slice views) for every method, value histories '
    'per element (kept results and arrays must never change later), special values (NaN, +-inf, signed zero at every position) on '
    'every reduction-like path incl. the legacy interface, argument forms of axis / keepdims / dtype / out / indices / initial / '
    'where; the live fallback of the legacy-table translator probes with NaN / inf too. Fixed: C17-F13 (where= given as an ODL '
    'element recursed).')
CHECKS['C08']['note'] = CHECKS['C08']['note'] + (
    ' Oracle-only streams shared by C08 and C09 (functionals_common.py): history (every sub-expression re-evaluated bitwise after '
    'derived objects were built), wide (complex, float32, size-1 spaces; three calling conventions of every operator-valued '
    'attribute), argument forms, validation (50 documented rejections with legal neighbours), defaults computed from the space.')
CHECKS['C15']['note'] = CHECKS['C15']['note'] + (
    ' Further strata: memory layouts with layout independence, exhaustive coordinate-aliasing / ownership checks for callables '
    'returning a coordinate, every vectorisation route with a call history.')

CHECKS['C20']['text'] = CHECKS['C20']['text'].replace('38 theorems.', '39 theorems.', 1) + (
    ' pspace_element_cast_false: ProductSpace.element(cast=False) returns members and sequences of members of equal spaces '
    'unchanged and agrees with cast=True apart from the TypeError branch.')
CHECKS['C20']['note'] = CHECKS['C20']['note'] + (
    ' History stream (chains of astype / real_space / complex_space over all dtypes compared with freshly built equal spaces) and '
    'an options stream (every space kind x input kind x keyword option of element(): order, data_ptr, cast, equal-but-distinct '
    'spaces, layouts) run in every tier.')

# ---- final round: theorems added about executed definitions -------------------------------
import re as _re


def _count(pid, n):
    CHECKS[pid]['text'] = _re.sub(r'\b\d+ theorems', '{} theorems'.format(n), CHECKS[pid]['text'], count=1)


_count('C02', 25)
CHECKS['C02']['text'] += (
    ' FINAL ROUND: dist is a pseudo-metric on every space tree: dist_triangle (p in {1, 2, inf} and generic p >= 1), '
    'dist_self_and_nonneg, together with dist_comm. Every norm is a lattice norm (norm_mono): entry-wise domination of moduli '
    'implies domination of norms, at every nesting depth and on every exponent branch. Explicit-grid discretized spaces (arbitrary '
    'per-axis-side boundary fractions): <1,1> = c * prod(n - 2 + fl + fr) (discr_explicit_one_inner). The boundary test with its '
    'real np.isclose tolerance, unidealised (discr_one_inner_with_tolerance): <1,1> = c * prod(n - 2 + fl\' + fr\') with the fractions '
    'the code applies, each axis total within 2 eps of the exact one. Executed without theorem now: the Float evaluation of norms, '
    'custom inner/norm/dist.')
_count('C05', 31)
CHECKS['C05']['text'] += (
    ' FINAL ROUND: adj_exposed: the model\'s .adjoint is defined exactly for trees without a non-linear operand (every class, every '
    'depth; the driver\'s noadj answers, compared with OpNotImplementedError of the code). adj_adj: for every expression class '
    '(incl. Left/RightVectorMult, FunctionalLeftVectorMult, right scalar multiples with non-real scalar) A.adjoint.adjoint exists '
    'and acts like A, CONDITIONAL on the leaf hypotheses leavesAA / leavesTyped, which leaf_adj_adj (12 leaf kinds) and leaf_typed '
    '(all modelled leaves) discharge; adj_adj_partial is subsumed. run_add / leaf_run_add: the executed action run t is additive '
    'for every tree over the modelled leaves (all but opaque / nonlin / ComponentProjectionAdjoint, whose additivity is a hypothesis).')
_count('C06', 18)
CHECKS['C06']['text'] += (
    ' FINAL ROUND: model_central_diff_rate (over R the central-difference error of every executed tree is exactly h^2 Q(h) for a '
    'polynomial Q: the O(h^2) rate, no leaf hypotheses; the analytic form of central_diff_poly_partial; the rate stays oracle-only '
    'for classes outside the polynomial model), deriv_extensional (two executed trees computing the same map over R have derivatives '
    'acting identically: derivative is well defined on the operator as a map), deriv_deriv (derivative(x).derivative(y) exists and '
    'acts like derivative(x), any commutative ring; the second derivative call is executed by the driver and compared with the code).')
_count('C07', 62)
CHECKS['C07']['text'] += (
    ' FINAL ROUND, laws of the executed evaluator for all sub-trees and lists: the separable-sum node splits at the first summand\'s '
    'length and concatenates, for a float step and for a list of per-summand steps (sep_prox_append_scalar, sep_prox_append_list); '
    'the array-weighted sum-constraint projection is proved on lists (sumc_weighted_list_projection); the executed L1 proximal is '
    'firmly non-expansive in every non-negatively weighted norm with scalar or point-wise steps (l1_list_firmly_nonexpansive); the '
    'executed box projection is idempotent (box_list_idempotent). Optimality through .sep has only its split law proved.')
CHECKS['C08']['text'] = _re.sub(r'\b51 theorems \(30 property, 21 helper/transfer lemmas\)', '55 theorems (32 property, 23 helper)', CHECKS['C08']['text'])
_count('C08', 55)
CHECKS['C08']['text'] += (
    ' FINAL ROUND: conj_evaluable: for every expression of the fragment the coded convex_conj is an evaluable functional (never the '
    'default wrapper). biconj_leaves: f** = f as a theorem for the built-in pairs L1 / Linf-ball indicator / Constant / IndicatorZero '
    '(structural round trip of Fn.conj) and L2NormSquared (values); for derived trees and gradient-less classes f** = f stays oracle '
    '/ correspondence only.')
CHECKS['C09']['text'] = _re.sub(r'\b28 theorems \(23 property, 5 helpers\)', '33 theorems (27 property, 6 helper)', CHECKS['C09']['text'])
_count('C09', 33)
CHECKS['C09']['text'] += (
    ' FINAL ROUND: grad_sound_weighted: on the weighted spaces WSp w (all n, w > 0) the coded gradient is the gradient of the coded '
    'value and derivative(x)(d) is the Frechet derivative for every tree, with NO hypotheses on the space (coordinate-wise leaves and '
    'pointwise multiplication discharged by wOps_leaf_wf / wOps_mul_symmetric; remaining side conditions WFw: no leaf argument at a '
    'kink, non-zero quotient denominators, user operators bounded with the supplied adjoint). menv_lipschitz: the true constant '
    '1/sigma of MoreauEnvelope.gradient (code passes nan) is a theorem for every firmly non-expansive proximal, instantiated for the '
    'executed L2^2 proximal (menv_l2sq_prox_firm).')
_count('C11', 20)
CHECKS['C11']['text'] += (
    ' FINAL ROUND: adupdates_independent_of_buffers - x, duals and callback log of the executed optimised adupdates do not depend on '
    'the initial content of the shared temporaries, for every buffer assignment and every n.')
_count('C12', 37)
CHECKS['C12']['text'] += (
    ' FINAL ROUND, about executed definitions: fista_momentum_identity / fista_t_ge_one (the FISTA t-sequence of accStep: t\'^2 - t\' = '
    't^2, t >= 1, alpha in [0,1)); douglas_rachford_pd_run_returns_last_callback / _run_zero (a call with niter = n+1 calls back n+1 '
    'times and returns the proximal point shown to the last callback); osmlem_consistent_fixed_point (CONDITIONAL on four entry-wise '
    'leaf hypotheses: a point reproducing the data of every subset is a fixed point of MLEM/OSMLEM); stepsize_given_returned_as_is. '
    'Remaining executed definitions without a theorem: Douglas-Rachford with l terms.')
_count('C13', 30)
CHECKS['C13']['text'] += (
    ' FINAL ROUND: pad_const_ignored_unless_constant (only the constant leaves read pad_const); size_error_kind (which exception the '
    'size checks raise, all n); is_linear_iff_zero_to_zero (the executed linear flag is exact for every instance); '
    'op_derivative_is_derivative (the instance .derivative returns is the derivative of the 1-d action, for every instance); '
    'op_adjoint_is_transpose (the instance .adjoint returns is minus the transpose for every linear PartialDerivative / Gradient / '
    'Divergence instance, any carried pad_const); divergence_eq_stencil_sum, divergence_affine (Divergence._call as a sum of '
    'stencils; its derivative).')
CHECKS['C14']['text'] = _re.sub(r'\b36 theorems', '40 theorems (36 about the current code, 4 sensitivity)', CHECKS['C14']['text'], count=1)
CHECKS['C14']['text'] += (
    ' FINAL ROUND: complete_axis_sound (every completed uniform_partition request is consistent: exact when a limit is computed, '
    'within the integrality epsilon when the shape is computed, within isclose when all four are given), getitem_negative_step (a '
    'negative step never yields two or more cells), byaxis_slice (byaxis[start:stop:step], arbitrary bounds, step >= 1: exactly the '
    'axes s, s+step, ... in order), squeeze_idempotent.')
_count('C15', 24)
CHECKS['C15']['text'] += (
    ' FINAL ROUND: the corner loop as executed (fold over the 2^d corners in product order) is the tensor product of the per-axis '
    'rules in every dimension (corner_loop_is_tensor_product); interpolation is linear in the value array for every scheme mix, '
    'dimension and point (interp_linear_in_values); inside the hull the interpolant of real data never leaves [min, max] of the '
    'stored values, for every linear / nearest mix, all dimensions, non-uniform grids (interp_within_value_bounds); single-point '
    'sampling delivers the callable\'s single entry for every callable kind and return shape (sampling_single_point).')
_count('C16', 29)
CHECKS['C16']['text'] += (
    ' FINAL ROUND: constant_pad_affine (constant padding is affine with linear part zero-padding = the derivative), identity_resize '
    '(same length, any offset, every mode and direction: values unchanged), adjoint_scaling_normal_form (the adjoint as coded, '
    'opAdjointW, equals the normal form W_D^-1 R^T W_R = opAdjointND on one axis, no non-zero hypothesis), identity_resize_nd '
    '(forward), nd_offset_refused (an out-of-range offset in any axis refuses resizeND).')
CHECKS['C17']['text'] = _re.sub(r'\b44 theorems \(about 28 statements and 16 helper lemmas\)', '56 theorems (about 36 statements and 20 helper lemmas)', CHECKS['C17']['text'])
_count('C17', 56)
CHECKS['C17']['text'] += (
    ' FINAL ROUND, for all inputs: the out tuple normal form (explicit Nones are the same as no out, for tensor and discretized '
    'elements); the kept axes of a discretized reduce are strictly increasing, in range, and select a sublist of the partition for '
    'every axis argument; NumPy\'s axis rule npReduce only deletes entries; the model\'s safe can_cast (equal to NumPy\'s table) is a '
    'partial order and implies same_kind casting; the closed form of the legacy product-space wrappers (the two-output wrapper '
    'succeeds iff every missing out can be cast into); the result spaces of two-output ufuncs on discretized elements.')
_count('C18', 46)
CHECKS['C18']['text'] += (
    ' FINAL ROUND, n-d lifting for every shape and axis position, about the executed fibre operator alongAxis: '
    'along_axis_left_inverse; dft_inverse_along_axis (plain DFT and its paired inverse along one axis of an n-d array); '
    'ft_inverse_along_axis (continuous FT along one axis, the steps of the executed ftForwardSepNd / ftInverseSepNd). Wavelets: '
    'crop_shape_ok (cropShape in any dimension, conditional on admissible waverecn lengths like crop_rule); pad_mode_spec and '
    'pad_mode_documented (full characterisation of padMode over the regenerated table). Still without theorem: composition of '
    'several different axes (applyAxes with more than one step).')
CHECKS['C19']['text'] = _re.sub(r'\b32 theorems', '38 theorems (33 substantive, 5 definitional)', CHECKS['C19']['text'], count=1)
CHECKS['C19']['text'] += (
    ' FINAL ROUND: curved 3-d detectors for ALL parameters: sphere and cylinder radius, tangency, orthogonality and lengths of '
    'surface_deriv, normal length (curved_detector_all_params). Fan and cone circle radii also WITH shift functions '
    '(fan_radii_shifted, cone_radii_shifted). The cone constructor\'s degeneracy test rejects exactly the parallel case and '
    'guarantees a non-zero tangent (cone_ctor_rejects). Under a rotation init_matrix, detector surfaces of all three 3-d detector '
    'types, det_point_position and un-normalised det_to_src of ConeBeam and Parallel3dAxis are the rigid image of the default '
    'geometry\'s (detector_frommatrix_covariant, frommatrix_consistent_det_point).')
_count('C20', 43)
CHECKS['C20']['text'] = CHECKS['C20']['text'].replace('PROVED LAWS (28)', 'PROVED LAWS (32)') + (
    ' FINAL ROUND, conversion laws about the executed definitions astype / realSpace / complexSpace / byaxis / Discr.astype: '
    'astype_idem (casting twice = once, incl. raising cases); real_complex_stabilise (for every dtype of the regenerated tables '
    'real_space and complex_space are idempotent and c = s.complex_space, r = c.real_space form an exact pair, float16 included); '
    'conversions_respect_eq and discr_astype_respects_eq (history independence on the model: spaces that compare equal have '
    'conversions that both raise or compare equal again, and astype never changes the partition). Not proved: the same for nested '
    'product spaces (Space.astype), which stays correspondence plus history oracle only.')

_count('C04', 18)
CHECKS['C04']['text'] += (
    ' FINAL ROUND: unconditionally - leaf hypotheses discharged by zoo_leaves_ok - for every expression over the executable leaf zoo '
    '(Scaling, Identity, Power, ShiftPower, Matrix of any shape, Constant, Zero; all sizes, exponents and entries) the built object '
    'evaluates to the table value, and a set is_linear flag means linear (build_sound_zoo, linear_flag_sound_zoo). Every built '
    'object, for every expression, is in merged scalar normal form (build_merged), checked against the real class tree on every '
    'case. The driver\'s inner / linf / l2sq / repart / impart / scalef / powf leaf maps remain executed without theorem.')

_count('C03', 32)
CHECKS['C03']['text'] += (
    ' FINAL ROUND: result ownership on the model: op(x) of a Sum / VectorSum / PointwiseProduct / LeftScalarMult / LeftVectorMult / '
    'FunctionalLeftVectorMult node over any well-formed tree returns an object that did not exist before the call '
    '(wrapper_result_is_new_object), and a second op(x) on the store left by the first returns the same value with x unchanged '
    '(second_call_same_value).')
_count('C10', 12)
CHECKS['C10']['text'] += (
    ' FINAL ROUND: the executed programs are stateless: the aliased result depends only on x and the closed-over data '
    '(result_depends_only_on_x_and_data), and after ANY number of aliased calls on the same store the data are unchanged and x holds '
    'the n-fold iterate of the map computed from a fresh store (history_invariant; aliasedCalls is executed by the driver and '
    'compared with 3 aliased calls on the real operators).')

# ---- round 4: each property's own report docs/round4/Cxx.json (theorems_total, text_append) ----
import glob as _glob

for _f in sorted(_glob.glob(os.path.join(HERE, 'docs', 'round4', 'C*.json'))):
    try:
        _r = json.load(open(_f))
    except Exception:
        continue
    _pid = _r.get('property')
    if _pid in CHECKS and _r.get('text_append'):
        # the count is taken from the Props file itself so that text and file cannot drift apart
        try:
            _n = sum(1 for _l in open(os.path.join(HERE, 'lean', 'OdlModel', 'Props', _pid + '.lean'))
                     if _l.startswith('theorem ' + _pid + '.'))
            _count(_pid, _n)
        except Exception:
            pass
        _t = _r['text_append'].strip()
        if not _t.upper().startswith('ROUND 4'):
            _t = 'ROUND 4: ' + _t
        CHECKS[_pid]['text'] += ' ' + _t
        _t5 = (_r.get('text_append5') or '').strip()
        if _t5:
            if not _t5.upper().startswith('ROUND 5'):
                _t5 = 'ROUND 5: ' + _t5
            CHECKS[_pid]['text'] += ' ' + _t5

NOT_YET = {}


def findings_sentence(pid):
    """Kept in sync with known_findings.json: the open findings (reported as KNOWN-FINDING, exit
    0) and the number of repaired defects of this property."""
    try:
        d = json.load(open(os.path.join(HERE, 'known_findings.json')))
    except Exception:
        return ''
    opn = sorted(f['id'] for f in d.get('findings', []) if f.get('property') == pid)
    nfix = sum(1 for f in d.get('fixed', []) if 'property={} '.format(pid) in f)
    return (' [known_findings.json: open findings of this property: {}; genuine defects of this '
            'property repaired in /repo by fix: commits: {}.]'.format(', '.join(opn) or 'none', nfix))


def main():
    props = [json.loads(l) for l in open(os.path.join(HERE, 'properties.jsonl'))]
    checks, na = [], []
    for p in props:
        pid = p['id']
        if pid in CHECKS:
            c = CHECKS[pid]
            checks.append({
                'property_id': pid,
                'quick_cmd': './check {} --tier quick'.format(pid),
                'thorough_cmd': './check {} --tier thorough'.format(pid),
                'evidence_file': 'evidence/{}.json'.format(pid),
                'replay_cmd_template': './check {} --replay {{path}}'.format(pid),
                'engine': 'lean4-model',
                'level_claimed': {'category': 'proof', 'text': c['text'],
                                  'design_ref': 'DESIGN.md section ' + c['design']},
                'level_note': COMMON_NOTE + c['note'] + findings_sentence(pid),
                'technique': c['technique'],
            })
        else:
            na.append({'property_id': pid,
                       'reason': NOT_YET.get(pid, 'not claimed yet: the Lean model, theorems and '
                                             'correspondence harness for this property are still '
                                             'under construction (see DESIGN.md section 6); no '
                                             'other technique is substituted')})
    m = {
        'version': 1,
        'setup_cmd': './setup.sh',
        'hooks': {
            'guard': 'ODL_VERIF',
            'enable': 'no source hooks are needed: checks import odl from /repo (editable install) '
                      'in-process; ODL_VERIF is reserved and unused by the source',
            'baseline_off_cmd': BASE,
            'source_commits': [],
            'add_only': True,
        },
        'engines': [{
            'name': 'lean4-model', 'path': 'lean/',
            'serves_properties': [c['property_id'] for c in checks],
            'kind_free_text': 'Lean 4 executable model + theorems (lake project, no require); '
                              'translator tools/extract/*.py regenerates Gen/*.lean from /repo; '
                              'correspondence harness tools/harness/*.py drives model and code '
                              'through a line protocol',
        }],
        'checks': checks,
        'not_applicable': na,
        'notes': 'Single entry point ./check Cxx --tier quick|thorough [--replay path]; exit 0 held '
                 '/ 1 VIOLATION / 2 infrastructure. known_findings.json lists recorded and fixed '
                 'defects.',
    }
    with open(os.path.join(HERE, 'MANIFEST.json'), 'w') as f:
        json.dump(m, f, indent=1)
    print('MANIFEST.json: {} checks, {} not_applicable'.format(len(checks), len(na)))


if __name__ == '__main__':
    main()
