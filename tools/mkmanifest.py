#!/usr/bin/env python3
"""Regenerates MANIFEST.json from the table below (kept valid at all times)."""
import json
import os

HERE = os.path.dirname(os.path.dirname(os.path.abspath(__file__)))
BASE = ("cd /repo && /venv/bin/python -m pytest -ra -q -p no:cacheprovider --timeout=900 "
        "--continue-on-collection-errors")

COMMON_NOTE = ("Trusted: Lean 4.33 kernel (+ leanchecker in the thorough tier); axioms limited to "
               "propext/Classical.choice/Quot.sound, audited by #print axioms on every run; no "
               "sorry/admit/native_decide/own axioms (source grep on every run). The theorems are "
               "about the Lean model; the model is tied to /repo by ")

CHECKS = {
    'C01': dict(
        technique='Lean 4 theorem over the dispatch program regenerated from the Python AST + '
                  'differential correspondence model-vs-code',
        text='Theorem C01.lincomb_correct: for every commutative ring, size/regime, identity-alias '
             'pattern, scalars and contents, the dispatch program EXTRACTED from _lincomb_impl on '
             'this run yields out = a*x1+b*x2 entry-wise and leaves other buffers untouched '
             '(plus frame and out-independence corollaries). The element-operator layer '
             '(+,-,*,/, in-place, scalar broadcast, **, copy/assign/zero/one on tensor, discretized '
             'and nested product spaces) is tied by correspondence to the entry-wise specification '
             'evaluated in the Lean driver and by an independent exact-rational oracle; that layer '
             'is not yet a theorem (partial).',
        note='the AST translator tools/extract/lincomb.py and an exact (dyadic-grid, tolerance 0) '
             'differential run of space.lincomb against the Lean execution of the extracted '
             'program; rounding, BLAS and NumPy ufunc internals are modelled as exact entry-wise '
             'maps; identity aliasing only.',
        design='6/C01'),
}

NOT_YET = {}


def main():
    props = [json.loads(l) for l in open(os.path.join(HERE, 'properties.jsonl'))]
    checks, na = [], []
    for p in props:
        pid = p['id']
        if pid in CHECKS:
            c = CHECKS[pid]
            checks.append({
                'property_id': pid,
                'quick_cmd': './check {} --tier quick'.format(pid),
                'thorough_cmd': './check {} --tier thorough'.format(pid),
                'evidence_file': 'evidence/{}.json'.format(pid),
                'replay_cmd_template': './check {} --replay {{path}}'.format(pid),
                'engine': 'lean4-model',
                'level_claimed': {'category': 'proof', 'text': c['text'],
                                  'design_ref': 'DESIGN.md section ' + c['design']},
                'level_note': COMMON_NOTE + c['note'],
                'technique': c['technique'],
            })
        else:
            na.append({'property_id': pid,
                       'reason': NOT_YET.get(pid, 'not claimed yet: the Lean model, theorems and '
                                             'correspondence harness for this property are still '
                                             'under construction (see DESIGN.md section 6); no '
                                             'other technique is substituted')})
    m = {
        'version': 1,
        'setup_cmd': './setup.sh',
        'hooks': {
            'guard': 'ODL_VERIF',
            'enable': 'no source hooks are needed: checks import odl from /repo (editable install) '
                      'in-process; ODL_VERIF is reserved and unused by the source',
            'baseline_off_cmd': BASE,
            'source_commits': [],
            'add_only': True,
        },
        'engines': [{
            'name': 'lean4-model', 'path': 'lean/',
            'serves_properties': [c['property_id'] for c in checks],
            'kind_free_text': 'Lean 4 executable model + theorems (lake project, no require); '
                              'translator tools/extract/*.py regenerates Gen/*.lean from /repo; '
                              'correspondence harness tools/harness/*.py drives model and code '
                              'through a line protocol',
        }],
        'checks': checks,
        'not_applicable': na,
        'notes': 'Single entry point ./check Cxx --tier quick|thorough [--replay path]; exit 0 held '
                 '/ 1 VIOLATION / 2 infrastructure. known_findings.json lists recorded and fixed '
                 'defects.',
    }
    with open(os.path.join(HERE, 'MANIFEST.json'), 'w') as f:
        json.dump(m, f, indent=1)
    print('MANIFEST.json: {} checks, {} not_applicable'.format(len(checks), len(na)))


if __name__ == '__main__':
    main()
