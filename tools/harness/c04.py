"""C04 — operator arithmetic means what the algebra table says.

Tie to /repo (correspondence): typed random expression trees and a systematic enumeration of
all two-level combinations over a pool of real ODL leaves (linear / nonlinear / Functional /
non-Functional with field range, on rn and cn).  For every tree the real object is built with
the Python operators and compared with the Lean model (`build`, `run`, `runIn`, `den`,
`typeOf` through Drivers/C04.lean):
  * the CLASS TREE (type names recursively, merged scalars, stored vectors) == `build e`,
  * raising == `build e = none`,
  * domain / range / is_linear / isinstance Functional,
  * values out-of-place and in-place == `run` / `runIn`.
Oracle (independent of the model, on the real code): the documented table applied
recursively to the real leaves (reference interpreter), a re-implementation of the typing
rules (well-typed expressions must build, with the implied domain/range), and a numerical
linearity test for every object whose `is_linear` flag is set.
"""
import sys
from fractions import Fraction

import numpy as np

if hasattr(sys, 'set_int_max_str_digits'):
    sys.set_int_max_str_digits(0)

from vf import core
from vf.core import fs
from extract import algebra_dispatch

EXTRA_TARGETS = ()


def regenerate(ctx):
    changed, asserts = algebra_dispatch.regenerate()
    return [('extract(overload guard trees, delegations, merge rules, is_linear and _call tables '
             '-> Gen/AlgebraDispatch.lean)', True, 'regenerated' if changed else 'unchanged')] + \
        [(n, bool(ok), d) for n, ok, d in asserts]


RULE = ('random typed expression trees (depth <= 6 quick / <= 9 thorough) plus the systematic '
        'enumeration (leaf op1) op2 of the two-level combinations (all level-1 forms; a seed-chosen sample of the level-2 forms: 5-8 % quick, 10 % thorough), over leaves {Matrix, Scaling, '
        'Identity, Power 2/3, InnerProduct, linear Functional, L2NormSquared, Constant, Zero} on '
        'rn(2), rn(3), cn(2), cn(3); scalars {0, +-1, +-2, +-1/2, 3, (1j, 1+1j)}; values on the '
        'dyadic grid. Non-trivial = the expression builds and its value at the sample point is '
        'not identically zero. distinct = distinct (field, class tree with leaves replaced by '
        'their kind and scalars by their class {0,1,-1,other}) among non-trivial cases.')
TRUSTED = ['translator tools/extract/algebra_dispatch.py + dispatch_interp.py (the overload bodies are '
           'executed per abstract operand class over a closed vocabulary -> canonical decision '
           'tables in Gen/AlgebraDispatch.lean; source=AST, nothing is tabulated live; anything '
           'outside the vocabulary aborts); the abstract semantics of the test atoms is that of '
           'Guard.eval in Model/OpDispatch.lean',
           'Python operator-overload semantics (__op__/__rop__ order, NotImplemented, '
           '__array_priority__, reflected-first rule for subclasses) as encoded in `build`',
           'leaf operators are opaque in the general theorems (EnvOK: flagged-linear leaves are linear, '
           'Functional leaves return scalars); for the executable pool (LeafSpecC: every leaf kind '
           'the driver runs) EnvOK is a theorem (C04.zoo_full_leaves_ok, build_sound_zoo_full, '
           'build_sound_driver_pool) and the leaf maps / flags / linearity classes are compared '
           'with the real operators on the stream `leafclass`; the harness classes ShiftPower and '
           'LinFunctional are themselves test fixtures']
ASSUMPTIONS = ['EnvOK: a leaf flagged is_linear is additive and homogeneous for the scalars in R (R = all '
               'scalars, or the real ones when a leaf is only real-linear such as RealPart-based '
               'leaves on cn); a Functional leaf returns a scalar; scalars marked Real are in R',
               'the model has one field per tree (all-real or all-complex); trees mixing rn and cn '
               '(RealPart, ImagPart, ComplexEmbedding) are checked against the documented table '
               'only (oracle stream `mixed`), no theorem covers them',
               'points where a FunctionalQuotient divisor vanishes, `A / 0`, `(f/g) * 0` with '
               'g(0) = 0 and float overflow are outside the statements (Lean x/0 = 0); such cases '
               'are executed and counted under skip/…, not compared',
               'in-place evaluation: the out= branches are the EXTRACTED statement lists (Gen '
               'inplaceOf, interpreted by runInBy with unspecified contents of `out` and of fresh '
               'temporaries; theorem C04.inplace_programs_sound); registers are distinct values: '
               'ALIASING of x / out / cached temporaries is C03/C10 and only tested here',
               'floating-point rounding is outside the model; values are on a dyadic grid and '
               'compared exactly when every intermediate value has <= 45 significant bits, '
               'otherwise with relative tolerance 1e-9',
               'element arithmetic (s*x, x*v, x+y) is C01; identity aliasing / temporaries are C03/C10',
               'leaf classes are not subclasses of the expression classes (no reflected-first '
               'dispatch between a leaf and an expression object)']

EXACT_BITS = 45
INPX_FRACTION = 0.34
LEVEL2_KEEP_THOROUGH = 0.10


# ---------------------------------------------------------------------------
# wire helpers

def cs(z):
    if isinstance(z, (complex, np.complexfloating)):
        z = complex(z)
        return fs(z.real) if z.imag == 0 else fs(z.real) + ':' + fs(z.imag)
    return fs(z)


def cl(vals):
    vals = list(vals)
    return ','.join(cs(v) for v in vals) if vals else '-'


def parse_c(tok):
    if ':' in tok:
        a, b = tok.split(':')
        return (core.pfrac(a), core.pfrac(b))
    return (core.pfrac(tok), Fraction(0))


def parse_cl(s):
    return [] if s in ('', '-') else [parse_c(t) for t in s.split(',')]


def exact(z):
    """exact (re, im) of a python/numpy number; None if not finite"""
    z = complex(z)
    if z != z or abs(z.real) == float('inf') or abs(z.imag) == float('inf'):
        return None
    return (Fraction(z.real), Fraction(z.imag))


def flat(val):
    """python scalar or ODL element -> list of python complex/float"""
    if hasattr(val, 'asarray'):
        return [v for v in np.asarray(val.asarray()).ravel().tolist()]
    return [val]


def bits(vals):
    b = 0
    for v in vals:
        e = exact(v)
        if e is None:
            return 10 ** 6
        for f in e:
            b = max(b, f.numerator.bit_length(), f.denominator.bit_length())
    return b


def bits_exact(pairs):
    b = 0
    for p in pairs:
        for fr in p:
            b = max(b, fr.numerator.bit_length(), fr.denominator.bit_length())
    return b


# ---------------------------------------------------------------------------
# leaves

class LeafRec(object):
    def __init__(self, kind, spec, op, dom, ran, lin, fn):
        self.kind, self.spec, self.op = kind, spec, op
        self.dom, self.ran, self.lin, self.fn = dom, ran, lin, fn


def sp_name(space):
    import odl
    if isinstance(space, odl.set.sets.Field):
        return 'F'
    return 'v{}'.format(space.size)


def make_pool(rng, cplx):
    """Real ODL leaves + their driver specs; id = position."""
    import odl

    class LinFunctional(odl.solvers.Functional):
        """x -> <x, y> (linear in x); user-defined leaf for complex spaces."""

        def __init__(self, y):
            super(LinFunctional, self).__init__(space=y.space, linear=True)
            self.y = y

        def _call(self, x):
            return x.inner(self.y)

    class ShiftPower(odl.Operator):
        """out[j] = x[(j+1) mod n] ** p.  Correct out-of-place and in-place, but NOT alias-safe:
        the in-place branch zeroes `out` before it reads `x` (like finite-difference
        operators), so an expression class that hands it `out` as its input gets a wrong value."""

        def __init__(self, space, p):
            super(ShiftPower, self).__init__(space, space, linear=(p == 1))
            self.p = p

        def _call(self, x, out=None):
            if out is None:
                return self.range.element(np.roll(x.asarray(), -1) ** self.p)
            out.set_zero()
            out.data[...] += np.roll(x.asarray(), -1) ** self.p

    class ReturnArg(odl.Operator):
        """Identity whose out-of-place result IS its argument (as RealPart on a real space):
        an expression class that feeds it a cached temporary returns that temporary."""

        def __init__(self, space):
            super(ReturnArg, self).__init__(space, space, linear=True)

        def _call(self, x, out=None):
            if out is None:
                return x
            out.assign(x)

    mk = (lambda n: odl.cn(n)) if cplx else (lambda n: odl.rn(n))
    spaces = {2: mk(2), 3: mk(3)}

    def rvals(n, lo=-3, hi=3, nz=False):
        out = []
        for _ in range(n):
            a = rng.randint(lo, hi)
            if nz and a == 0:
                a = 1
            if cplx and rng.random() < 0.5:
                out.append(complex(a, rng.randint(-2, 2)))
            else:
                out.append(float(a))
        return out

    pool = []

    def add(kind, spec, op, lin=None, fn=None):
        # the dispatch-visible flags are READ from the live object and sent on the wire
        lin = bool(op.is_linear)
        fn = isinstance(op, odl.solvers.Functional)
        pool.append(LeafRec(kind, '{}{}~{}'.format(int(lin), int(fn), spec), op,
                            sp_name(op.domain), sp_name(op.range), lin, fn))

    for nd, nr in [(3, 3), (2, 3), (3, 2), (2, 2)]:
        rows = [rvals(nd, -2, 2) for _ in range(nr)]
        mat = np.array(rows, dtype=complex if cplx else float)
        add('mat', 'mat~{}~{}~{}'.format(nd, nr, ';'.join(cl(r) for r in rows)),
            odl.MatrixOperator(mat, domain=spaces[nd], range=spaces[nr]), True, False)
    if cplx:
        # flagged is_linear=True by the library but only REAL-linear (EnvOK with R = reals)
        for n in (2, 3):
            emb = odl.ComplexEmbedding(odl.rn(n))
            add('repart', 'repart~{}'.format(n), emb * odl.RealPart(spaces[n]))
            add('impart', 'impart~{}'.format(n), emb * odl.ImagPart(spaces[n]))
    fld = spaces[2].field
    add('scalef', 'scalef~2', odl.ScalingOperator(fld, 2.0), True, False)
    add('powf', 'powf~2', odl.PowerOperator(fld, 2), False, False)
    for n in (2, 3):
        sp = spaces[n]
        c = rng.choice([2.0, -1.0, 0.5, 3.0])
        add('scale', 'scale~{}~{}'.format(n, cs(c)), odl.ScalingOperator(sp, c), True, False)
        add('ident', 'ident~{}'.format(n), odl.IdentityOperator(sp), True, False)
        add('pow2', 'pow~{}~2'.format(n), odl.PowerOperator(sp, 2), False, False)
        add('retarg', 'ident~{}'.format(n), ReturnArg(sp))
        if not cplx:
            add('repartr', 'ident~{}'.format(n), odl.RealPart(sp))   # returns its argument
        add('shiftsq', 'shift~{}~2'.format(n), ShiftPower(sp, 2))
        add('shift', 'shift~{}~1'.format(n), ShiftPower(sp, 1))
        if n == 3:
            add('pow3', 'pow~{}~3'.format(n), odl.PowerOperator(sp, 3), False, False)
        y = rvals(n, -2, 2)
        add('inner', 'inner~{}~{}'.format(n, cl(y)), odl.InnerProductOperator(sp.element(y)),
            True, False)
        y = rvals(n, -2, 2)
        if cplx:
            lf = LinFunctional(sp.element(y))
        else:
            lf = odl.solvers.QuadraticForm(vector=sp.element(y))
        add('linf', 'linf~{}~{}'.format(n, cl(y)), lf, True, True)
        add('l2sq', 'l2sq~{}'.format(n), odl.solvers.L2NormSquared(sp), False, True)
        c = rng.choice([1.0, -2.0, 0.5])
        add('constf', 'constf~{}~{}'.format(n, cs(c)), odl.solvers.ConstantFunctional(sp, c),
            False, True)
        add('zerof', 'zerof~{}'.format(n), odl.solvers.ZeroFunctional(sp), True, True)
    return pool, spaces


# ---------------------------------------------------------------------------
# expression ASTs (tuples)
#   ('L', id) ('neg', a) ('pow', a, n) (bop, a, b[, '@']) ('s.op', a, scalar) ('v.op', a, [entries])

BOPS = ('add', 'sub', 'mul', 'pprod', 'quot')
SOPS = ('s.lmul', 's.rmul', 's.div', 's.add', 's.radd', 's.sub', 's.rsub')
VOPS = ('v.lmul', 'v.rmul', 'v.add', 'v.radd', 'v.sub', 'v.rsub')


def is_real(s):
    import numbers
    return isinstance(s, numbers.Real)


def exotic(rng, c):
    """the same real value as another `numbers.Number` type (NumPy scalars, bool, Fraction)"""
    if isinstance(c, complex):
        return np.complex128(c) if rng.random() < 0.5 else c
    r = rng.random()
    if c in (0, 1) and r < 0.2:
        return bool(c)
    if r < 0.4:
        return np.float64(c)
    if r < 0.55:
        return np.float32(c)
    if r < 0.7 and float(c) == int(c):
        return np.int64(int(c))
    if r < 0.85:
        return Fraction(c)
    return c


def rand_scalar(rng, cplx, div=False):
    c = rand_scalar0(rng, cplx, div)
    return exotic(rng, c) if rng.random() < 0.15 else c


def rand_scalar0(rng, cplx, div=False):
    if div:
        c = rng.choice([1, -1, 2, -2, 0.5, 4.0, -0.25, 2, 0.5, 0])
        if cplx and rng.random() < 0.3:
            c = rng.choice([1j, -1j, 2j, -0.5j])
        return c
    r = rng.random()
    if r < 0.14:
        return rng.choice([0, 0.0])
    if cplx and r < 0.45:
        return rng.choice([1j, -1j, 1 + 1j, 2j, 0.5 - 1j, -1 + 0j, 2 + 0j])
    return rng.choice([1, -1, 2, -2, 0.5, -0.5, 3, 1.0, -1.0, 2.0, 3.0, 1.5])


def rand_vec(rng, n, cplx):
    out = []
    for _ in range(n):
        a = rng.choice([-2, -1, 0, 1, 2, 0.5, 3])
        if cplx and rng.random() < 0.4:
            out.append(complex(a, rng.choice([-1, 1, 2])))
        else:
            out.append(float(a))
    if rng.random() < 0.05:
        out = [0.0] * n
    return out


def leaves_of(pool, dom, ran, want_fn):
    # (field-domain leaves are only used by the targeted stream)
    return [i for i, l in enumerate(pool) if l.dom == dom and l.ran == ran and
            (not want_fn or l.fn)]


def gen(rng, pool, cplx, depth, dom, ran, want_fn=False):
    """Random AST meant to have type dom -> ran (mostly well-typed; ~4% of the nodes are
    deliberately ill-typed to exercise the rejection paths)."""
    others = ['v2', 'v3']
    if rng.random() < 0.04:
        # ill-typed on purpose
        dom = rng.choice(others + [dom])
        ran = rng.choice(others + ['F', ran])
    cands = leaves_of(pool, dom, ran, want_fn)
    if depth <= 0 or (cands and rng.random() < 0.22):
        if not cands:
            cands = leaves_of(pool, dom, ran, False) or list(range(len(pool)))
        return ('L', rng.choice(cands))
    d = depth - 1
    forms = ['add', 'sub', 'neg', 's.lmul', 's.rmul', 's.rmul', 's.div', 'mul', 'mul', 'v.rmul',
             's.add', 's.radd', 's.sub', 's.rsub', 'pprod']
    if dom == ran:
        forms += ['pow']
    if ran != 'F' and not want_fn:
        forms += ['v.lmul', 'v.lmulF', 'v.add', 'v.radd', 'v.sub', 'v.rsub']
    if ran == 'F':
        forms += ['quot']
    if want_fn:
        forms = [f for f in forms if f not in ('pow',)]
    f = rng.choice(forms)
    nran = int(ran[1:]) if ran != 'F' else 1
    ndom = int(dom[1:]) if dom != 'F' else 1
    if f in ('add', 'sub', 'pprod'):
        return (f, gen(rng, pool, cplx, d, dom, ran, want_fn),
                gen(rng, pool, cplx, d, dom, ran, want_fn))
    if f == 'quot':
        return (f, gen(rng, pool, cplx, d, dom, ran, True), gen(rng, pool, cplx, d, dom, ran, True))
    if f == 'neg':
        return (f, gen(rng, pool, cplx, d, dom, ran, want_fn))
    if f == 'pow':
        return (f, gen(rng, pool, cplx, min(d, 2), dom, ran), rng.choice([1, 2, 2, 3, 0]))
    if f == 'mul':
        mid = rng.choice(others)
        t = (f, gen(rng, pool, cplx, d, mid, ran, want_fn), gen(rng, pool, cplx, d, dom, mid))
        return t + ('@',) if rng.random() < 0.2 else t
    # `@` is a synonym of `*` (all five product forms, reflected ones included)
    at = ('@',) if (f in ('s.lmul', 's.rmul', 'v.lmul', 'v.lmulF', 'v.rmul') and
                    rng.random() < 0.25) else ()
    if f in SOPS:
        return (f, gen(rng, pool, cplx, d, dom, ran, want_fn),
                rand_scalar(rng, cplx, div=(f == 's.div'))) + at
    if f == 'v.lmulF':
        return ('v.lmul', gen(rng, pool, cplx, d, dom, 'F'), rand_vec(rng, nran, cplx)) + at
    if f == 'v.rmul':
        return (f, gen(rng, pool, cplx, d, dom, ran, want_fn), rand_vec(rng, ndom, cplx)) + at
    return (f, gen(rng, pool, cplx, d, dom, ran), rand_vec(rng, nran, cplx)) + at


def rpn(ast, ren=None):
    k = ast[0]
    if k == 'L':
        return ['L~{}'.format(ast[1] if ren is None else ren[ast[1]])]
    if k == 'neg':
        return rpn(ast[1], ren) + ['neg']
    if k == 'pow':
        return rpn(ast[1], ren) + ['pow~{}'.format(ast[2])]
    if k in BOPS:
        return rpn(ast[1], ren) + rpn(ast[2], ren) + [k]
    if k in SOPS:
        return rpn(ast[1], ren) + ['{}~{}~{}'.format(k, cs(ast[2]), int(is_real(ast[2])))]
    if k in VOPS:
        return rpn(ast[1], ren) + ['{}~{}'.format(k, cl(ast[2]))]
    raise KeyError(k)


def used_leaves(ast):
    if ast[0] == 'L':
        return {ast[1]}
    out = set()
    for a in ast[1:3]:
        if isinstance(a, tuple):
            out |= used_leaves(a)
    return out


def show(ast):
    """human-readable Python-like source of the expression"""
    k = ast[0]
    if k == 'L':
        return 'L{}'.format(ast[1])
    if k == 'neg':
        return '(-{})'.format(show(ast[1]))
    if k == 'pow':
        return '({} ** {})'.format(show(ast[1]), ast[2])
    sym = {'add': '+', 'sub': '-', 'mul': '*'}
    if k in sym:
        s = '@' if (k == 'mul' and len(ast) > 3) else sym[k]
        return '({} {} {})'.format(show(ast[1]), s, show(ast[2]))
    if k == 'pprod':
        return 'PointwiseProduct({}, {})'.format(show(ast[1]), show(ast[2]))
    if k == 'quot':
        return 'FunctionalQuotient({}, {})'.format(show(ast[1]), show(ast[2]))
    arg = repr(ast[2]) if k in SOPS else 'vec' + repr(ast[2])
    o = k.split('.')[1]
    if len(ast) > 3:
        return ('({1} @ {0})' if o == 'lmul' else '({0} @ {1})').format(show(ast[1]), arg)
    table = {'lmul': '({1} * {0})', 'rmul': '({0} * {1})', 'div': '({0} / {1})',
             'add': '({0} + {1})', 'radd': '({1} + {0})', 'sub': '({0} - {1})',
             'rsub': '({1} - {0})'}
    return table[o].format(show(ast[1]), arg)


def degree(ast, pool):
    """Polynomial degree bound of the expression in x (keeps float values in range)."""
    k = ast[0]
    if k == 'L':
        return {'pow2': 2, 'pow3': 3, 'l2sq': 2, 'powf': 2, 'shiftsq': 2, 'constf': 0, 'zerof': 0}.get(pool[ast[1]].kind, 1)
    a = degree(ast[1], pool)
    if k == 'pow':
        return a ** max(ast[2], 1)
    if k == 'mul':
        return a * degree(ast[2], pool)
    if k in ('pprod', 'quot'):
        return a + degree(ast[2], pool)
    if k in ('add', 'sub'):
        return max(a, degree(ast[2], pool))
    return a


def size(ast):
    return 1 + sum(size(a) for a in ast[1:3] if isinstance(a, tuple))


# ---------------------------------------------------------------------------
# the real code

def vec_space(spaces, entries):
    return spaces[len(entries)]


CTOR_FORMS = {'c.rscal': 's.rmul', 'c.comp': 'mul', 'c.sum': 'add'}


def plain(ast):
    """the same expression with the direct-constructor forms (`c.*`, user-supplied temporaries)
    replaced by the overload forms that have the same table value"""
    if ast[0] == 'L':
        return ast
    k = CTOR_FORMS.get(ast[0], ast[0])
    return (k,) + tuple(plain(a) if isinstance(a, tuple) and a and isinstance(a[0], str) and
                        (a[0] == 'L' or a[0] in BOPS or a[0] in SOPS or a[0] in VOPS or
                         a[0] in CTOR_FORMS or a[0] in ('neg', 'pow')) else a for a in ast[1:])


def pybuild(ast, pool, spaces, keep=None, memo=None):
    """Evaluate the expression with the real Python operators.  `keep` collects the user's
    vectors (the caller still owns them), `memo` makes equal sub-expressions ONE object."""
    import odl
    k = ast[0]
    if k == 'L':
        return pool[ast[1]].op
    key = repr(ast)
    if memo is not None and key in memo:
        return memo[key]
    r = _pybuild(ast, pool, spaces, keep, memo)
    if memo is not None:
        memo[key] = r
    return r


def _pybuild(ast, pool, spaces, keep, memo):
    import odl
    k = ast[0]

    def sub(t):
        return pybuild(t, pool, spaces, keep, memo)

    def vec(entries):
        v = vec_space(spaces, entries).element(entries)
        if keep is not None:
            keep.append(v)
        return v
    a = sub(ast[1])
    if k == 'neg':
        return -a
    if k == 'pow':
        return a ** ast[2]
    if k in BOPS:
        b = sub(ast[2])
        if k == 'add':
            return a + b
        if k == 'sub':
            return a - b
        if k == 'mul':
            return (a @ b) if len(ast) > 3 else (a * b)
        if k == 'pprod':
            if isinstance(a, odl.solvers.Functional) and isinstance(b, odl.solvers.Functional):
                return odl.solvers.FunctionalProduct(a, b)
            return odl.OperatorPointwiseProduct(a, b)
        return odl.solvers.FunctionalQuotient(a, b)
    # direct constructor calls with USER-SUPPLIED temporaries
    if k == 'c.rscal':
        return odl.OperatorRightScalarMult(a, ast[2], tmp=a.domain.element())
    if k == 'c.comp':
        b = sub(ast[2])
        return odl.OperatorComp(a, b, tmp=b.range.element())
    if k == 'c.sum':
        b = sub(ast[2])
        return odl.OperatorSum(a, b, tmp_ran=a.range.element(), tmp_dom=a.domain.element())
    if len(ast) > 3 and k in ('s.lmul', 's.rmul', 'v.lmul', 'v.rmul'):
        o = ast[2] if k in SOPS else vec(ast[2])
        return (o @ a) if k.endswith('lmul') else (a @ o)
    if k in SOPS:
        s = ast[2]
        return {'s.lmul': lambda: s * a, 's.rmul': lambda: a * s, 's.div': lambda: a / s,
                's.add': lambda: a + s, 's.radd': lambda: s + a, 's.sub': lambda: a - s,
                's.rsub': lambda: s - a}[k]()
    v = vec(ast[2])
    return {'v.lmul': lambda: v * a, 'v.rmul': lambda: a * v, 'v.add': lambda: a + v,
            'v.radd': lambda: v + a, 'v.sub': lambda: a - v, 'v.rsub': lambda: v - a}[k]()


class Undefined(Exception):
    pass


def div_by_zero(ast):
    if ast[0] == 's.div' and ast[2] == 0:
        return True
    return any(div_by_zero(a) for a in ast[1:3] if isinstance(a, tuple))


def ref_eval(ast, pool, spaces, x, track):
    """ORACLE: the documented table applied recursively to the real leaves."""
    k = ast[0]

    def ev(t, y):
        return ref_eval(t, pool, spaces, y, track)

    def note(v):
        track.append(bits(flat(v)))
        return v
    if k == 'L':
        return note(pool[ast[1]].op(x))
    if k == 'neg':
        return note(-ev(ast[1], x))
    if k == 'pow':
        y = x
        for _ in range(ast[2]):
            y = ev(ast[1], y)
        return y
    if k == 'add':
        return note(ev(ast[1], x) + ev(ast[2], x))
    if k == 'sub':
        return note(ev(ast[1], x) - ev(ast[2], x))
    if k == 'mul':
        return ev(ast[1], ev(ast[2], x))
    if k == 'pprod':
        return note(ev(ast[1], x) * ev(ast[2], x))
    if k == 'quot':
        den = ev(ast[2], x)
        if den == 0:
            raise Undefined()
        return note(ev(ast[1], x) / den)
    if k in SOPS:
        s = ast[2]
        if k == 's.lmul':
            return note(s * ev(ast[1], x))
        if k == 's.rmul':
            return ev(ast[1], note(s * x))
        if k == 's.div':
            return ev(ast[1], note(x / s))
        if k == 's.add':
            return note(ev(ast[1], x) + s)
        if k == 's.radd':
            return note(s + ev(ast[1], x))
        if k == 's.sub':
            return note(ev(ast[1], x) - s)
        return note(s - ev(ast[1], x))
    v = vec_space(spaces, ast[2]).element(ast[2])
    if k == 'v.lmul':
        return note(v * ev(ast[1], x))
    if k == 'v.rmul':
        return ev(ast[1], note(v * x))
    if k == 'v.add':
        return note(ev(ast[1], x) + v)
    if k == 'v.radd':
        return note(v + ev(ast[1], x))
    if k == 'v.sub':
        return note(ev(ast[1], x) - v)
    return note(v - ev(ast[1], x))


def pytype(ast, pool):
    """ORACLE typing: (dom, ran) implied by the documented rules, or None if ill-typed.
    Also returns whether the result is documented to be a Functional (needed for `+ scalar`
    on field-valued operators and for FunctionalQuotient)."""
    k = ast[0]
    if k == 'L':
        l = pool[ast[1]]
        return (l.dom, l.ran, l.fn)
    a = pytype(ast[1], pool)
    if a is None:
        return None
    d, r, fn = a
    if k == 'neg':
        return a
    if k == 'pow':
        n = ast[2]
        if n < 1:
            return None
        if n == 1:
            return a
        return (d, r, False) if d == r else None
    if k in BOPS:
        b = pytype(ast[2], pool)
        if b is None:
            return None
        if k in ('add', 'sub', 'pprod'):
            return (d, r, fn and b[2]) if (d, r) == b[:2] else None
        if k == 'mul':
            return (b[0], r, fn) if b[1] == d else None
        return (d, 'F', True) if (fn and b[2] and d == b[0]) else None
    if k in SOPS:
        if k in ('s.lmul', 's.rmul'):
            return a
        if k == 's.div':
            return a if ast[2] != 0 else None
        # operator + scalar: documented for a LinearSpace range (and for Functionals)
        return a if (fn or r != 'F') else None
    vs = 'v{}'.format(len(ast[2]))
    if k == 'v.lmul':
        if r == vs:
            return (d, r, False)
        return (d, vs, False) if r == 'F' else None
    if k == 'v.rmul':
        return a if d == vs else None
    return (d, r, False) if r == vs else None


def lin_expected(ast, pool):
    """is_linear implied by the expression (documented rules)."""
    k = ast[0]
    if k == 'L':
        return pool[ast[1]].lin
    if k in ('neg', 'pow', 's.lmul', 's.rmul', 's.div', 'v.lmul', 'v.rmul'):
        return lin_expected(ast[1], pool)
    if k in ('add', 'sub', 'mul'):
        return lin_expected(ast[1], pool) and lin_expected(ast[2], pool)
    return False


def class_tree(op, pool_ids):
    """Canonical class tree of a real operator object."""
    if id(op) in pool_ids:
        return 'L{}'.format(pool_ids[id(op)])
    n = type(op).__name__

    def vec(v):
        return '[' + cl(flat(v)) + ']'
    if n in ('OperatorSum', 'FunctionalSum', 'OperatorComp', 'FunctionalComp',
             'OperatorPointwiseProduct', 'FunctionalProduct'):
        return '{}({},{})'.format(n, class_tree(op.left, pool_ids), class_tree(op.right, pool_ids))
    if n == 'FunctionalScalarSum':
        return '{}({},{})'.format(n, class_tree(op.left, pool_ids), cs(op.scalar))
    if n == 'FunctionalQuotient':
        return '{}({},{})'.format(n, class_tree(op.dividend, pool_ids),
                                  class_tree(op.divisor, pool_ids))
    if n in ('OperatorLeftScalarMult', 'FunctionalLeftScalarMult', 'OperatorRightScalarMult',
             'FunctionalRightScalarMult'):
        return '{}({},{})'.format(n, class_tree(op.operator, pool_ids), cs(op.scalar))
    if n in ('OperatorVectorSum', 'OperatorLeftVectorMult', 'OperatorRightVectorMult',
             'FunctionalRightVectorMult'):
        return '{}({},{})'.format(n, class_tree(op.operator, pool_ids), vec(op.vector))
    if n == 'FunctionalLeftVectorMult':
        return '{}({},{})'.format(n, class_tree(op.functional, pool_ids), vec(op.vector))
    if n == 'ConstantFunctional':
        return 'ConstantFunctional({})'.format(cs(op.constant))
    if n == 'ZeroFunctional':
        return 'ZeroFunctional()'
    return 'UNKNOWN:' + n


def merged_tree(tree):
    """no Left(Right)ScalarMult applied directly to a Left(Right)ScalarMult in the REAL class tree"""
    import re
    return not re.search(r'(?:Operator|Functional)LeftScalarMult\((?:Operator|Functional)LeftScalarMult\(|'
                         r'(?:Operator|Functional)RightScalarMult\((?:Operator|Functional)RightScalarMult\(',
                         tree or '')


def skeleton(tree, pool):
    """class tree with leaves replaced by their kind and numbers by a class"""
    import re

    def leaf(m):
        return pool[int(m.group(1))].kind
    s = re.sub(r'L(\d+)', leaf, tree)
    s = re.sub(r'\[[^\]]*\]', 'v', s)

    def num(m):
        t = m.group(1)
        return ',' + (t if t in ('0', '1', '-1') else 'c') + ')'
    return re.sub(r',(-?[0-9/:\-]+)\)', num, s)


def rand_point(rng, n, cplx):
    out = []
    for _ in range(n):
        a = rng.choice([-2, -1, 1, 2, 3, 0.5, -0.5, 1.5, 0])
        if cplx and rng.random() < 0.5:
            out.append(complex(a, rng.choice([-1, 1, 0.5, 2])))
        else:
            out.append(float(a))
    return out


def run_real(case, pool, spaces, pool_ids):
    """Everything the real code says about one case."""
    import odl
    ast_build, xs = case['ast'], case['x']
    ast = plain(ast_build)      # the overload expression with the same table value
    res = {'problems': []}
    if div_by_zero(ast):
        # `A / 0` has no table value.  Python zero: ZeroDivisionError; NumPy zero: an operator
        # with scalar inf is built (1.0 / np.float64(0) is inf with a warning).  Both outside
        # the property; anything else is reported.
        res['status'] = 'skip'
        res['skip'] = 'div-by-zero-scalar'
        try:
            with np.errstate(all='ignore'):
                pybuild(ast, pool, spaces)
            res['skip'] += '(built)'
        except ZeroDivisionError:
            res['skip'] += '(raised)'
        except Exception as e:  # noqa
            if pytype(ast, pool) is not None or True:
                res['skip'] += '(raised {})'.format(type(e).__name__)
        return res
    keep = []
    try:
        op = pybuild(ast_build, pool, spaces, keep=keep, memo=case.get('memo'))
        if not isinstance(op, odl.Operator):
            raise TypeError('result is not an Operator: {!r}'.format(type(op)))
        res['status'] = 'ok'
    except Exception as e:  # noqa
        res['status'] = 'raise'
        res['exc'] = type(e).__name__ + ': ' + str(e)[:120]
        op = None
    ty = pytype(ast, pool)
    res['pytype'] = ty
    if op is None and res['exc'].startswith('ZeroDivisionError') and 'quot' in case['forms'] \
            and 's.rmul' in case['forms']:
        # `(f/g) * 0` evaluates (f/g)(0) eagerly; with g(0) = 0 the expression is undefined at
        # every point (the model uses Lean's x/0 = 0): outside the property, skipped
        res['status'] = 'skip'
        res['skip'] = 'undefined-everywhere'
        return res
    if op is None:
        if ty is not None:
            res['problems'].append('well-typed expression raises ' + res['exc'])
        return res
    try:
        res['tree'] = class_tree(op, pool_ids)
        res['dom'], res['ran'] = sp_name(op.domain), sp_name(op.range)
        res['lin'] = bool(op.is_linear)
        res['fn'] = isinstance(op, odl.solvers.Functional)
    except Exception as e:  # noqa
        if 'quot' in case['forms'] and 'non-finite' in str(e):
            # a quotient evaluated eagerly at a zero of its divisor (f*0 -> Constant(f(0))) with
            # NumPy floats: inf/nan instead of ZeroDivisionError; undefined everywhere
            res['status'] = 'skip'
            res['skip'] = 'undefined-everywhere(non-finite constant)'
            return res
        res['problems'].append('introspection failed: {}: {}'.format(type(e).__name__, e))
        return res
    if ty is None:
        # the documented rules reject it but the code built something: not a violation of the
        # property (nothing is promised), but model and code must still agree
        res['unexpected_ok'] = True
    else:
        if (res['dom'], res['ran']) != ty[:2]:
            res['problems'].append('domain/range {}->{} but the expression implies {}->{}'.format(
                res['dom'], res['ran'], ty[0], ty[1]))
    if res['dom'] == 'F' or len(xs) != int(res['dom'][1:]):
        x = None
    else:
        x = spaces[len(xs)].element(xs)
    res['val'] = res['inp'] = res['ref'] = None
    if x is None:
        return res
    x0 = x.copy()
    # out-of-place
    try:
        res['val'] = [exact(v) for v in flat(op(x))]
    except ZeroDivisionError:
        res['val'] = 'undefined'
    except Exception as e:  # noqa
        res['problems'].append('evaluation raises {}: {}'.format(type(e).__name__, str(e)[:120]))
    # in-place
    if res['ran'] != 'F':
        try:
            out = op.range.element()
            out.data[...] = np.nan
            r = op(x, out=out)
            if r is not out:
                res['problems'].append('in-place call did not return `out`')
            res['inp'] = [exact(v) for v in flat(out)]
        except ZeroDivisionError:
            res['inp'] = 'undefined'
        except Exception as e:  # noqa
            res['problems'].append('in-place evaluation raises {}: {}'.format(
                type(e).__name__, str(e)[:120]))
    if [exact(v) for v in flat(x)] != [exact(v) for v in flat(x0)]:
        res['problems'].append('evaluation modified its input x')
    # oracle: documented table on the real leaves
    if ty is not None:
        track = []
        try:
            with np.errstate(all='ignore'):
                ref = ref_eval(ast, pool, spaces, x, track)
            res['ref'] = [exact(v) for v in flat(ref)]
            res['bits'] = max(track + [0])
        except (Undefined, ZeroDivisionError):
            res['ref'] = 'undefined'
        except Exception as e:  # noqa
            res['problems'].append('reference interpreter raises {}: {}'.format(
                type(e).__name__, str(e)[:120]))
        if isinstance(res['ref'], list) and None in res['ref']:
            res['ref'] = 'undefined'
        if isinstance(res['ref'], list):
            exact_ok = res.get('bits', 99) <= EXACT_BITS and 'quot' not in case['forms']
            res['exact'] = exact_ok
            for name in ('val', 'inp'):
                got = res[name]
                if got is None:
                    continue
                if got == 'undefined' or not same(got, res['ref'], exact_ok):
                    res['problems'].append(
                        '{} value {} differs from the documented table value {}'.format(
                            'out-of-place' if name == 'val' else 'in-place (out=)',
                            showv(got), showv(res['ref'])))
        # ownership / history strata (all cases with user vectors or shared objects, a sample
        # of the others)
        if not res['problems'] and isinstance(res.get('ref'), list) and \
                ((keep and case.get('psample', 1.0) < 0.45) or case.get('protocol') or
                 case.get('psample', 1.0) < 0.12):
            res['problems'] += protocol_checks(op, x, res['ref'], res.get('exact', False), keep,
                                               case.get('hit'))
        # linearity flag
        exp_lin = lin_expected(ast, pool)
        if res['lin'] and not exp_lin:
            why = linear_numerically(op, spaces, case, pool)
            if why:
                res['problems'].append('is_linear=True but ' + why)
        if exp_lin and not res['lin']:
            res['problems'].append('is_linear=False although the expression is a composition of '
                                   'linear operands (flag lost)')
        if res['lin'] and exp_lin:
            why = linear_numerically(op, spaces, case, pool)
            if why:
                res['problems'].append('is_linear=True but ' + why)
    return res


REAL_LINEAR_ONLY = ('repart', 'impart')


def protocol_checks(op, x, ref, exact_ok, keep, hit=None):
    """OWNERSHIP and HISTORY strata (oracle on the real code).  The table value of a built
    expression must not depend on what the caller does to his vectors AFTER building it (the
    overloads store `other.copy()`), nor on earlier evaluations (results must not alias cached
    temporaries or each other).  `ref` is the table value at `x` computed from the ORIGINAL
    operands.  Only for vector-valued results."""
    import odl
    problems = []
    if not isinstance(ref, list) or None in ref:
        return problems
    if isinstance(op.range, odl.set.sets.Field):
        # scalar results cannot alias anything; only the ownership of the user's vectors
        try:
            if keep:
                for v in keep:
                    v.data[...] = v.data * (-2) + 3
                with np.errstate(all='ignore'):
                    got = [exact(v) for v in flat(op(x))]
                if not same(got, ref, exact_ok):
                    problems.append('ownership (the caller overwrote the vectors the expression '
                                    'was built from; out-of-place): value {} differs from the '
                                    'documented table value {}'.format(showv(got), showv(ref)))
                if hit:
                    hit('stratum/ownership')
        except ZeroDivisionError:
            pass
        except Exception as e:  # noqa
            problems.append('protocol evaluation raises {}: {}'.format(type(e).__name__, str(e)[:120]))
        return problems

    def val(y):
        return [exact(v) for v in flat(y)]

    def check(what, got):
        if not same(got, ref, exact_ok):
            problems.append('{}: value {} differs from the documented table value {}'.format(
                what, showv(got), showv(ref)))
    try:
        with np.errstate(all='ignore'):
            x2 = x.space.element(np.roll(x.asarray(), 1) * 2 - 1)
            # --- history: first result kept across later evaluations
            y1 = op(x)
            op(x2)
            o2 = op.range.element()
            op(x2, out=o2)
            check('history (out-of-place result kept while the operator is evaluated again)',
                  val(y1))
            o1 = op.range.element()
            o1.data[...] = np.nan
            op(x, out=o1)
            y2 = op(x2)
            check('history (in-place result kept while the operator is evaluated again)', val(o1))
            del y2
            if hit:
                hit('stratum/history')
            # --- ownership: the caller reuses / overwrites his vectors
            if keep:
                for v in keep:
                    if v.space == op.range:
                        op(x, out=v)
                        check('ownership (a vector the expression was built from is used as '
                              '`out`)', val(v))
                        break
                for v in keep:
                    v.data[...] = v.data * (-2) + 3
                check('ownership (the caller overwrote the vectors the expression was built '
                      'from; out-of-place)', val(op(x)))
                o3 = op.range.element()
                op(x, out=o3)
                check('ownership (the caller overwrote the vectors the expression was built '
                      'from; in-place)', val(o3))
                if hit:
                    hit('stratum/ownership')
    except ZeroDivisionError:
        pass
    except Exception as e:  # noqa
        problems.append('protocol evaluation raises {}: {}'.format(type(e).__name__, str(e)[:120]))
    return problems[:3]


def linear_numerically(op, spaces, case, pool):
    """Test op(a*x + y) == a*op(x) + op(y) exactly on a small grid point; returns a reason or
    None.  `a` is complex on a complex tree unless the tree contains a leaf that the library
    flags linear although it is only real-linear (RealPart/ImagPart based): ODL's flag cannot
    mean more than real-linearity there (the flag of the LEAF is C05/C06's business)."""
    try:
        n = op.domain.size
        cplx = case['cplx']
        kinds = {pool[i].kind for i in used_leaves(case['ast'])}
        x = op.domain.element([complex(1, 1) if cplx else 1.0, -2.0, 0.5][:n])
        y = op.domain.element([complex(2, 1) if cplx else 2.0, 1.0, -1.0][:n])
        a = (1j if (cplx and not (kinds & set(REAL_LINEAR_ONLY))) else -2.0)
        lhs = op(a * x + y)
        rhs = a * op(x) + op(y)
        l, r = [exact(v) for v in flat(lhs)], [exact(v) for v in flat(rhs)]
        if not same(l, r, False):
            return 'op(a*x+y) = {} but a*op(x)+op(y) = {}'.format(showv(l), showv(r))
    except Exception as e:  # noqa
        return 'linearity test raised {}: {}'.format(type(e).__name__, str(e)[:100])
    return None


def flt(c):
    try:
        return float(c)
    except OverflowError:
        return float('inf') if c > 0 else float('-inf')


def same(a, b, exact_ok):
    if a is None or b is None or isinstance(a, str) or isinstance(b, str):
        return a == b
    if len(a) != len(b) or None in a or None in b:
        return False
    if a == b:
        return True
    if exact_ok:
        return False
    scale = max([1] + [abs(flt(c)) for p in a + b for c in p])
    if scale == float('inf'):
        return False
    return all(abs(flt(p[0] - q[0])) <= 1e-9 * scale and abs(flt(p[1] - q[1])) <= 1e-9 * scale
               for p, q in zip(a, b))


def trees_match(a, b, tolerant):
    """Class trees equal; with `tolerant` (expression contains a quotient, whose float value
    is rounded and may have been stored by the eager `f*0 -> Constant(f(0))`) the numbers in
    them are compared with relative tolerance 1e-9, the structure still exactly."""
    import re
    if a == b:
        return True
    if not tolerant or a is None or b is None:
        return False
    num = re.compile(r'(?<![A-Za-z0-9])-?\d+(?:/\d+)?(?::-?\d+(?:/\d+)?)?(?![A-Za-z0-9])')
    if num.sub('#', a) != num.sub('#', b):
        return False
    na, nb = [parse_c(t) for t in num.findall(a)], [parse_c(t) for t in num.findall(b)]
    return same(na, nb, False)


def showv(v):
    if v is None or isinstance(v, str):
        return str(v)
    return '[' + ', '.join('nan' if p is None else
                           (str(flt(p[0])) if p[1] == 0 else str(complex(flt(p[0]), flt(p[1]))))
                           for p in v) + ']'


def forms_of(ast):
    out = {ast[0]}
    if len(ast) > 3:
        out.add('matmul')
    for a in ast[1:3]:
        if isinstance(a, tuple):
            out |= forms_of(a)
    return out


# ---------------------------------------------------------------------------
# case streams

def random_cases(ctx, pool, cplx, n, maxdepth):
    rng = ctx.rng
    for _ in range(n):
        depth = rng.randint(1, maxdepth)
        dom = rng.choice(['v2', 'v3'])
        ran = rng.choice(['v2', 'v3', 'F', dom])
        ast = gen(rng, pool, cplx, depth, dom, ran)
        if size(ast) > 60 or degree(ast, pool) > 12:
            continue
        yield {'ast': ast, 'cplx': cplx, 'x': rand_point(rng, int(dom[1:]), cplx),
               'stream': 'random'}


def level_forms(rng, pool, cplx, inner_ast, ty):
    """All one-step extensions of an expression (representative arguments)."""
    d, r = ty[0], ty[1]
    nd = int(d[1:])
    nr = int(r[1:]) if r != 'F' else 2
    out = [('neg', inner_ast), ('pow', inner_ast, 2), ('pow', inner_ast, 3)]
    scal = [0, 2, -1, 0.5] + ([1j] if cplx else [])
    for s in scal:
        for k in SOPS:
            if k == 's.div' and s == 0:
                continue
            out.append((k, inner_ast, s))
    # other `numbers.Number` types (and a Python complex with zero imaginary part, which is
    # NOT a numbers.Real), division by a Python / NumPy zero
    extra = [np.float64(2.0), Fraction(1, 2), True, np.float32(-0.5), np.int64(2)] + \
        ([complex(2, 0), np.complex128(1j)] if cplx else [])
    for s in extra:
        for k in ('s.lmul', 's.rmul', 's.div', 's.add', 's.rsub'):
            out.append((k, inner_ast, s))
    out += [('s.div', inner_ast, 0), ('s.div', inner_ast, np.float64(0.0))]
    for k in VOPS:
        n = nd if k == 'v.rmul' else nr
        out.append((k, inner_ast, rand_vec(rng, n, cplx)))
    # the `@` spelling of the five product forms
    for s in (2, 0):
        out += [('s.lmul', inner_ast, s, '@'), ('s.rmul', inner_ast, s, '@')]
    out += [('v.lmul', inner_ast, rand_vec(rng, nr, cplx), '@'),
            ('v.rmul', inner_ast, rand_vec(rng, nd, cplx), '@')]
    if r == 'F':
        # vector @ functional with the vector in ANOTHER space than the domain
        out.append(('v.lmul', inner_ast, rand_vec(rng, 5 - nd if nd in (2, 3) else 2, cplx), '@'))
    # binary with every leaf of a compatible shape, both orders
    for j, l in enumerate(pool):
        other = ('L', j)
        if (l.dom, l.ran) == (d, r):
            out += [('add', inner_ast, other), ('add', other, inner_ast), ('sub', inner_ast, other),
                    ('sub', other, inner_ast), ('pprod', inner_ast, other)]
            if l.fn:
                out += [('quot', inner_ast, other), ('quot', other, inner_ast)]
        if l.ran == d:
            out.append(('mul', inner_ast, other))
            out.append(('mul', inner_ast, other, '@'))
        if l.dom == r:
            out.append(('mul', other, inner_ast))
            out.append(('mul', other, inner_ast, '@'))
    return out


def systematic_cases(ctx, pool, cplx, leaf_kinds):
    """(leaf op1) op2 for all pairs of forms: the two-level interactions."""
    rng = ctx.rng
    seen_kind = set()
    order = sorted((i for i in range(len(pool)) if pool[i].kind in leaf_kinds),
                   key=lambda i: leaf_kinds.index(pool[i].kind))
    for i in order:
        l = pool[i]
        if l.kind not in leaf_kinds or (l.kind, l.dom, l.ran) in seen_kind:
            continue
        if ctx.quick and l.dom != 'v3':
            continue
        seen_kind.add((l.kind, l.dom, l.ran))
        base = ('L', i)
        for one in level_forms(rng, pool, cplx, base, (l.dom, l.ran)):
            ty1 = pytype(one, pool)
            if degree(one, pool) > 12:
                continue
            yield {'ast': one, 'cplx': cplx, 'x': rand_point(rng, int(l.dom[1:]), cplx),
                   'stream': 'level1'}
            if ty1 is None or ty1[0] == 'F':
                continue
            twos = level_forms(rng, pool, cplx, one, ty1)
            keep = (0.05 if cplx else 0.08) if ctx.quick else LEVEL2_KEEP_THOROUGH
            twos = [t for t in twos if rng.random() < keep]
            for two in twos:
                if degree(two, pool) > 12:
                    continue  # keeps the float values exactly representable
                ty2 = pytype(two, pool)
                d2 = ty2[0] if ty2 else l.dom
                if d2 == 'F':
                    continue
                yield {'ast': two, 'cplx': cplx, 'x': rand_point(rng, int(d2[1:]), cplx),
                       'stream': 'level2'}


def targeted_cases(ctx, pool, cplx):
    """Reflected-first dispatch of `+`: left operand an Operator… expression object, right
    operand the Functional… subclass of the same expression class (Python then calls
    `Functional.__radd__` first and the summands are stored in swapped order)."""
    rng = ctx.rng

    def first(kind, n=3):
        for i, l in enumerate(pool):
            if l.kind == kind and l.dom == 'v{}'.format(n):
                return ('L', i)
    for n in (2, 3):
        ip, lf, l2, p2 = first('inner', n), first('linf', n), first('l2sq', n), first('pow2', n)
        v = rand_vec(rng, n, cplx)
        w = rand_vec(rng, n, cplx)
        pairs = [
            (('add', ip, ip), ('add', lf, l2)),
            (('sub', ip, ip), ('s.add', l2, 2)),
            (('mul', ip, p2), ('mul', l2, p2)),
            (('s.lmul', ip, 2), ('s.lmul', l2, 3)),
            (('s.rmul', ('mul', ip, p2), 2), ('s.rmul', l2, -1)),
            (('v.rmul', ip, v), ('v.rmul', l2, w)),
            (('pprod', ip, ip), ('pprod', l2, lf)),
            (('add', lf, l2), ('add', ip, ip)),
            (('s.lmul', l2, 3), ('s.lmul', ip, 2)),
        ]
        # the same rule for `*`: (Operator… object with a field domain) * (Functional… object)
        sf = [('L', i) for i, l in enumerate(pool) if l.kind == 'scalef'][0]
        pf = [('L', i) for i, l in enumerate(pool) if l.kind == 'powf'][0]
        mt = [('L', i) for i, l in enumerate(pool) if l.kind == 'mat' and
              l.dom == l.ran == 'v{}'.format(n)][0]
        mpairs = [
            (('mul', sf, pf), ('mul', l2, mt)),
            (('add', sf, pf), ('add', l2, lf)),
            (('sub', pf, sf), ('s.add', l2, 2)),
            (('s.lmul', pf, 2), ('s.lmul', l2, 3)),
            (('s.rmul', pf, 2), ('s.rmul', l2, 3)),
            (('pprod', sf, pf), ('pprod', l2, lf)),
        ]
        for a, b in mpairs:
            yield {'ast': ('mul', a, b), 'cplx': cplx, 'x': rand_point(rng, n, cplx),
                   'stream': 'targeted', 'reflected_mul': True}
            yield {'ast': ('s.rmul', ('mul', a, b), 2), 'cplx': cplx,
                   'x': rand_point(rng, n, cplx), 'stream': 'targeted'}
            yield {'ast': ('sub', ('mul', a, b), ('mul', sf, b)), 'cplx': cplx,
                   'x': rand_point(rng, n, cplx), 'stream': 'targeted'}
        for a, b in pairs:
            for root in ('add', 'sub'):
                yield {'ast': (root, a, b), 'cplx': cplx, 'x': rand_point(rng, n, cplx),
                       'stream': 'targeted'}
                yield {'ast': ('s.rmul', (root, a, b), 2), 'cplx': cplx,
                       'x': rand_point(rng, n, cplx), 'stream': 'targeted'}


# ---------------------------------------------------------------------------
# mixed-field trees (operators between real and complex spaces): ORACLE ONLY.
# The Lean model has one field per tree; these cases are checked against the documented table
# applied to the real leaves and against the typing rules, not against the model.

def mixed_pool():
    import odl
    R, C = odl.rn(3), odl.cn(3)
    mr = np.array([[1.0, 2.0, 0.0], [0.0, 1.0, -1.0], [2.0, 0.0, 1.0]])
    mc = np.array([[1, 1j, 0], [0, 2, -1j], [1 + 1j, 0, 1]])
    leaves = [
        ('RealPart', odl.RealPart(C)), ('ImagPart', odl.ImagPart(C)),
        ('ComplexEmbedding', odl.ComplexEmbedding(R)),
        ('E.Re', odl.ComplexEmbedding(R) * odl.RealPart(C)),
        ('MatR', odl.MatrixOperator(mr, domain=R, range=R)),
        ('MatC', odl.MatrixOperator(mc, domain=C, range=C)),
        ('Pow2R', odl.PowerOperator(R, 2)), ('Pow2C', odl.PowerOperator(C, 2)),
        ('L2sqR', odl.solvers.L2NormSquared(R)), ('L2sqC', odl.solvers.L2NormSquared(C)),
        ('InnerC', odl.InnerProductOperator(C.element([1, 1j, -1]))),
    ]
    return {'R': R, 'C': C}, leaves


def m_show(ast, leaves):
    k = ast[0]
    if k == 'L':
        return leaves[ast[1]][0]
    if k == 'neg':
        return '(-{})'.format(m_show(ast[1], leaves))
    if k in ('mul', 'add', 'sub'):
        return '({} {} {})'.format(m_show(ast[1], leaves), {'mul': '*', 'add': '+', 'sub': '-'}[k],
                                   m_show(ast[2], leaves))
    arg = repr(ast[2]) if k.startswith('s.') else '{}{}'.format(ast[2][0], list(ast[2][1]))
    t = {'lmul': '({1} * {0})', 'rmul': '({0} * {1})', 'div': '({0} / {1})', 'add': '({0} + {1})',
         'rsub': '({1} - {0})'}[k.split('.')[1]]
    return t.format(m_show(ast[1], leaves), arg)


def m_type(ast, sp, leaves):
    """Typing rules of the documented table with the real ODL spaces: (domain, range, fn) or
    None; `fn` = the result is a Functional (only used for `op + scalar`, which is documented
    for LinearSpace ranges and for Functionals; `f * A` is a Functional on A.domain only if
    the field of A.domain is f.range)."""
    import odl
    k = ast[0]
    if k == 'L':
        op = leaves[ast[1]][1]
        return (op.domain, op.range, isinstance(op, odl.solvers.Functional))
    a = m_type(ast[1], sp, leaves)
    if a is None:
        return None
    d, r, fn = a
    isf = isinstance(r, odl.set.sets.Field)
    if k == 'neg':
        return a
    if k in ('mul', 'add', 'sub'):
        b = m_type(ast[2], sp, leaves)
        if b is None:
            return None
        if k == 'mul':
            if b[1] != d:
                return None
            bf = b[0] if isinstance(b[0], odl.set.sets.Field) else b[0].field
            return (b[0], r, fn and bf == r)
        return (d, r, fn and b[2]) if (b[0] == d and b[1] == r) else None
    if k.startswith('s.'):
        s_ = ast[2]
        rf = r if isf else r.field
        df = d if isinstance(d, odl.set.sets.Field) else d.field
        if k == 's.lmul':
            return a if s_ in rf else None
        if k == 's.rmul':
            return a if s_ in df else None
        if k == 's.div':
            return a if (s_ in df and s_ != 0) else None
        return a if (s_ in rf and (fn or not isf)) else None        # s.add / s.rsub
    v = sp[ast[2][0]]
    if k == 'v.lmul':
        if v == r:
            return (d, r, False)
        return (d, v, False) if (isf and v.field == r) else None
    if k == 'v.rmul':
        return a if v == d else None
    return (d, r, False) if v == r else None              # v.add / v.rsub


def m_build(ast, sp, leaves):
    k = ast[0]
    if k == 'L':
        return leaves[ast[1]][1]
    a = m_build(ast[1], sp, leaves)
    if k == 'neg':
        return -a
    if k in ('mul', 'add', 'sub'):
        b = m_build(ast[2], sp, leaves)
        return a * b if k == 'mul' else (a + b if k == 'add' else a - b)
    o = ast[2] if k.startswith('s.') else sp[ast[2][0]].element(list(ast[2][1]))
    o_ = k.split('.')[1]
    return {'lmul': lambda: o * a, 'rmul': lambda: a * o, 'div': lambda: a / o,
            'add': lambda: a + o, 'rsub': lambda: o - a}[o_]()


def m_ref(ast, sp, leaves, x):
    """documented table on the real leaves"""
    k = ast[0]

    def ev(t, y):
        return m_ref(t, sp, leaves, y)
    if k == 'L':
        return leaves[ast[1]][1](x)
    if k == 'neg':
        return -ev(ast[1], x)
    if k == 'mul':
        return ev(ast[1], ev(ast[2], x))
    if k == 'add':
        return ev(ast[1], x) + ev(ast[2], x)
    if k == 'sub':
        return ev(ast[1], x) - ev(ast[2], x)
    o = ast[2] if k.startswith('s.') else sp[ast[2][0]].element(list(ast[2][1]))
    o_ = k.split('.')[1]
    if o_ == 'lmul':
        return o * ev(ast[1], x)
    if o_ == 'rmul':
        return ev(ast[1], o * x)
    if o_ == 'div':
        return ev(ast[1], x / o)
    if o_ == 'add':
        return ev(ast[1], x) + o
    return o - ev(ast[1], x)


def m_forms(rng, inner, ty, sp, leaves):
    out = [('neg', inner)]
    for s_ in (2.0, 1j, -1, 0, 0.5 - 1j):
        for k in ('s.lmul', 's.rmul', 's.div', 's.add', 's.rsub'):
            if not (k == 's.div' and s_ == 0):
                out.append((k, inner, s_))
    for key in ('R', 'C'):
        for k in ('v.lmul', 'v.rmul', 'v.add', 'v.rsub'):
            out.append((k, inner, (key, tuple(rand_vec(rng, 3, key == 'C')))))
    for j in range(len(leaves)):
        o = ('L', j)
        out += [('mul', inner, o), ('mul', o, inner), ('add', inner, o), ('sub', o, inner)]
    return out


def mixed_cases(ctx, sp, leaves):
    rng = ctx.rng
    keep = 0.05 if ctx.quick else 0.5
    for i in range(len(leaves)):
        base = ('L', i)
        for one in m_forms(rng, base, m_type(base, sp, leaves), sp, leaves):
            t1 = m_type(one, sp, leaves)
            yield one
            if t1 is None:
                continue
            for two in m_forms(rng, one, t1, sp, leaves):
                if rng.random() < keep:
                    yield two


def run_mixed_case(ast, sp, leaves, xs):
    """problems of one mixed-field case (oracle on the real code)"""
    import odl
    problems = []
    ty = m_type(ast, sp, leaves)
    try:
        with np.errstate(all='ignore'):
            op = m_build(ast, sp, leaves)
        if not isinstance(op, odl.Operator):
            raise TypeError('result is not an Operator')
    except Exception as e:  # noqa
        if ty is not None:
            problems.append('well-typed expression raises {}: {}'.format(
                type(e).__name__, str(e)[:140]))
        return problems, ty, None
    if ty is None:
        return problems, ty, op
    if (op.domain, op.range) != ty[:2]:
        problems.append('domain/range {!r}->{!r} but the expression implies {!r}->{!r}'.format(
            op.domain, op.range, ty[0], ty[1]))
        return problems, ty, op
    if ty[0].is_real:
        xs = [complex(v).real for v in xs]
    x = ty[0].element(xs[:ty[0].size])
    try:
        with np.errstate(all='ignore'):
            ref = [exact(v) for v in flat(m_ref(ast, sp, leaves, x))]
    except Exception as e:  # noqa
        problems.append('reference interpreter raises {}: {}'.format(type(e).__name__, str(e)[:100]))
        return problems, ty, op
    if None in ref:
        return problems, ty, op
    ex = bits_exact(ref) <= EXACT_BITS
    try:
        with np.errstate(all='ignore'):
            val = [exact(v) for v in flat(op(x))]
        if not same(val, ref, ex):
            problems.append('out-of-place value {} differs from the documented table value {}'.format(
                showv(val), showv(ref)))
    except Exception as e:  # noqa
        problems.append('evaluation raises {}: {}'.format(type(e).__name__, str(e)[:140]))
    if not isinstance(op.range, odl.set.sets.Field):
        try:
            out = op.range.element()
            out.data[...] = np.nan
            with np.errstate(all='ignore'):
                op(x, out=out)
            inp = [exact(v) for v in flat(out)]
            if not same(inp, ref, ex):
                problems.append('in-place (out=) value {} differs from the documented table value '
                                '{}'.format(showv(inp), showv(ref)))
        except Exception as e:  # noqa
            problems.append('in-place evaluation raises {}: {}'.format(type(e).__name__, str(e)[:140]))
    return problems, ty, op


def mixed_stream(ctx, count=True, deadline=None):
    import time
    sp, leaves = mixed_pool()
    for ast in mixed_cases(ctx, sp, leaves):
        xs = rand_point(ctx.rng, 3, True)
        problems, ty, op = run_mixed_case(ast, sp, leaves, xs)
        desc = {'expr': m_show(ast, leaves), 'x': [str(v) for v in xs], 'field': 'mixed',
                'stream': 'mixed', 'ast': repr(ast)}
        for p in problems:
            cls = problem_class(p, None, None, None)
            PENDING.append((size(ast), len(PENDING),
                            '{} mixed-field expr root={} leaves={}'.format(
                                cls, ast[0], '+'.join(sorted({leaves[i][0] for i in used_leaves(ast)}))),
                            '{} :: {}'.format(desc['expr'], p)[:700], desc))
        if count:
            ctx.case(('mixed', type(op).__name__, ast[0]) if (op is not None and ty is not None)
                     else None)
            ctx.hit('stream/mixed')
            ctx.hit('mixed/' + ('well-typed' if ty is not None else 'ill-typed'))
        else:
            ctx.evaluations += 1
        if deadline is not None and (PENDING or time.time() > deadline):
            return


def protocol_cases(ctx, pool, cplx):
    """HISTORY stratum beyond single objects: constructor calls with USER-SUPPLIED temporaries
    (tmp / tmp_ran / tmp_dom), leaves whose result aliases their argument, and expressions in
    which ONE operator object occurs several times (sub-expressions are memoised)."""
    rng = ctx.rng
    for n in (2, 3):
        d = 'v{}'.format(n)
        sq = [('L', i) for i, l in enumerate(pool) if l.dom == d and l.ran == d and
              l.kind in ('retarg', 'repartr', 'ident', 'pow2', 'shiftsq', 'shift', 'mat', 'scale',
                         'repart')]
        scale = [('L', i) for i, l in enumerate(pool) if l.kind == 'scale' and l.dom == d][0]
        scal = [2.0, 0.5, -1] + ([1j, 2 - 1j] if cplx else [])
        if ctx.quick:
            sq = [b for b in sq if pool[b[1]].kind in ('retarg', 'repartr', 'pow2', 'shiftsq',
                                                       'mat', 'repart')]
            scal = [2.0] + ([1j] if cplx else [-1])
        for b in sq:
            for s_ in scal:
                c = ('c.rscal', b, s_)
                yield c
                yield ('add', c, ('s.rmul', c, 3.0))          # B + B*3.0 (inherits the tmp)
                yield ('add', c, ('mul', c, scale))           # B + B*S
                yield ('sub', ('s.lmul', c, 2.0), c)
                yield ('v.add', c, rand_vec(rng, n, cplx))
            for b2 in sq[:4]:
                yield ('c.comp', b, b2)
                yield ('add', ('c.comp', b, b2), ('c.comp', b, b2))
                yield ('c.sum', b, b2)
                yield ('s.rmul', ('c.sum', b, b2), 2.0)
                yield ('c.comp', ('c.rscal', b, 2.0), ('c.sum', b2, b))
            yield ('add', b, b)
            yield ('mul', ('add', b, b), ('add', b, b))
            v = rand_vec(rng, n, cplx)
            yield ('add', ('v.lmul', b, v), ('v.rmul', b, v))


def protocol_stream(ctx, count=True, deadline=None):
    import time
    for cplx in (False, True):
        pool, spaces, pool_ids = setup(ctx, cplx, 20260926)
        for ast in protocol_cases(ctx, pool, cplx):
            n = int(pool[sorted(used_leaves(ast))[0]].dom[1:])
            case = {'ast': ast, 'cplx': cplx, 'x': rand_point(ctx.rng, n, cplx), 'stream': 'protocol',
                    'protocol': True, 'memo': {}, 'psample': 0.0,
                    'hit': ctx.hit if count else None, 'pool_seed': 20260926}
            case['forms'] = forms_of(plain(ast))
            with np.errstate(all='ignore'):
                real = run_real(case, pool, spaces, pool_ids)
            desc = {'expr': show_b(ast), 'x': [str(v) for v in case['x']],
                    'field': 'complex' if cplx else 'real', 'stream': 'protocol',
                    'leaves': {'L{}'.format(i): pool[i].spec for i in sorted(used_leaves(ast))},
                    'ast': repr(ast), 'pool_seed': 20260926, 'protocol': True}
            for p in real['problems']:
                PENDING.append((size(plain(ast)), len(PENDING),
                                problem_class(p, None, None, None) + ' protocol expr root={} '
                                'leaves={}'.format(ast[0], '+'.join(sorted(
                                    {pool[i].kind for i in used_leaves(ast)}))),
                                '{} :: {}'.format(desc['expr'], p)[:700], desc))
            if count:
                ctx.case(('protocol', ast[0], cplx) if real.get('status') == 'ok' else None)
                ctx.hit('stream/protocol')
            else:
                ctx.evaluations += 1
            if deadline is not None and (PENDING or time.time() > deadline):
                return


def show_b(ast):
    """source-like text of an expression with constructor forms"""
    if not has_ctor(ast):
        return show(ast)
    if ast[0] == 'c.rscal':
        return 'OperatorRightScalarMult({}, {!r}, tmp=…)'.format(show_b(ast[1]), ast[2])
    if ast[0] == 'c.comp':
        return 'OperatorComp({}, {}, tmp=…)'.format(show_b(ast[1]), show_b(ast[2]))
    if ast[0] == 'c.sum':
        return 'OperatorSum({}, {}, tmp_ran=…, tmp_dom=…)'.format(show_b(ast[1]), show_b(ast[2]))
    return '{}({})'.format(ast[0], ', '.join(show_b(a) if is_expr(a) else repr(a)
                                             for a in ast[1:3]))


def is_expr(a):
    return isinstance(a, tuple) and len(a) >= 2 and isinstance(a[0], str) and \
        (a[0] == 'L' or a[0] in BOPS or a[0] in SOPS or a[0] in VOPS or a[0] in CTOR_FORMS or
         a[0] in ('neg', 'pow'))


def has_ctor(a):
    return is_expr(a) and (a[0] in CTOR_FORMS or any(has_ctor(b) for b in a[1:3]))


def line_of(case, pool):
    """Only the leaves the expression uses go on the wire (renumbered 0..k-1; the answer's
    tree is renumbered back in `process`)."""
    used = sorted(used_leaves(case['ast']))
    case['local'] = used
    ren = {g: i for i, g in enumerate(used)}
    return 'expr leaves={} e={} x={} ix={}'.format('|'.join(pool[g].spec for g in used),
                                                  '|'.join(rpn(case['ast'], ren)), cl(case['x']),
                                                  int(case.get('ix', True)))


def describe(case, pool):
    used = sorted({int(t[2:]) for t in rpn(case['ast']) if t.startswith('L~')})
    return {'expr': show(case['ast']), 'x': [str(v) for v in case['x']],
            'field': 'complex' if case['cplx'] else 'real', 'stream': case['stream'],
            'leaves': {'L{}'.format(i): pool[i].spec for i in used},
            'ast': repr(case['ast']), 'pool_seed': case.get('pool_seed')}


def key_of(case, real, pool):
    """Words that identify the failing class: root form, the forms involved, leaf kinds."""
    ast = case['ast']
    used = sorted({pool[int(t[2:])].kind for t in rpn(ast) if t.startswith('L~')})
    sub = ast[1][0] if isinstance(ast[1], tuple) else ''
    return 'expr root={} under={} forms={} leaves={} field={}'.format(
        ast[0] + ('@' if len(ast) > 3 else ''), sub, '+'.join(sorted(forms_of(ast) - {'L'})), '+'.join(used),
        'complex' if case['cplx'] else 'real')


def problem_class(p, case, real, pool):
    if p.startswith('ownership'):
        return 'ownership;'
    if p.startswith('history'):
        return 'history;'
    if 'flag lost' in p:
        return 'flag-lost;'
    if p.startswith('is_linear=True but'):
        return 'flag-unsound;'
    if 'differs from the documented table' in p:
        return 'value-inplace;' if p.startswith('in-place') else 'value;'
    if p.startswith('well-typed expression raises'):
        return 'raises;'
    if p.startswith('domain/range'):
        return 'domain-range;'
    return 'other;'


def run_driver_parallel(lines, workers=6):
    """core.run_driver on `workers` slices at once (the driver is interpreted; one process
    per slice)."""
    if len(lines) < 400:
        return core.run_driver('C04', lines)
    from concurrent.futures import ThreadPoolExecutor
    n = (len(lines) + workers - 1) // workers
    chunks = [lines[i:i + n] for i in range(0, len(lines), n)]
    with ThreadPoolExecutor(max_workers=workers) as ex:
        parts = list(ex.map(lambda c: core.run_driver('C04', c), chunks))
    return [a for p in parts for a in p]


def process(ctx, cases, pool, spaces, pool_ids, count=True):
    """Run the real code and the model on the cases; record violations / disagreements."""
    import time
    reals, lines = [], []
    t0 = time.time()
    for c in cases:
        c['forms'] = forms_of(c['ast'])
        c['psample'] = ctx.rng.random() if (ctx.quick and c['stream'] in ('level2', 'random')) \
            else 0.0
        c['hit'] = ctx.hit if count else None
        # the extracted in-place programs (`inpx`, a second full evaluation in the driver) are run
        # on every quick case and on a seed-chosen third of the level2 cases of the thorough tier
        c['ix'] = ctx.quick or c['stream'] != 'level2' or ctx.rng.random() < INPX_FRACTION
        with np.errstate(all='ignore'):
            reals.append(run_real(c, pool, spaces, pool_ids))
        lines.append(line_of(c, pool))
    t1 = time.time()
    outs = run_driver_parallel(lines)
    t2 = time.time()
    ctx.extra['seconds_real_code'] = round(ctx.extra.get('seconds_real_code', 0) + t1 - t0, 1)
    ctx.extra['seconds_lean_driver'] = round(ctx.extra.get('seconds_lean_driver', 0) + t2 - t1, 1)
    for c, real, ans in zip(cases, reals, outs):
        desc = describe(c, pool)
        for p in real['problems']:
            PENDING.append((size(c['ast']), len(PENDING),
                            problem_class(p, c, real, pool) + ' ' + key_of(c, real, pool),
                            '{} :: {}'.format(desc['expr'], p)[:700], desc))
        f = dict(t.split('=', 1) for t in ans.split()[1:]) if ans != 'bad-op' else {}
        if 'tree' in f:
            import re
            loc = c['local']
            f['tree'] = re.sub(r'L(\d+)', lambda m: 'L{}'.format(loc[int(m.group(1))]), f['tree'])
        mstatus = ans.split()[0]
        nontrivial = False
        if f.get('tt') == '0':
            ctx.disagree(desc, 'extracted dispatch (buildT over Gen/AlgebraDispatch.lean)',
                         'differs from the hand-written build: ' + ans[:200], stream='translator')
        if real['status'] == 'skip':
            ctx.hit('skip/' + real.get('skip', '?'))
            continue
        if mstatus not in ('ok', 'raise'):
            ctx.disagree(desc, real['status'], ans)
        elif mstatus != real['status']:
            ctx.disagree(desc, real['status'] + ' ' + real.get('exc', real.get('tree', '')),
                         ans[:300])
        elif mstatus == 'ok' and 'fn' not in real:
            ctx.disagree(desc, 'built, but introspection failed: ' + '; '.join(real['problems'])[:300],
                         ans[:200])
        elif mstatus == 'ok':
            mty = '{}>{}/{}'.format(real['dom'], real['ran'], int(real['fn']))
            if not trees_match(real.get('tree'), f['tree'], 'quot' in c['forms']):
                ctx.disagree(desc, 'tree ' + str(real.get('tree')), 'tree ' + f['tree'])
            elif (f['dom'], f['ran'], f['lin'], f['fn']) != (
                    real['dom'], real['ran'], str(int(real['lin'])), str(int(real['fn']))):
                ctx.disagree(desc, 'dom/ran/lin/fn {} {} {} {}'.format(
                    real['dom'], real['ran'], int(real['lin']), int(real['fn'])),
                    'dom/ran/lin/fn {} {} {} {}'.format(f['dom'], f['ran'], f['lin'], f['fn']))
            elif f['ty'] != mty:
                ctx.disagree(desc, 'type ' + mty, 'typeOf ' + f['ty'])
            elif f.get('nf') != str(int(merged_tree(real['tree']))):
                ctx.disagree(desc, 'merged normal form of the real class tree: {}'.format(
                    merged_tree(real['tree'])), 'Impl.merged ' + str(f.get('nf')))
            elif f['linof'] != str(int(lin_expected(c['ast'], pool))):
                ctx.disagree(desc, 'documented-rule flag {}'.format(lin_expected(c['ast'], pool)),
                             'linOf ' + f['linof'])
            else:
                # exact comparison only if the exact (model) value itself fits a double
                ex = real.get('exact', False) and bits_exact(parse_cl(f['den'])) <= EXACT_BITS
                for name in ('val', 'inp'):
                    got = real.get(name)
                    if got is None or got == 'undefined' or None in got or \
                            real.get('ref') == 'undefined':
                        continue  # division by zero / float overflow: outside the model
                    mv = parse_cl(f[name])
                    if not same(got, mv, ex):
                        ctx.disagree(desc, '{} {}'.format(name, showv(got)),
                                     '{} {}'.format(name, showv(mv)))
                        break
                # the in-place branch as EXTRACTED (statement lists interpreted by runInBy, with
                # junk in `out` and in the temporaries) against the real in-place call
                got = real.get('inp')
                if f['inpx'] == 'skip':
                    f['inpx'] = f['val']
                    if count:
                        ctx.hit('inplace-prog/not-sampled')
                elif not (got is None or got == 'undefined' or None in got or
                          real.get('ref') == 'undefined'):
                    root = (real.get('tree') or '').split('(')[0]
                    if not same(got, parse_cl(f['inpx']), ex):
                        ctx.disagree(desc, 'in-place value of the real object {}'.format(showv(got)),
                                     'extracted in-place program (runInBy) {}'.format(
                                         showv(parse_cl(f['inpx']))), stream='inplace-prog')
                    elif count and root and not root.startswith('L'):
                        ctx.hit('inplace-prog/' + root)
                if f['inpx'] != f['val'] and 'quot' not in c['forms']:
                    ctx.disagree(desc, 'model run ' + f['val'], 'model runInBy ' + f['inpx'],
                                 stream='inplace-prog')
                if f['den'] != f['val']:
                    ctx.disagree(desc, 'model run ' + f['val'], 'model den ' + f['den'])
                if isinstance(real.get('ref'), list):
                    if not same(real['ref'], parse_cl(f['den']), ex):
                        ctx.disagree(desc, 'oracle ' + showv(real['ref']),
                                     'den ' + showv(parse_cl(f['den'])))
                    nontrivial = any(p != (0, 0) for p in real['ref'])
            if real.get('tree'):
                import re
                for cls in set(re.findall(r'[A-Za-z]+(?=\()', real['tree'])):
                    ctx.hit('class/' + cls)
                if c.get('reflected_mul'):
                    ctx.hit('dispatch/reflected-first-mul')
                if c['ast'][0] == 'add' and re.match(r'OperatorSum\(Functional', real['tree']):
                    t1 = pytype(c['ast'][1], pool)
                    if t1 is not None and not t1[2]:
                        ctx.hit('dispatch/reflected-first-add')
        else:
            ctx.hit('raise/' + real.get('exc', '?').split(':')[0])
            if f.get('ty', 'none') != 'none':
                # typeOf accepts what build rejects: contradicts C04.build_type
                ctx.disagree(desc, 'raise', 'typeOf ' + f['ty'])
        if count:
            sig = None
            if nontrivial:
                sig = ('cplx' if c['cplx'] else 'real', skeleton(real['tree'], pool))
            ctx.case(sig, sample={'expr': desc['expr'], 'x': desc['x'], 'tree': real.get('tree'),
                                  'value': showv(real.get('val'))}
                     if (sig and c['stream'] == 'random' and size(c['ast']) <= 9) else None)
            ctx.hit('stream/' + c['stream'])
            if real.get('exact') is False:
                ctx.hit('compare/tolerance')
            elif real.get('exact'):
                ctx.hit('compare/exact')
        else:
            ctx.evaluations += 1


PENDING = []


def flush(ctx):
    """Report the recorded oracle failures, smallest expressions first (poor man's shrinking:
    the streams contain every one- and two-level expression, so a small witness usually exists)."""
    PENDING.sort(key=lambda t: t[:2])
    seen = {}
    for sz, _, key, what, desc in PENDING:
        cls = key.split(';')[0]
        if seen.get(cls, 0) >= 60:
            continue
        seen[cls] = seen.get(cls, 0) + 1
        ctx.violation(key, what, desc)
    del PENDING[:]


def batches(it, n):
    buf = []
    for x in it:
        buf.append(x)
        if len(buf) >= n:
            yield buf
            buf = []
    if buf:
        yield buf


def setup(ctx, cplx, pool_seed):
    import random
    prng = random.Random(pool_seed)
    pool, spaces = make_pool(prng, cplx)
    pool_ids = {id(l.op): i for i, l in enumerate(pool)}
    return pool, spaces, pool_ids


def stream(ctx, cplx, pool_seed, it, count=True, batch=6000, deadline=None):
    """Run a case stream; with `deadline` (search only) stop at the first batch that produced an
    oracle failure or when the time is up."""
    import time
    pool, spaces, pool_ids = setup(ctx, cplx, pool_seed)
    for b in batches(it(pool), batch):
        for c in b:
            c['pool_seed'] = pool_seed
        process(ctx, b, pool, spaces, pool_ids, count)
        if deadline is not None and (PENDING or time.time() > deadline):
            return


# ---------------------------------------------------------------------------
# stream `leafclass`: the executable leaf maps of the model (LeafSpecC.map / .info / .cls), one
# leaf at a time, against the real operator they stand for.  Sizes, exponents, vectors and
# scalars range wider than in the expression pool (the theorems are for all of them).

def _c(tok):
    re_, im_ = parse_c(tok)
    return complex(float(re_), float(im_)) if im_ else float(re_)


def op_from_spec(spec, cplx):
    """The real ODL operator for a wire leaf spec (library classes only)."""
    import odl
    mk = odl.cn if cplx else odl.rn
    p = spec.split('~')
    k = p[0]
    if k == 'scale':
        return odl.ScalingOperator(mk(int(p[1])), _c(p[2]))
    if k == 'ident':
        return odl.IdentityOperator(mk(int(p[1])))
    if k == 'pow':
        return odl.PowerOperator(mk(int(p[1])), int(p[2]))
    if k == 'mat':
        rows = [[_c(t) for t in r.split(',')] for r in p[3].split(';')]
        return odl.MatrixOperator(np.array(rows, dtype=complex if cplx else float),
                                  domain=mk(int(p[1])), range=mk(int(p[2])))
    if k == 'constf':
        return odl.solvers.ConstantFunctional(mk(int(p[1])), _c(p[2]))
    if k == 'zerof':
        return odl.solvers.ZeroFunctional(mk(int(p[1])))
    if k == 'inner':
        sp = mk(int(p[1]))
        return odl.InnerProductOperator(sp.element([_c(t) for t in p[2].split(',')]))
    if k == 'l2sq':
        return odl.solvers.L2NormSquared(mk(int(p[1])))
    if k == 'repart':
        return odl.ComplexEmbedding(odl.rn(int(p[1]))) * odl.RealPart(odl.cn(int(p[1])))
    if k == 'impart':
        return odl.ComplexEmbedding(odl.rn(int(p[1]))) * odl.ImagPart(odl.cn(int(p[1])))
    if k == 'scalef':
        return odl.ScalingOperator(mk(1).field, _c(p[1]))
    if k == 'powf':
        return odl.PowerOperator(mk(1).field, int(p[1]))
    raise ValueError('no library leaf for ' + spec)


def leaf_specs(rng, cplx, quick):
    """wire specs of library leaves with random parameters"""
    def vals(n, lo=-3, hi=3):
        out = []
        for _ in range(n):
            a = rng.choice([lo, hi, -1, 1, 2, 0, 0.5, -0.5, 1.5])
            out.append(complex(a, rng.choice([-2, -1, 1, 0.5])) if cplx and rng.random() < 0.5
                       else float(a))
        return out
    sizes = (1, 2, 3) if quick else (1, 2, 3, 4, 5, 7)
    out = []
    for n in sizes:
        out.append('scale~{}~{}'.format(n, cs(vals(1)[0])))
        out.append('ident~{}'.format(n))
        for pw in (1, 2, 3) if quick else (0, 1, 2, 3, 4):
            out.append('pow~{}~{}'.format(n, pw))
        nr = rng.choice(sizes)
        out.append('mat~{}~{}~{}'.format(n, nr, ';'.join(cl(vals(n, -2, 2)) for _ in range(nr))))
        out.append('constf~{}~{}'.format(n, cs(vals(1)[0])))
        out.append('constf~{}~0'.format(n))
        out.append('zerof~{}'.format(n))
        out.append('inner~{}~{}'.format(n, cl(vals(n))))
        out.append('l2sq~{}'.format(n))
        if cplx:
            out.append('repart~{}'.format(n))
            out.append('impart~{}'.format(n))
    out.append('scalef~{}'.format(cs(vals(1)[0])))
    for pw in (1, 2, 3):
        out.append('powf~{}'.format(pw))
    return out


def leaf_eval(op, v):
    """op at the list `v` -> list of python numbers, or an outcome string"""
    import odl
    try:
        with np.errstate(all='ignore'):
            if isinstance(op.domain, odl.set.sets.Field):
                return flat(op(v[0]))
            return flat(op(op.domain.element(v)))
    except Exception as e:  # noqa: a mutated repo must give a VIOLATION, not a crash
        return 'raise:{}: {}'.format(type(e).__name__, str(e)[:120])


def run_leaf_case(op, spec, x, y, s, t):
    """Real code only. Returns (real dict, problems): the ORACLE is the definition of the flags:
    `is_linear` set => additive and homogeneous for the real scalar t on the real code; a
    `Functional` returns an element of its field."""
    import odl
    real = {'lin': bool(op.is_linear), 'fn': isinstance(op, odl.solvers.Functional),
            'dom': sp_name(op.domain), 'ran': sp_name(op.range)}
    sx = [s * a for a in x]
    tx = [t * a for a in x]
    xy = [a + b for a, b in zip(x, y)]
    for name, v in (('fx', x), ('fy', y), ('fsx', sx), ('ftx', tx), ('fxy', xy)):
        real[name] = leaf_eval(op, v)
    problems = []
    vals = [real[k] for k in ('fx', 'fy', 'fsx', 'ftx', 'fxy')]
    if any(isinstance(v, str) for v in vals):
        problems.append('leaf raises: ' + '; '.join(v for v in vals if isinstance(v, str))[:300])
        return real, problems
    ex = {k: [exact(v) for v in real[k]] for k in ('fx', 'fy', 'fsx', 'ftx', 'fxy')}
    real['ex'] = ex
    if any(None in v for v in ex.values()):
        problems.append('leaf value not finite')
        return real, problems

    def cmul(c, pq):
        c = exact(c)
        return (c[0] * pq[0] - c[1] * pq[1], c[0] * pq[1] + c[1] * pq[0])
    real['hom_t'] = ex['ftx'] == [cmul(t, v) for v in ex['fx']]
    real['hom_s'] = ex['fsx'] == [cmul(s, v) for v in ex['fx']]
    real['add'] = ex['fxy'] == [(a[0] + b[0], a[1] + b[1]) for a, b in zip(ex['fx'], ex['fy'])]
    if real['lin'] and not real['hom_t']:
        problems.append('is_linear=True but leaf(t*x) != t*leaf(x) for the real scalar t={!r}: {} vs '
                        '{}'.format(t, real['ftx'], real['fx']))
    if real['lin'] and not real['add']:
        problems.append('is_linear=True but leaf(x+y) != leaf(x)+leaf(y): {} vs {} + {}'.format(
            real['fxy'], real['fx'], real['fy']))
    if real['fn'] and (real['ran'] != 'F' or len(real['fx']) != 1):
        problems.append('Functional leaf does not return a scalar of its field')
    return real, problems


def leafclass_stream(ctx, count=True, deadline=None):
    import time
    quick = ctx.quick
    reps = 2 if quick else 12
    for cplx in (False, True):
        pool_seed = ctx.rng.getrandbits(32)
        pool, spaces, pool_ids = setup(ctx, cplx, pool_seed)
        items = [(l.kind, l.spec.split('~', 1)[1], l.op, i) for i, l in enumerate(pool)
                 if l.kind not in ('retarg', 'repartr')]
        for spec in leaf_specs(ctx.rng, cplx, quick):
            try:
                items.append((spec.split('~')[0], spec, op_from_spec(spec, cplx), None))
            except Exception as e:  # noqa
                PENDING.append((1, len(PENDING), 'raises; leaf constructor {} field={}'.format(
                    spec.split('~')[0], 'complex' if cplx else 'real'),
                    '{} :: {}: {}'.format(spec, type(e).__name__, str(e)[:200]),
                    {'stream': 'leafclass', 'leafspec': spec, 'field': 'complex' if cplx else 'real',
                     'ctor': True}))
        cases, lines = [], []
        for kind, spec, op, idx in items:
            n = 1 if sp_name(op.domain) == 'F' else int(sp_name(op.domain)[1:])
            for _ in range(reps):
                x, y = rand_point(ctx.rng, n, cplx), rand_point(ctx.rng, n, cplx)
                s = ctx.rng.choice([1j, -1j, 1 + 1j, 0.5 - 1j, 2j]) if cplx else \
                    ctx.rng.choice([-1.0, 2.0, 0.5, 3.0])
                t = ctx.rng.choice([2.0, -1.0, 0.5, 3.0, -0.5, 0.0])
                real, problems = run_leaf_case(op, spec, x, y, s, t)
                desc = {'stream': 'leafclass', 'leafspec': spec, 'kind': kind,
                        'field': 'complex' if cplx else 'real', 'pool_seed': pool_seed,
                        'pool_index': idx, 'x': [str(v) for v in x], 'y': [str(v) for v in y],
                        's': str(s), 't': str(t)}
                for p in problems:
                    PENDING.append((1, len(PENDING), '{} leaf kind={} field={}'.format(
                        'flag-unsound;' if p.startswith('is_linear') else 'other;', kind,
                        desc['field']), '{} :: {}'.format(spec, p)[:700], desc))
                cases.append((kind, spec, real, desc))
                lines.append('leafclass leaf={} x={} y={} s={} t={}'.format(
                    spec, cl(x), cl(y), cs(s), cs(t)))
        outs = core.run_driver('C04', lines)
        for (kind, spec, real, desc), ans in zip(cases, outs):
            f = dict(tk.split('=', 1) for tk in ans.split()[1:]) if ans.startswith('ok ') else {}
            if not f:
                ctx.disagree(desc, 'leaf ' + spec, ans, stream='leafclass')
                continue
            mflags = (f['lin'], f['fn'], f['dom'], f['ran'])
            rflags = (str(int(real['lin'])), str(int(real['fn'])), real['dom'], real['ran'])
            if mflags != rflags:
                ctx.disagree(desc, 'is_linear/Functional/domain/range of the real leaf {}'.format(
                    rflags), 'LeafSpecC.info {}'.format(mflags), stream='leafclass')
            elif 'ex' not in real:
                ctx.disagree(desc, 'real leaf: ' + str([real[k] for k in ('fx', 'fsx')])[:300],
                             ans[:300], stream='leafclass')
            else:
                for name in ('fx', 'fy', 'fsx', 'ftx', 'fxy'):
                    mv = parse_cl(f[name])
                    okx = bits_exact(mv) <= EXACT_BITS
                    if not same(real['ex'][name], mv, okx):
                        ctx.disagree(desc, '{} {}'.format(name, showv(real['ex'][name])),
                                     'LeafSpecC.map: {} {}'.format(name, showv(mv)),
                                     stream='leafclass')
                        break
                # the class the theorems use must not claim more than the real leaf does, and
                # must cover every leaf the library flags is_linear
                if f['cls'] == 'all' and not (real['hom_s'] and real['hom_t'] and real['add']):
                    ctx.disagree(desc, 'real leaf: hom(s)={} hom(t)={} additive={}'.format(
                        real['hom_s'], real['hom_t'], real['add']), 'cls=all', stream='leafclass')
                if f['cls'] == 'real' and not (real['hom_t'] and real['add']):
                    ctx.disagree(desc, 'real leaf: hom(t)={} additive={}'.format(
                        real['hom_t'], real['add']), 'cls=real', stream='leafclass')
                if (f['cls'] == 'none') == real['lin']:
                    ctx.disagree(desc, 'is_linear={}'.format(real['lin']), 'cls=' + f['cls'],
                                 stream='leafclass')
            if count:
                nontriv = 'ex' in real and any(p != (0, 0) for p in real['ex']['fx'])
                ctx.case(('leafclass', kind, f['cls'], desc['field']) if nontriv else None)
                ctx.hit('stream/leafclass')
                ctx.hit('leafclass/' + f['cls'])
                ctx.hit('leafkind/' + kind)
                if f['cls'] == 'real' and 'ex' in real and not real['hom_s']:
                    ctx.hit('leafclass/real-not-complex-homogeneous')
                if f['cls'] == 'none' and 'ex' in real and not real['add']:
                    ctx.hit('leafclass/none-not-additive')
            else:
                ctx.evaluations += 1
        if deadline is not None and (PENDING or time.time() > deadline):
            return


# ---------------------------------------------------------------------------
# stream `derived`: the parts of the algebra table that are reached through properties and
# methods rather than operators: `+A`, the `.inverse` of scalar / vector multiples and
# compositions ((a*A)^-1 = A^-1 * (1/a), (A*a)^-1 = (1/a) * A^-1, (A*B)^-1 = B^-1 * A^-1,
# (v*A)^-1 = A^-1 * (1/v), (A*v)^-1 = (1/v) * A^-1), `f.translated(v)(x) = f(x - v)` (merged
# when repeated), FunctionalQuadraticPerturb, the `.functional` accessors.  Oracle only (the Lean
# model has no inverse / translation): the documented rule applied recursively to exact data.

def _num(v):
    return complex(v) if 'j' in v else float(v)


def d_build(a, sp, ShiftBy):
    """invertible expression AST -> real object"""
    import odl
    k = a[0]
    if k == 'S':
        return odl.ScalingOperator(sp, a[1])
    if k == 'I':
        return odl.IdentityOperator(sp)
    if k == 'T':
        return ShiftBy(sp.element(a[1]))
    if k == 'lmul':
        return a[1] * d_build(a[2], sp, ShiftBy)
    if k == 'rmul':
        return d_build(a[1], sp, ShiftBy) * a[2]
    if k == 'div':
        return d_build(a[1], sp, ShiftBy) / a[2]
    if k == 'neg':
        return -d_build(a[1], sp, ShiftBy)
    if k == 'pos':
        return +d_build(a[1], sp, ShiftBy)
    if k == 'comp':
        return d_build(a[1], sp, ShiftBy) * d_build(a[2], sp, ShiftBy)
    if k == 'lvec':
        return sp.element(a[1]) * d_build(a[2], sp, ShiftBy)
    if k == 'rvec':
        return d_build(a[1], sp, ShiftBy) * sp.element(a[2])
    if k == 'pow':
        return d_build(a[1], sp, ShiftBy) ** a[2]
    raise ValueError(k)


def d_fwd(a, x):
    k = a[0]
    if k == 'S':
        return a[1] * x
    if k == 'I':
        return x
    if k == 'T':
        return x + np.array(a[1])
    if k == 'lmul':
        return a[1] * d_fwd(a[2], x)
    if k == 'rmul':
        return d_fwd(a[1], a[2] * x)
    if k == 'div':
        return d_fwd(a[1], x / a[2])
    if k == 'neg':
        return -d_fwd(a[1], x)
    if k == 'pos':
        return d_fwd(a[1], x)
    if k == 'comp':
        return d_fwd(a[1], d_fwd(a[2], x))
    if k == 'lvec':
        return np.array(a[1]) * d_fwd(a[2], x)
    if k == 'rvec':
        return d_fwd(a[1], np.array(a[2]) * x)
    if k == 'pow':
        for _ in range(a[2]):
            x = d_fwd(a[1], x)
        return x
    raise ValueError(k)


def d_inv(a, y):
    """the documented inverse rules, recursively"""
    k = a[0]
    if k == 'S':
        return y / a[1]
    if k == 'I':
        return y
    if k == 'T':
        return y - np.array(a[1])
    if k == 'lmul':
        return d_inv(a[2], y / a[1])
    if k == 'rmul':
        return d_inv(a[1], y) / a[2]
    if k == 'div':
        return d_inv(a[1], y) * a[2]
    if k == 'neg':
        return d_inv(a[1], -y)
    if k == 'pos':
        return d_inv(a[1], y)
    if k == 'comp':
        return d_inv(a[2], d_inv(a[1], y))
    if k == 'lvec':
        return d_inv(a[2], y / np.array(a[1]))
    if k == 'rvec':
        return d_inv(a[1], y) / np.array(a[2])
    if k == 'pow':
        for _ in range(a[2]):
            y = d_inv(a[1], y)
        return y
    raise ValueError(k)


def d_gen(rng, n, cplx, depth):
    def sc():
        if cplx and rng.random() < 0.4:
            return rng.choice([1j, -1j, 2j, -0.5j])
        return rng.choice([2.0, -1.0, 0.5, 4.0, -2.0, -0.5, 2, -1])

    def vec():
        return [sc() for _ in range(n)]
    if depth == 0 or rng.random() < 0.2:
        r = rng.random()
        if r < 0.4:
            return ('S', sc())
        if r < 0.55:
            return ('I',)
        return ('T', [rng.choice([1.0, -2.0, 0.5, 3.0]) for _ in range(n)])
    k = rng.choice(['lmul', 'rmul', 'rmul', 'div', 'neg', 'pos', 'comp', 'comp', 'lvec', 'rvec',
                    'rvec', 'pow'])
    sub = d_gen(rng, n, cplx, depth - 1)
    if k == 'lmul':
        return ('lmul', sc(), sub)
    if k in ('rmul', 'div'):
        return (k, sub, sc())
    if k in ('neg', 'pos'):
        return (k, sub)
    if k == 'comp':
        return ('comp', sub, d_gen(rng, n, cplx, depth - 1))
    if k == 'lvec':
        return ('lvec', vec(), sub)
    if k == 'rvec':
        return ('rvec', sub, vec())
    return ('pow', sub, rng.choice([1, 2]))


def _shiftby_class():
    import odl

    class ShiftBy(odl.Operator):
        """x -> x + b: invertible, NOT linear (so that `A * a` stays an OperatorRightScalarMult)"""

        def __init__(self, b):
            super(ShiftBy, self).__init__(b.space, b.space, linear=False)
            self.b = b

        def _call(self, x):
            return x + self.b

        @property
        def inverse(self):
            return ShiftBy(-self.b)
    return ShiftBy


def _ex(v):
    if isinstance(v, np.ndarray):
        return [exact(c) for c in v.ravel().tolist()]
    return [exact(c) for c in flat(v)]


def run_derived_inverse(a, n, cplx, x, y):
    """(problems, root class) for one invertible expression; real code + documented rules only"""
    import odl
    sp = (odl.cn if cplx else odl.rn)(n)
    problems, root = [], None
    try:
        with np.errstate(all='ignore'):
            op = d_build(a, sp, _shiftby_class())
            root = type(op).__name__
            xa, ya = np.array(x, dtype=complex if cplx else float), \
                np.array(y, dtype=complex if cplx else float)
            want_f, want_i = _ex(d_fwd(a, xa)), _ex(d_inv(a, ya))
            if None in want_f or None in want_i:
                return [], None
            got_f = _ex(op(sp.element(x)))
            if got_f != want_f:
                problems.append('value {} differs from the documented table value {}'.format(
                    showv(got_f), showv(want_f)))
            inv = op.inverse
            got_i = _ex(inv(sp.element(y)))
            if got_i != want_i:
                problems.append('inverse: op.inverse(y) = {} differs from the documented inverse '
                                '{}'.format(showv(got_i), showv(want_i)))
            back = _ex(inv(op(sp.element(x))))
            if back != _ex(xa):
                problems.append('inverse: op.inverse(op(x)) = {} is not x'.format(showv(back)))
            out = sp.element()
            out.data[...] = np.nan
            inv(sp.element(y), out=out)
            if _ex(out) != want_i:
                problems.append('inverse: in-place op.inverse(y, out=) = {} differs from the '
                                'documented inverse {}'.format(showv(_ex(out)), showv(want_i)))
            again = _ex(inv.inverse(sp.element(x)))
            if again != want_f:
                problems.append('inverse: op.inverse.inverse(x) = {} differs from op(x) = {}'.format(
                    showv(again), showv(want_f)))
            if (inv.domain, inv.range) != (op.range, op.domain):
                problems.append('domain/range of the inverse are not range/domain of the operator')
    except Exception as e:  # noqa
        problems.append('inverse: raises {}: {}'.format(type(e).__name__, str(e)[:160]))
    return problems, root


def run_derived_functional(kind, n, cplx, x, v, w, c):
    """translated / quadratic perturbation / accessors of Functional expression objects"""
    import odl
    from odl.solvers.functional.functional import FunctionalTranslation
    sp = (odl.cn if cplx else odl.rn)(n)
    problems, hits = [], []
    try:
        with np.errstate(all='ignore'):
            l2 = odl.solvers.L2NormSquared(sp)
            A = odl.ScalingOperator(sp, 2.0)
            base = {'l2sq': l2, 'lscal': c * l2, 'rscal': l2 * c, 'sum': l2 + c,
                    'comp': l2 * A, 'fsum': l2 + l2 * c,
                    'rvec': l2 * sp.element(w), 'const': odl.solvers.ConstantFunctional(sp, c)}[kind]
            xe, ve, we = sp.element(x), sp.element(v), sp.element(w)
            t1 = base.translated(ve)
            if not isinstance(t1, FunctionalTranslation) or t1.is_linear or t1.domain != sp:
                problems.append('translated: not a nonlinear FunctionalTranslation on the domain')
            if _ex(t1(xe)) != _ex(base(xe - ve)):
                problems.append('translated: f.translated(v)(x) = {} differs from f(x - v) = {}'.format(
                    t1(xe), base(xe - ve)))
            hits.append('derived/translated')
            t2 = t1.translated(we)
            if _ex(t2(xe)) != _ex(base(xe - ve - we)):
                problems.append('translated twice: f.translated(v).translated(w)(x) = {} differs '
                                'from f(x - v - w) = {}'.format(t2(xe), base(xe - ve - we)))
            if t2.functional is not base or _ex(t2.translation) != _ex(ve + we):
                problems.append('translated twice: translations not merged into (f, v + w)')
            hits.append('derived/translated-twice')
            # the table on a translated functional: (g * a)(x) = g(a x), (a * g)(x) = a g(x)
            g = t1 * 2.0
            if _ex(g(xe)) != _ex(base(2.0 * xe - ve)):
                problems.append('translated: (f.translated(v) * 2)(x) differs from f(2x - v)')
            g = 2.0 * t1 + 1.0
            if _ex(g(xe)) != _ex(2.0 * base(xe - ve) + 1.0):
                problems.append('translated: (2 * f.translated(v) + 1)(x) differs from 2 f(x-v) + 1')
            # f + a||x||^2 + <x, u> + c
            q = odl.solvers.FunctionalQuadraticPerturb(base, quadratic_coeff=2.0, linear_term=we,
                                                       constant=c)
            want = base(xe) + 2.0 * xe.inner(xe) + xe.inner(we) + c
            if _ex(q(xe)) != _ex(want):
                problems.append('quadratic perturbation: value {} differs from f(x) + a<x,x> + <x,u> '
                                '+ c = {}'.format(q(xe), want))
            if q.functional is not base or q.quadratic_coeff != 2.0 or q.constant != c or \
                    _ex(q.linear_term) != _ex(we):
                problems.append('quadratic perturbation: accessors do not return the arguments')
            hits.append('derived/quadratic-perturb')
            # accessors of the scalar / vector multiples
            if kind == 'lscal' and c != 0 and base.functional is not l2:
                problems.append('accessor: (c * f).functional is not f')
            if kind == 'rscal' and c != 0 and base.functional is not l2:
                problems.append('accessor: (f * c).functional is not f')
            if kind == 'rvec' and base.functional is not l2:
                problems.append('accessor: (f * v).functional is not f')
            if kind in ('lscal', 'rscal', 'rvec') and c != 0:
                hits.append('derived/accessor-functional')
    except Exception as e:  # noqa
        problems.append('derived functional: raises {}: {}'.format(type(e).__name__, str(e)[:160]))
    return problems, hits


def derived_stream(ctx, count=True, deadline=None):
    import time
    import odl
    n_inv = 150 if ctx.quick else 1500
    for cplx in (False, True):
        field = 'complex' if cplx else 'real'
        for it in range(n_inv):
            n = ctx.rng.choice([2, 3])
            a = d_gen(ctx.rng, n, cplx, ctx.rng.choice([1, 2, 2, 3]))
            x, y = rand_point(ctx.rng, n, cplx), rand_point(ctx.rng, n, cplx)
            problems, root = run_derived_inverse(a, n, cplx, x, y)
            desc = {'stream': 'derived', 'what': 'inverse', 'dast': repr(a), 'n': n, 'field': field,
                    'x': [str(v) for v in x], 'y': [str(v) for v in y]}
            for p in problems:
                PENDING.append((len(repr(a)), len(PENDING), '{} derived root={} class={} field={}'.format(
                    'inverse;' if p.startswith('inverse') else 'value;', a[0], root, field),
                    '{} :: {}'.format(a, p)[:700], desc))
            if count:
                ctx.case(('derived', a[0], root, cplx) if root else None)
                ctx.hit('stream/derived')
                if root:
                    ctx.hit('derived/inverse/' + root)
                if a[0] == 'pos':
                    ctx.hit('derived/pos')
            else:
                ctx.evaluations += 1
        # `+A is A`; a zero scalar multiple has no inverse
        sp = (odl.cn if cplx else odl.rn)(2)
        A = odl.ScalingOperator(sp, 2.0)
        desc = {'stream': 'derived', 'what': 'fixed', 'field': field}
        try:
            if (+A) is not A:
                PENDING.append((1, len(PENDING), 'value; derived +A field=' + field,
                                '+A is not A', desc))
            for z, nm in ((0 * (A * A), 'OperatorLeftScalarMult'),
                          (_shiftby_class()(sp.one()) * 0, 'OperatorRightScalarMult')):
                try:
                    z.inverse
                    PENDING.append((1, len(PENDING), 'inverse; derived zero scalar class={} field={}'.format(
                        nm, field), 'the inverse of a zero scalar multiple does not raise', desc))
                except ZeroDivisionError:
                    if count:
                        ctx.hit('derived/inverse-zero-raises')
        except Exception as e:  # noqa
            PENDING.append((1, len(PENDING), 'other; derived fixed cases field=' + field,
                            'raises {}: {}'.format(type(e).__name__, str(e)[:160]), desc))
        for it in range(40 if ctx.quick else 400):
            n = ctx.rng.choice([2, 3])
            kind = ctx.rng.choice(['l2sq', 'lscal', 'rscal', 'sum', 'comp', 'fsum', 'rvec', 'const'])
            x, v, w = (rand_point(ctx.rng, n, False) for _ in range(3))
            if cplx:
                x = [complex(a, ctx.rng.choice([0, 1, -1, 0.5])) for a in x]
                v = [complex(a, ctx.rng.choice([0, 1, -2])) for a in v]
            c = ctx.rng.choice([2.0, -1.0, 0.5, 3.0, 0.0])
            problems, hits = run_derived_functional(kind, n, cplx, x, v, w, c)
            desc = {'stream': 'derived', 'what': 'functional', 'kind': kind, 'n': n, 'field': field,
                    'x': [str(a) for a in x], 'v': [str(a) for a in v], 'w': [str(a) for a in w],
                    'c': str(c)}
            for p in problems:
                PENDING.append((2, len(PENDING), '{}; derived functional kind={} field={}'.format(
                    p.split(':')[0].replace(' ', '-'), kind, field), '{} :: {}'.format(kind, p)[:700],
                    desc))
            if count:
                ctx.case(('derived-f', kind, cplx))
                ctx.hit('stream/derived')
                for h in hits:
                    ctx.hit(h)
            else:
                ctx.evaluations += 1
        if deadline is not None and (PENDING or time.time() > deadline):
            return


MODEL_BRANCHES = ['class/' + n for n in (
    'OperatorSum', 'FunctionalSum', 'FunctionalScalarSum', 'OperatorVectorSum', 'OperatorComp',
    'FunctionalComp', 'OperatorPointwiseProduct', 'FunctionalProduct', 'FunctionalQuotient',
    'OperatorLeftScalarMult', 'FunctionalLeftScalarMult', 'OperatorRightScalarMult',
    'FunctionalRightScalarMult', 'OperatorLeftVectorMult', 'OperatorRightVectorMult',
    'FunctionalRightVectorMult', 'FunctionalLeftVectorMult', 'ConstantFunctional',
    'ZeroFunctional')] + ['dispatch/reflected-first-add', 'dispatch/reflected-first-mul', 'raise/OpTypeError', 'raise/TypeError',
                          'skip/div-by-zero-scalar(raised)', 'skip/div-by-zero-scalar(built)',
                          'mixed/well-typed', 'stratum/ownership', 'stratum/history',
                          'stream/protocol', 'stream/derived', 'derived/pos',
                          'derived/inverse-zero-raises', 'derived/translated',
                          'derived/translated-twice', 'derived/quadratic-perturb',
                          'derived/accessor-functional',
                          'derived/inverse/OperatorComp', 'derived/inverse/OperatorLeftScalarMult',
                          'derived/inverse/OperatorRightScalarMult',
                          'derived/inverse/OperatorLeftVectorMult',
                          'derived/inverse/OperatorRightVectorMult',
                          'stream/leafclass', 'leafclass/all', 'leafclass/real',
                          'leafclass/none', 'leafclass/real-not-complex-homogeneous',
                          'leafclass/none-not-additive'] + ['inplace-prog/' + k for k in (
                              'OperatorSum', 'OperatorVectorSum', 'OperatorComp',
                              'OperatorPointwiseProduct', 'OperatorLeftScalarMult',
                              'OperatorRightScalarMult', 'OperatorLeftVectorMult',
                              'OperatorRightVectorMult', 'FunctionalLeftVectorMult')] + ['leafkind/' + k for k in (
                              'mat', 'scale', 'ident', 'pow', 'pow2', 'shift', 'shiftsq', 'constf',
                              'zerof', 'inner', 'linf', 'l2sq', 'repart', 'impart', 'scalef', 'powf')]


def run(ctx):
    try:
        _run(ctx)
        unhit = [b for b in MODEL_BRANCHES if not ctx.branches.get(b)]
        ctx.extra['unhit_model_branches'] = unhit
        if unhit and not ctx.quick:
            ctx.disagree({'unhit_model_branches': unhit}, 'never generated',
                         'the model has this constructor / dispatch branch', stream='coverage')
    finally:
        flush(ctx)


def _run(ctx):
    quick = ctx.quick
    n_rand = 800 if quick else 8000
    depth = 6 if quick else 9
    kinds_q = ('pow2', 'mat', 'l2sq', 'linf', 'inner', 'constf', 'repart', 'shiftsq')
    kinds_t = ('pow2', 'pow3', 'mat', 'scale', 'ident', 'l2sq', 'linf', 'inner', 'constf', 'zerof',
               'repart', 'impart', 'shiftsq', 'shift')
    for cplx in (False, True):
        seed = ctx.rng.getrandbits(32)
        stream(ctx, cplx, seed, lambda pool: random_cases(ctx, pool, cplx, n_rand, depth))
        seed = ctx.rng.getrandbits(32)
        stream(ctx, cplx, seed,
               lambda pool: systematic_cases(ctx, pool, cplx, kinds_q if quick else kinds_t))
        stream(ctx, cplx, seed, lambda pool: targeted_cases(ctx, pool, cplx))
    mixed_stream(ctx)
    protocol_stream(ctx)
    leafclass_stream(ctx)
    derived_stream(ctx)


SEARCH_SECONDS = 50


def search(ctx, broken):
    """An obligation / the correspondence broke without an oracle failure in `run`: look
    harder on the REAL code with the oracle, for at most ~SEARCH_SECONDS: the targeted streams,
    the full two-level enumeration (unsampled, more leaf kinds) and deeper random trees, real
    field first; stops at the first batch with a failing input."""
    import time
    deadline = time.time() + SEARCH_SECONDS
    saved = ctx.tier
    ctx.tier = 'thorough'
    try:
        # alias-unsafe leaves first: a broken in-place pin / _call extraction shows there
        kinds = ('shiftsq', 'shift', 'pow2', 'pow3', 'mat', 'scale', 'l2sq', 'linf', 'inner',
                 'constf', 'zerof', 'repart', 'impart')
        # ownership / history strata first: a broken pin, lemma or extraction about copies,
        # temporaries or _call bodies shows there
        leafclass_stream(ctx, count=False, deadline=deadline)
        if PENDING or time.time() > deadline:
            return
        derived_stream(ctx, count=False, deadline=deadline)
        if PENDING or time.time() > deadline:
            return
        protocol_stream(ctx, count=False, deadline=deadline)
        if PENDING or time.time() > deadline:
            return
        mixed_stream(ctx, count=False, deadline=deadline)
        if PENDING or time.time() > deadline:
            return
        for cplx in (False, True):
            seed = ctx.rng.getrandbits(32)
            steps = [lambda pool: targeted_cases(ctx, pool, cplx),
                     lambda pool: systematic_cases(ctx, pool, cplx, kinds),
                     lambda pool: random_cases(ctx, pool, cplx, 3000, 8)]
            for it in steps:
                stream(ctx, cplx, seed, it, count=False, batch=1500, deadline=deadline)
                if PENDING or time.time() > deadline:
                    return
    finally:
        ctx.tier = saved
        flush(ctx)


def replay(ctx, case):
    """Re-run one recorded case on the real code; returns a description if it still fails."""
    import ast as pyast
    if case.get('stream') == 'derived':
        cplx = case['field'] == 'complex'
        if case.get('what') == 'inverse':
            a = eval(case['dast'], {'__builtins__': {}})
            problems, _ = run_derived_inverse(a, case['n'], cplx, [_num(v) for v in case['x']],
                                              [_num(v) for v in case['y']])
        elif case.get('what') == 'functional':
            problems, _ = run_derived_functional(
                case['kind'], case['n'], cplx, [_num(v) for v in case['x']],
                [_num(v) for v in case['v']], [_num(v) for v in case['w']], float(case['c']))
        else:
            return 'fixed derived case: re-run the check'
        return '; '.join(problems)[:600] if problems else None
    if case.get('stream') == 'leafclass':
        cplx = case['field'] == 'complex'
        if case.get('ctor'):
            try:
                op_from_spec(case['leafspec'], cplx)
                return None
            except Exception as e:  # noqa
                return 'leaf constructor raises {}: {}'.format(type(e).__name__, str(e)[:200])
        if case.get('pool_index') is not None:
            pool, _, _ = setup(ctx, cplx, case['pool_seed'])
            op = pool[case['pool_index']].op
        else:
            op = op_from_spec(case['leafspec'], cplx)
        num = (lambda v: complex(v) if 'j' in v else float(v))
        _, problems = run_leaf_case(op, case['leafspec'], [num(v) for v in case['x']],
                                    [num(v) for v in case['y']], num(case['s']), num(case['t']))
        return '; '.join(problems)[:600] if problems else None
    if case.get('field') == 'mixed':
        sp, leaves = mixed_pool()
        a = eval(case['ast'], {'__builtins__': {}})
        xs = [complex(v) if 'j' in v else float(v) for v in case['x']]
        problems, _, _ = run_mixed_case(a, sp, leaves, xs)
        return '; '.join(problems)[:600] if problems else None
    cplx = case['field'] == 'complex'
    pool, spaces, pool_ids = setup(ctx, cplx, case['pool_seed'])
    if case.get('protocol'):
        a = eval(case['ast'], {'np': np, 'Fraction': Fraction, '__builtins__': {}})
        c = {'ast': a, 'cplx': cplx, 'stream': 'replay', 'protocol': True, 'memo': {},
             'psample': 0.0, 'x': [complex(v) if 'j' in v else float(v) for v in case['x']],
             'forms': forms_of(plain(a))}
        with np.errstate(all='ignore'):
            real = run_real(c, pool, spaces, pool_ids)
        return '; '.join(real['problems'])[:600] if real['problems'] else None
    c = {'ast': eval(case['ast'], {'np': np, 'Fraction': Fraction, '__builtins__': {}}),
         'cplx': cplx, 'stream': 'replay', 'psample': 0.0,
         'x': [complex(v) if 'j' in v else float(v) for v in case['x']]}
    c['forms'] = forms_of(c['ast'])
    with np.errstate(all='ignore'):
        real = run_real(c, pool, spaces, pool_ids)
    return '; '.join(real['problems'])[:600] if real['problems'] else None
