"""C08 — functional, convex conjugate and their proximals are mutually consistent.

Tie to /repo (correspondence): convex functional expressions are built with ODL's own
constructors on rn, weighted rn, uniform_discr (cell volume != 1) and product spaces; the LIVE
object is serialised to the wire format of Model/FunctionalsWire.lean and f(x),
f.convex_conj(y), f.convex_conj.convex_conj(x) of the real objects are compared with the Lean
execution of `Fn.value` / `Fn.conj` (the conjugation rules as coded) on the same inputs.

Oracle (independent of the model, on the real code):
  * Fenchel-Young: f(x) + f*(y) >= <x, y> on random pairs;
  * equality at y = grad f(x);
  * f** takes the same values as f;
  * Moreau: prox_{sigma f}(x) + sigma * prox_{f*/sigma}(x/sigma) = x whenever both exist.
"""
import math
from fractions import Fraction

import numpy as np

from vf import core
from vf.core import fs, fl
from harness import functionals_common as fc
from harness.functionals_common import NoModel, close, safe_call
from harness.c09 import rand_matrix

RULE = ('convex functional expressions with a convex_conj (built-ins x derived classes, depth <= 3) '
        'x 9 spaces x points on the dyadic grid; per expression: Fenchel-Young inequality on '
        'random pairs, equality at y = grad f(x), biconjugate values, Moreau decomposition, and '
        'f / f* / f** values vs the Lean model. distinct = distinct (space kind, set of classes in '
        'the expression, check) signatures among non-trivial cases (finite, not identically zero). '
        'moreau-model stream: f.proximal(sigma)(x) and f.convex_conj.proximal(1/sigma)(x/sigma) of '
        'every modelled expression vs the Lean execution of Fn.toProx / Prox.Fn.prox on f and on the '
        'coded conjugate Fn.conj f (raises compared in both directions), plus default-conj recipes '
        '(FunctionalQuadraticPerturb with quadratic coefficient > 0). sepfy stream: SeparableSum of '
        'modelled parts on the product spaces, f(x) / f.convex_conj(y) / <x,y> / class skeletons of the '
        'conjugate parts vs sepValue / sepConj / sepInner. extra strata (round 5): NuclearNorm pair, '
        'simple_functional, IndicatorBox, SeparableSum.__getitem__, proximal factory pairs (lam, g, '
        'point-wise steps), __mul__/__rmul__ corners, documented no-conjugate classes.')
TRUSTED = ['serialiser tools/harness/functionals_common.py:wire (live ODL functional object -> '
           'model expression, by class and attributes)',
           'NumPy ufuncs / inner products (modelled as exact entry-wise maps and weighted sums)',
           'np.linalg.inv inside MatrixOperator.inverse: the driver checks M*Minv = I exactly']
ASSUMPTIONS = ['floating-point rounding is outside the model: exact-stream inputs are dyadic so '
               'that comparison is exact; general-stream comparison uses 1e-9 relative tolerance',
               'L2 / Lp norms, KL functionals, group norms and the nuclear norm are outside the '
               'executable model (abstract theorems and oracle only); separable sums are modelled for '
               'value / convex_conj / inner product (stream sepfy), their proximal is oracle only',
               'the Moreau oracle compares the two proximals of the real code; that each proximal '
               'is the minimiser is property C07',
               'the Moreau theorems C08.moreau_exec_* assume an exact np.sqrt (SqrtOK) and the '
               'unfudged radius 1 of proximal_convex_conj_l1; the code uses 1 - 1e-14 (deviation '
               '<= sigma * 1e-14, C08.moreau_l1_fudged); the driver runs with the code\'s radius and '
               'a rational sqrt (exact on squares, 2^-64 relative otherwise); the moreau-model '
               'comparison is exact where float arithmetic is exact and 1e-11 relative otherwise']
KNOWN_EXPLAINS_DISAGREEMENT = False
# classes for which one of the two proximals is DEFINED by proximal_convex_conj in the code
# (L2Norm <-> ball via proximal_convex_conj_l2, Linf <-> l1-ball via x - proj_l1, the KL families)
SELF_REFERENTIAL = {'l2', 'indl2', 'linf', 'indl1', 'kl', 'klcc', 'klce', 'klcecc'}


def EXPECTED_BRANCHES(ctx=None):
    return (fc.history_expected_branches() + fc.wide_expected_branches('C08') +
            fc.forms_expected_branches() + list(EXTRA_BRANCHES) +
            ['sepfy/fy', 'sepfy/fy-eq', 'sepfy/biconj', 'sepfy/conj-raises', 'sepfy-model/ok',
             'sepfy-model/noconj'])

# --------------------------------------------------------------------------

def gen_leaf(rng, S, exact):
    n = S.size
    kinds = ['l1', 'l2sq', 'l2sq', 'const', 'zero', 'indzero', 'indlinf', 'lin', 'quadscale',
             'quadscale']
    if not S.is_pspace:
        kinds += ['huber', 'huber']
    if S.kind in ('rn', 'rn-const'):
        kinds += ['quadmat', 'quadmat']
    if not exact:
        kinds += ['l2', 'linf', 'indl2', 'indl1', 'lp']
        if not S.is_pspace:
            kinds += ['kl', 'klce']
    k = rng.choice(kinds)
    if k in ('l1', 'l2', 'l2sq', 'zero', 'indlinf', 'linf', 'indl2', 'indl1'):
        return [k]
    if k == 'lp':
        return ['lp', rng.choice([1.5, 3.0])]
    if k in ('const', 'indzero'):
        return [k, rng.choice([1.0, -2.0, 0.5, 0.0])]
    if k == 'huber':
        return ['huber', rng.choice([0.5, 1.0, 2.0, 0.25])]
    if k == 'lin':
        return ['lin', fc.rvec(rng, n), rng.choice([0.0, 1.0, -0.5])]
    if k in ('kl', 'klce'):
        return [k, rng.choice([None, [rng.choice([0.5, 1.0, 2.0]) for _ in range(n)]])]
    b = rng.choice([None, fc.rvec(rng, n)])
    c = rng.choice([0.0, 2.0, -1.5])
    if k == 'quadscale':
        return ['quadscale', rng.choice([2.0, 0.5, 4.0, 1.0]), b, c]
    if k == 'quadmul':
        return ['quadmul', [rng.choice([1.0, 2.0, 0.5, 4.0]) for _ in range(n)], b, c]
    if k == 'quadmat':
        # symmetric positive definite L D L^T
        L = np.eye(n)
        for i in range(n):
            for j in range(i):
                L[i, j] = rng.choice([0, 0, 1, -1, 2])
        D = np.diag([rng.choice([1.0, 2.0, 0.5, 4.0]) for _ in range(n)])
        return ['quadmat', L.dot(D).dot(L.T).tolist(), b, c]
    raise KeyError(k)


def gen_recipe(rng, S, depth, exact=True):
    if depth <= 0 or rng.random() < 0.2:
        return gen_leaf(rng, S, exact)
    n = S.size
    kinds = ['lscal', 'rscal', 'rvec', 'ssum', 'trans', 'qp0', 'breg']
    k = rng.choice(kinds)
    sub = lambda: gen_recipe(rng, S, depth - 1, exact)  # noqa
    pow2 = [2.0, 0.5, 4.0, 0.25]
    if k == 'lscal':
        return ['lscal', rng.choice(pow2 if exact else pow2 + [3.0, 0.3, 1.7]), sub()]
    if k == 'rscal':
        return ['rscal', rng.choice([-s for s in pow2] + pow2 if exact
                                    else pow2 + [-3.0, 0.3, -1.7]), sub()]
    if k == 'rvec':
        return ['rvec', [rng.choice([1.0, 2.0, -1.0, 0.5, -2.0]) for _ in range(n)], sub()]
    if k == 'ssum':
        return ['ssum', rng.choice([1.0, -2.5, 0.5]), sub()]
    if k == 'trans':
        return ['trans', fc.rvec(rng, n), sub()]
    if k == 'qp0':
        return ['qp', 0.0, rng.choice([None, fc.rvec(rng, n)]), rng.choice([0.0, 1.0, -3.0]), sub()]
    if k == 'breg':
        inner = sub()
        if any(c.startswith('ind') or c.startswith('kl') for c in fc.recipe_classes(inner)):
            return inner       # the Bregman point must lie where f is finite
        return ['breg', fc.rvec(rng, n), fc.rvec(rng, n), inner]
    raise KeyError(k)


def class_zoo(rng, S):
    """Every class with an explicit convex_conj, class by class (general stream)."""
    n = S.size
    pos = [rng.choice([0.5, 1.0, 2.0, 1.5]) for _ in range(n)]
    out = [['l1'], ['l2'], ['linf'], ['lp', 1.5], ['lp', 3.0], ['l2sq'], ['const', 2.0], ['zero'],
           ['indzero', 1.0], ['indlinf'], ['indl2'], ['indl1'], ['indlp', 3.0],
           ['lin', fc.rvec(rng, n), 0.5],
           ['quadscale', 2.0, fc.rvec(rng, n), 1.0], ['quadscale', 0.5, None, -1.0],
           ['quadmul', pos, None, -1.0],          # MultiplyOperator has no inverse: must raise
           ['infconv', ['l1'], ['l2sq']], ['infconv', ['l2sq'], ['const', 1.0]],
           ['conj', ['infconv', ['indlinf'], ['l2sq']]]]
    if not S.is_pspace:
        out += [['kl', None], ['kl', pos], ['klcc', pos], ['klce', None], ['klce', pos],
                ['klcecc', pos]]
    if not S.is_pspace or S.space.is_power_space:
        out += [['huber', 0.5], ['huber', 2.0]]
    if S.kind in ('rn', 'rn-const'):
        out.append(gen_leaf_quadmat(rng, S))
    if S.is_pspace:
        parts = [rng.choice([['l2sq'], ['l1'], ['l2'], ['const', 1.0]]) for _ in S.space]
        out.append(['sepsum', parts])
        if S.space.is_power_space:
            out += [['groupl1', 2.0], ['groupl1', 1.0], ['indgroupl1', 2.0]]
    return out


def corner_recipes(rng, S):
    """Inputs that need a specific shape: conjugates that are flagged linear (so that
    `s * f* * (1/s)` / `f* * (1/s)` take the LeftScalarMult branch of `Functional.__mul__`),
    QuadraticForm with vector inside scalings/translations, negative argument scalings."""
    n = S.size
    t = fc.rvec(rng, n, -4, 4, 2, nonzero=True)
    b = fc.rvec(rng, n, -4, 4, 2)
    out = [
        ['lscal', 2.0, ['indzero', 0.0]],
        ['rscal', 2.0, ['indzero', 0.0]],
        ['rscal', -2.0, ['trans', t, ['indzero', 0.0]]],
        ['lscal', 4.0, ['trans', t, ['indzero', 0.0]]],
        ['rscal', 0.5, ['lscal', 2.0, ['trans', t, ['indzero', 0.0]]]],
        ['rscal', 2.0, ['indzero', 1.0]],
        ['lscal', 2.0, ['ssum', 1.0, ['trans', t, ['indzero', 0.0]]]],
        ['rscal', -0.5, ['quadscale', 2.0, b, 1.0]],
        ['trans', t, ['lscal', 0.5, ['quadscale', 4.0, b, -1.0]]],
        ['lscal', -1.0, ['l2sq']],                         # non-positive left scalar: ValueError
        ['rscal', 2.0, ['lscal', -0.5, ['trans', t, ['l1']]]],
        ['ssum', 1.0, ['lscal', -2.0, ['huber', 0.5]]] if not S.is_pspace else ['lscal', -2.0, ['l1']],
        ['qp', 0.0, t, 2.0, ['quadscale', 0.5, b, 0.0]],
        ['breg', t, b, ['quadscale', 2.0, None, 0.0]],
    ]
    if S.kind in ('rn', 'rn-const'):
        q = gen_leaf_quadmat(rng, S)
        out += [['rscal', 2.0, q], ['lscal', 0.25, ['trans', t, q]]]
    return out


def gen_leaf_quadmat(rng, S):
    while True:
        r = gen_leaf(rng, S, True)
        if r[0] == 'quadmat':
            return r


def leaf_domain(r):
    ks = fc.recipe_classes(r)
    if 'kl' in ks or 'klce' in ks:
        return 'pos'
    if 'klcc' in ks:
        return 'lt1'
    return None


def has_quadform_with_operator(r):
    ks = fc.recipe_classes(r)
    return any(k in ks for k in ('quadmat', 'quadscale', 'quadmul'))


def point(rng, S, dom=None, den=4, small=False):
    n = S.size
    if dom == 'pos':
        return [rng.randint(1, 12) / 4.0 for _ in range(n)]
    if dom == 'lt1':
        return [rng.randint(-12, 3) / 4.0 for _ in range(n)]
    if small:
        return fc.rvec(rng, n, -4, 4, 8)
    return fc.rvec(rng, n, -8, 8, den)


def expected_conj_raise(r):
    """The only documented reasons for `convex_conj` to raise inside the generated language:
    a non-positive left scalar (ValueError, `FunctionalLeftScalarMult.convex_conj`) and
    QuadraticForm over MultiplyOperator, which has no `inverse` (OpNotImplementedError)."""
    def walk(t):
        if not isinstance(t, (list, tuple)) or not t or not isinstance(t[0], str):
            return None
        if t[0] == 'lscal' and float(t[1]) <= 0:
            return 'ValueError'
        if t[0] == 'quadmul':
            return 'OpNotImplementedError'
        for u in t[1:]:
            v = walk(u)
            if v:
                return v
        return None
    return walk(r)


def live_nonpos_left_scalar(f, depth=0):
    """Does the live object contain a FunctionalLeftScalarMult with scalar <= 0 (also where
    `f * s` was dispatched to `s * f` for a functional flagged linear)?  Its convex_conj raises
    the documented ValueError; used where no model answer is available (oracle-only search)."""
    if type(f).__name__ == 'FunctionalLeftScalarMult':
        try:
            if float(f.scalar) <= 0:
                return True
        except Exception:  # noqa
            pass
    if depth > 8:
        return False
    for attr in ('functional', 'left', 'right', 'operator'):
        try:
            h = getattr(f, attr, None)
        except Exception:  # noqa
            h = None
        if h is not None and h is not f and live_nonpos_left_scalar(h, depth + 1):
            return True
    return False


def tag(r):
    """Words identifying special input classes (matched by known_findings.json)."""
    return ' [QuadraticForm-with-operator]' if has_quadform_with_operator(r) else ''


def check_expr(ctx, r, S, stream, lines, pend, n_pts=3, oracle_only=False):
    rng = ctx.rng
    desc0 = {'space': S.name, 'recipe': r, 'stream': stream}
    classes = tuple(sorted(set(fc.recipe_classes(r))))
    key0 = 'space={}({}) expr={}{}'.format(S.name, S.kind, '/'.join(fc.recipe_classes(r)), tag(r))
    st, f = safe_call(fc.build, r, S, True)
    if st != 'ok':
        ctx.violation('construct ' + key0, 'constructing the functional raised ' + st, desc0)
        return
    w = None
    if not oracle_only:
        try:
            w = fc.wire(f, S)
        except NoModel as e:
            ctx.hit('oracle-only:' + str(e)[:40])
        except Exception as e:  # noqa
            ctx.violation('serialise ' + key0, 'reading the functional object raised {}: {}'.format(
                type(e).__name__, e), desc0)
    zeros = fl([0.0] * S.size)
    st, g = safe_call(lambda: f.convex_conj)
    if st != 'ok':
        # never skipped silently: the model must say `noconj`, and a raise outside the two
        # documented cases is a violation
        ctx.hit('conj-raises/' + r[0])
        exp = expected_conj_raise(r)
        if w is not None:
            # modelled expression: the raise is legitimate iff the model (which follows the
            # documented ValueError of FunctionalLeftScalarMult for scalars <= 0, also when
            # `f * s` was dispatched to `s * f` for a functional flagged linear) says `noconj`
            lines.append('conjskel f={} w={} x={}'.format(w, fc.wl(S), zeros))
            pend.append(('conjraise', dict(desc0, key='convex_conj-raises ' + key0), st, stream))
        elif exp is None and 'ValueError' in st and live_nonpos_left_scalar(f):
            ctx.hit('conj-raises/dispatched-nonpositive-left-scalar')
        elif exp is None or exp not in st:
            ctx.violation('convex_conj-raises ' + key0, 'f.convex_conj raised ' + st, desc0)
        ctx.case(('conj-raises', S.kind, classes))
        return
    if w is not None:
        try:
            wg = fc.wire(g, S)
        except NoModel:
            wg = None
        except Exception as e:  # noqa
            wg = None
            ctx.violation('serialise-conj ' + key0, 'reading f.convex_conj raised {}: {}'.format(
                type(e).__name__, e), desc0)
        lines.append('conjskel f={} w={} x={}'.format(w, fc.wl(S), zeros))
        pend.append(('conjskel', dict(desc0), None if wg is None else fc.skeleton(wg), stream))
    st, gg = safe_call(lambda: g.convex_conj)
    if st != 'ok':
        gg = None
        if w is not None:
            lines.append('biconjval f={} w={} x={}'.format(w, fc.wl(S), zeros))
            pend.append(('conjraise', dict(desc0, key='biconj-raises ' + key0), st, stream))
        elif 'ValueError' in st and live_nonpos_left_scalar(g):
            ctx.hit('biconj-raises/dispatched-nonpositive-left-scalar')
        else:
            ctx.violation('biconj-raises ' + key0, 'f.convex_conj.convex_conj raised ' + st, desc0)
    evaluable = r[0] != 'infconv'
    dom = leaf_domain(r)
    cdom = {'pos': 'lt1', 'lt1': 'pos'}.get(dom)
    for i in range(n_pts):
        den = rng.choice([4, 2, 1]) if stream == 'exact' else 4
        xs = point(rng, S, dom, den)
        ys = point(rng, S, cdom, den, small=(i % 2 == 0))
        if stream == 'general':
            xs = [v + rng.choice([0.1, -0.07, 0.013]) for v in xs] if dom is None else xs
        x, y = S.elem(xs), S.elem(ys)
        desc = dict(desc0, x=xs, y=ys)
        xy = float(x.inner(y))
        fx = None
        if evaluable:
            st, fx = safe_call(lambda: float(f(x)))
            if st != 'ok':
                ctx.violation('value-raises ' + key0, 'f(x) raised ' + st, desc)
                continue
        st, gy = safe_call(lambda: float(g(y)))
        if st != 'ok':
            if 'NotImplementedError' in st:
                ctx.hit('conj-not-evaluable/' + r[0])   # FunctionalDefaultConvexConjugate
                gy = None
            else:
                ctx.violation('conj-value-raises ' + key0, 'f.convex_conj(y) raised ' + st, desc)
                continue
        # documented rule for the class without `_call`: (f [] g)* = f* + g*
        if r[0] == 'infconv' and gy is not None:
            st, dv = safe_call(lambda: float(fc.build(r[1], S).convex_conj(y)) +
                               float(fc.build(r[2], S).convex_conj(y)))
            ctx.case(('infconv', S.kind, classes) if st == 'ok' and dv else None)
            if st == 'ok' and not close(gy, dv, 1.0, 1e-9, 1e-9):
                ctx.violation('infconv-conj-value ' + key0,
                              'InfimalConvolution(f, g).convex_conj(y) = {!r} but f*(y) + g*(y) = {!r}'
                              .format(gy, dv), desc)
        # (a) Fenchel-Young inequality
        if fx is not None and gy is not None:
            ctx.case(('fy', S.kind, classes) if math.isfinite(fx + gy) and (fx or gy) else None,
                     sample=desc if len(ctx.samples) < 4 else None)
            ctx.hit('fy/' + r[0])
            if math.isfinite(fx) and math.isfinite(gy):
                tol = 1e-9 * max(1.0, abs(fx), abs(gy), abs(xy))
                if fx + gy < xy - tol:
                    ctx.violation('fenchel-young-inequality ' + key0,
                                  'f(x) + f*(y) = {!r} < <x,y> = {!r}'.format(fx + gy, xy), desc)
            elif fx != fx or gy != gy or fx == float('-inf') or gy == float('-inf'):
                ctx.violation('fenchel-young-inequality ' + key0,
                              'f(x) = {!r}, f*(y) = {!r}'.format(fx, gy), desc)
        # model: f(x), f*(y)
        if w is not None:
            if fx is not None:
                lines.append('val f={} w={} x={}'.format(w, fc.wl(S), fl(xs)))
                pend.append(('val', desc, fx, stream))
            if gy is not None:
                lines.append('conjval f={} w={} x={}'.format(w, fc.wl(S), fl(ys)))
                pend.append(('conjval', desc, gy, stream))
        # (b) equality at y = grad f(x)
        if fx is not None and math.isfinite(fx) and gy is not None:
            st, gr = safe_call(lambda: f.gradient(x))
            if st == 'ok' and gr in S.space and all(math.isfinite(t) for t in S.flat(gr)):
                st, ggr = safe_call(lambda: float(g(gr)))
                if st == 'ok' and ggr == float('inf'):
                    # gradients of norms lie ON the boundary of the dual ball: step inside by 1e-12
                    gr = gr * (1 - 1e-12)
                    st, ggr = safe_call(lambda: float(g(gr)))
                if st == 'ok' and ggr == float('inf') and stream == 'general':
                    # a point-indicator conjugate evaluated at a rounded gradient: only the
                    # exact stream can decide this case
                    ctx.hit('fy-eq-skip:indicator-at-rounded-gradient')
                elif st == 'ok':
                    xg = float(x.inner(gr))
                    ctx.case(('fy-eq', S.kind, classes) if xg != 0 else None)
                    ctx.hit('fy-eq/' + r[0])
                    tol = 1e-8 * max(1.0, abs(fx), abs(ggr) if math.isfinite(ggr) else 1.0, abs(xg))
                    if not (math.isfinite(ggr) and abs(fx + ggr - xg) <= tol):
                        ctx.violation('fenchel-young-equality ' + key0,
                                      'at y = grad f(x): f(x) + f*(y) = {!r} but <x,y> = {!r}'.format(
                                          fx + ggr, xg), dict(desc, y=S.flat(gr), at_gradient=True))
                else:
                    ctx.violation('conj-value-raises ' + key0, 'f*(grad f(x)) raised ' + st, desc)
        # (b') attainment from the conjugate side (covers primal classes WITHOUT gradient, where
        # an over-estimating f* would satisfy the inequality): x* = grad f*(y) must attain
        # f(x*) + f*(y) = <x*, y>
        if evaluable and gy is not None and math.isfinite(gy):
            st, xs_ = safe_call(lambda: g.gradient(y))
            if st == 'ok' and xs_ in S.space and all(math.isfinite(t) for t in S.flat(xs_)):
                st, fxs = safe_call(lambda: float(f(xs_)))
                if st == 'ok' and fxs == float('inf'):
                    xs_ = xs_ * (1 - 1e-12)
                    st, fxs = safe_call(lambda: float(f(xs_)))
                if st == 'ok' and fxs == float('inf') and stream == 'general':
                    ctx.hit('fy-attain-skip:indicator-at-rounded-gradient')
                elif st == 'ok':
                    xy2 = float(xs_.inner(y))
                    ctx.case(('fy-attain', S.kind, classes) if xy2 != 0 else None)
                    ctx.hit('fy-attain/' + r[0])
                    tol = 1e-8 * max(1.0, abs(gy), abs(fxs) if math.isfinite(fxs) else 1.0, abs(xy2))
                    if not (math.isfinite(fxs) and abs(fxs + gy - xy2) <= tol):
                        ctx.violation('fenchel-young-attainment ' + key0,
                                      'at x = grad f*(y): f(x) + f*(y) = {!r} but <x,y> = {!r} '
                                      '(f* is not attained)'.format(fxs + gy, xy2),
                                      dict(desc, x=S.flat(xs_), attain=True))
        # (c) biconjugate values
        if gg is not None and fx is not None:
            st, bx = safe_call(lambda: float(gg(x)))
            if st == 'ok':
                ctx.case(('biconj', S.kind, classes) if fx else None)
                ctx.hit('biconj/' + r[0])
                if not close(bx, fx, 1.0, 1e-9, 1e-9):
                    ctx.violation('biconjugate ' + key0,
                                  'f**(x) = {!r} but f(x) = {!r}'.format(bx, fx), desc)
                if w is not None:
                    lines.append('biconjval f={} w={} x={}'.format(w, fc.wl(S), fl(xs)))
                    pend.append(('biconjval', desc, bx, stream))
            elif 'NotImplementedError' not in st:
                ctx.violation('biconj-value-raises ' + key0, 'f**(x) raised ' + st, desc)
        # (d) Moreau decomposition
        sigma = rng.choice([1.0, 0.5, 2.0, 0.25] if stream == 'exact' else [1.0, 0.5, 2.0, 0.3, 1.7])
        moreau(ctx, f, g, S, x, xs, sigma, desc, key0, classes, r, w, lines, pend, stream)


def has_default_conj(g, depth=0):
    """Does the conjugate contain FunctionalDefaultConvexConjugate (proximal DEFINED by Moreau)?"""
    if type(g).__name__ == 'FunctionalDefaultConvexConjugate':
        return True
    if depth > 6:
        return False
    for attr in ('functional', 'left', 'operator'):
        h = getattr(g, attr, None)
        if h is not None and h is not g and has_default_conj(h, depth + 1):
            return True
    return False


def default_conj_recipes(rng, S, count):
    """FunctionalQuadraticPerturb with quadratic coefficient a > 0: `convex_conj` falls back to
    FunctionalDefaultConvexConjugate, whose proximal is proximal_convex_conj(f.proximal); the
    primal proximal runs proximal_quadratic_perturbation with a != 0 (np.sqrt)."""
    n = S.size
    out = []
    for i in range(count):
        sub = gen_recipe(rng, S, rng.randint(0, 2), True)
        while 'quadmat' in fc.recipe_classes(sub):
            sub = gen_recipe(rng, S, rng.randint(0, 2), True)
        # 2*sigma*a + 1 is a rational square for (a, sigma) = (1.5, 1), (0.75, 2), (3, 0.5), (6, 0.25) ...
        a = rng.choice([0.5, 1.0, 2.0, 1.5, 0.75, 3.0, 6.0])
        r = ['qp', a, rng.choice([None, fc.rvec(rng, n)]), rng.choice([0.0, 1.0, -0.5]), sub]
        w = rng.random()
        if w < 0.2:
            r = ['lscal', rng.choice([2.0, 0.5]), r]
        elif w < 0.4:
            r = ['trans', fc.rvec(rng, n), r]
        out.append(r)
    return out


def lam_fudged(S):
    """`lam = float(lam * (1 - eps))` of proximal_convex_conj_l1 for lam = 1 on this space."""
    try:
        eps = float(np.finfo(getattr(S.space, 'dtype', float)).resolution * 10)
    except Exception:  # noqa
        eps = float(np.finfo(float).resolution * 10)
    return float(1 * (1 - eps))


def moreau(ctx, f, g, S, x, xs, sigma, desc, key0, classes, r, w=None, lines=None, pend=None,
           stream='general'):
    st1, p1 = safe_call(lambda: f.proximal(sigma)(x))
    st2, p2 = safe_call(lambda: g.proximal(1.0 / sigma)(x / sigma))
    if w is not None and lines is not None:
        # MOREAU-MODEL stream: both proximals of the real objects vs the Lean execution of
        # Fn.toProx / Prox.Fn.prox on f and on the coded conjugate Fn.conj f
        fl1 = S.flat(p1) if st1 == 'ok' else None
        fl2 = S.flat(p2) if st2 == 'ok' else None
        lines.append('moreau f={} w={} x={} sigma={} lamf={}'.format(
            w, fc.wl(S), fl(xs), fs(sigma), fs(lam_fudged(S))))
        pend.append(('moreau', dict(desc, sigma=sigma, head=r[0]), (st1, fl1, st2, fl2), stream))
    if st1 != 'ok':
        ctx.hit('moreau-skip:no-prox')
        return
    if st2 != 'ok':
        ctx.hit('moreau-skip:no-conj-prox')
        return
    st, resid = safe_call(lambda: float((p1 + sigma * p2 - x).norm()))
    if st != 'ok':
        ctx.violation('moreau-raises ' + key0, st, desc)
        return
    # pairs whose conjugate proximal the CODE itself defines through the Moreau identity
    # (proximal_convex_conj): the comparison is code-vs-itself there and is labelled as such
    selfref = bool(set(classes) & SELF_REFERENTIAL) or has_default_conj(g)
    kind = 'moreau-selfref' if selfref else 'moreau'
    ctx.case((kind, S.kind, classes) if float(x.norm()) else None)
    ctx.hit(kind + '/' + r[0])
    if not (resid <= 1e-8 * max(1.0, float(x.norm()))):
        ctx.violation('moreau ' + key0,
                      '||prox_(sigma f)(x) + sigma prox_(f*/sigma)(x/sigma) - x|| = {!r} (sigma={})'
                      .format(resid, sigma), dict(desc, sigma=sigma))


def parse_kv(ans):
    out = {}
    for tok in ans.split()[1:]:
        k, _, v = tok.partition('=')
        out[k] = v
    return out


def vec_close(impl, toks, exact):
    """(agrees, exactly) for a float list of the real code vs a rational list of the model."""
    try:
        m = [core.pfrac(t) for t in toks.split(',')] if toks else []
    except Exception:  # noqa
        return False, False
    if len(m) != len(impl) or not all(math.isfinite(v) for v in impl):
        return False, False
    if all(Fraction(a) == b for a, b in zip(impl, m)):
        return True, True
    scale = max([1.0] + [abs(v) for v in impl])
    return all(abs(a - float(b)) <= 1e-11 * scale for a, b in zip(impl, m)), False


def compare_moreau(ctx, desc, impl, ans, stream):
    """Model vs code for the op `moreau`; raises are compared in both directions."""
    st1, p1, st2, p2 = impl
    d2 = dict(desc, op='moreau')
    head = desc.get('head', '?')
    if ans == 'noprox1':
        ctx.hit('moreau-model/noprox1')
        if st1 == 'ok':
            ctx.disagree(d2, 'f.proximal(sigma)(x) = {}'.format(p1), ans)
        return
    if ans == 'noprox2':
        ctx.hit('moreau-model/noprox2')
        if st1 != 'ok' or st2 == 'ok':
            ctx.disagree(d2, 'prox: {} / conj prox: {}'.format(st1, st2), ans)
        return
    if not ans.startswith('ok p1='):
        ctx.disagree(d2, 'prox: {} / conj prox: {}'.format(st1, st2), ans)
        return
    if st1 != 'ok' or st2 != 'ok':
        ctx.disagree(d2, 'raised: prox: {} / conj prox: {}'.format(st1, st2), ans)
        return
    kv = parse_kv(ans)
    ok1, ex1 = vec_close(p1, kv.get('p1', ''), stream == 'exact')
    ok2, ex2 = vec_close(p2, kv.get('p2', ''), stream == 'exact')
    ctx.hit('moreau-model/ok/' + head)
    ctx.hit('moreau-model/' + ('bitwise' if ex1 and ex2 else 'rounded'))
    ctx.case(('moreau-model', desc.get('space'), head) if any(p1) or any(p2) else None)
    if not ok1:
        ctx.disagree(dict(d2, which='prox'), p1, kv.get('p1'))
    if not ok2:
        ctx.disagree(dict(d2, which='conj-prox'), p2, kv.get('p2'))
    # the model's own Moreau left-hand side p1 + sigma p2 against x (instance of the theorems
    # C08.moreau_*; the fudged radius lamf = 1 - 1e-14 moves it by <= sigma * 1e-14)
    okx, _ = vec_close(desc['x'], kv.get('lhs', ''), False)
    if not okx:
        ctx.disagree(dict(d2, which='model-lhs'), desc['x'], kv.get('lhs'))


# --------------------------------------------------------------------------
# ROUND 5: strata for anchored code that no other stream enters (docs/covmap/C08.md).
# Every stratum is a pure function `cfg -> [(key, what), ...]` of a JSON-able configuration, so
# that a violation is replayed by calling it again; `hits` collects the branches reached.

def _np_nuclear(X, outer, sv):
    """Independent value of NuclearNorm: X[i, j, k] = component (i, j) at point k."""
    vals = []
    for k in range(X.shape[2]):
        sg = np.linalg.svd(X[:, :, k], compute_uv=False)
        vals.append(float(np.max(sg)) if sv == float('inf') else float(np.sum(sg ** sv) ** (1.0 / sv)))
    vals = np.array(vals)
    return float(np.max(vals)) if outer == float('inf') else float(np.sum(vals ** outer) ** (1.0 / outer))


def _conj_exp(p):
    return float('inf') if p == 1 else (1.0 if p == float('inf') else p / (p - 1.0))


def x_nuclear(cfg, hits):
    """NuclearNorm <-> IndicatorNuclearNormUnitBall: value vs an independent SVD, class and
    exponents of the conjugates, Fenchel-Young with equality at the prox subgradient, minimality
    of the proximal against perturbations, Moreau with the indicator's proximal."""
    import odl
    out = []
    n, m, k = cfg['shape']
    outer, sv = [float(v) for v in cfg['exps']]
    sp = odl.ProductSpace(odl.ProductSpace(odl.rn(k), m), n)
    X = np.array(cfg['x'], dtype=float).reshape(n, m, k)
    Y = np.array(cfg['y'], dtype=float).reshape(n, m, k)
    x, y = sp.element(X), sp.element(Y)
    N = odl.solvers.NuclearNorm(sp, outer_exp=outer, singular_vector_exp=sv)
    hits.add('extra/nuclear/exps={:g},{:g}'.format(outer, sv))
    nx = float(N(x))
    ref = _np_nuclear(X, outer, sv)
    if not close(nx, ref, 1.0, 1e-9, 1e-9):
        out.append(('nuclear-value', 'NuclearNorm(x) = {!r}, independent SVD value {!r}'.format(nx, ref)))
    I = N.convex_conj
    if type(I).__name__ != 'IndicatorNuclearNormUnitBall':
        out.append(('nuclear-conj-class', 'NuclearNorm.convex_conj is a ' + type(I).__name__))
        return out
    D = I.convex_conj          # dual norm object held by the indicator's conjugate
    NN = D.convex_conj.convex_conj
    dual_ref = _np_nuclear(Y, _conj_exp(outer), _conj_exp(sv))
    # the indicator must be the ball of the DUAL norm (conjugate exponents on both levels)
    iy = float(I(y))
    if (iy == 0) != (dual_ref <= 1 + 1e-9) and abs(dual_ref - 1) > 1e-6:
        out.append(('nuclear-indicator', 'indicator(y) = {!r} but dual norm (independent) = {!r}'.format(iy, dual_ref)))
    if dual_ref > 0:
        yb = y * (0.999 / dual_ref)
        if float(I(yb)) != 0:
            out.append(('nuclear-indicator', 'indicator != 0 at a point of dual norm 0.999'))
        elif nx < float(x.inner(yb)) - 1e-9 * max(1.0, nx):
            out.append(('fenchel-young-inequality', 'N(x) + I(y) = {!r} < <x,y> = {!r}'.format(nx, float(x.inner(yb)))))
        hits.add('extra/nuclear/fy')
    # biconjugate: I.convex_conj is N again (same exponents, same values)
    bx = float(I.convex_conj(x))
    if not close(bx, nx, 1.0, 1e-9, 1e-9):
        out.append(('biconjugate', 'N**(x) = {!r} but N(x) = {!r}'.format(bx, nx)))
    if not close(float(NN(y)), float(D(y)), 1.0, 1e-9, 1e-9):
        out.append(('biconjugate', 'dual norm round trip changed the value'))
    sigma = float(cfg['sigma'])
    st, p = safe_call(lambda: N.proximal(sigma)(x))
    if outer != 1:
        hits.add('extra/nuclear/prox-raises')
        if 'NotImplementedError' not in st:
            out.append(('nuclear-prox', 'proximal for outer_exp != 1 gave ' + st))
        return out
    if st != 'ok':
        out.append(('nuclear-prox', 'proximal raised ' + st))
        return out
    hits.add('extra/nuclear/prox-sv={:g}'.format(sv))
    obj = lambda z: float(N(z)) + float((z - x).norm()) ** 2 / (2 * sigma)  # noqa
    op = obj(p)
    rs = np.random.RandomState(int(cfg.get('pseed', 0)))
    for t in (1e-2, 1e-1):
        for _ in range(4):
            z = p + sp.element(rs.standard_normal((n, m, k)) * t)
            if obj(z) < op - 1e-9 * max(1.0, abs(op)):
                out.append(('nuclear-prox-minimiser', 'objective at prox {!r} > at a perturbation {!r}'.format(op, obj(z))))
                break
    # subgradient q = (x - p)/sigma: in the dual ball and N(p) = <p, q>
    q = (x - p) / sigma
    Q = np.array([[np.asarray(q[i][j]) for j in range(m)] for i in range(n)])
    dq = _np_nuclear(Q, float('inf'), _conj_exp(sv))
    if dq > 1 + 1e-8:
        out.append(('nuclear-prox-subgradient', '(x - prox)/sigma has dual norm {!r} > 1'.format(dq)))
    npv, pq = float(N(p)), float(p.inner(q))
    if abs(npv - pq) > 1e-8 * max(1.0, npv):
        out.append(('fenchel-young-equality', 'N(p) = {!r} but <p, (x-p)/sigma> = {!r}'.format(npv, pq)))
    st, p2 = safe_call(lambda: I.proximal(1.0 / sigma)(x / sigma))
    if st != 'ok':
        out.append(('nuclear-conj-prox', 'indicator proximal raised ' + st))
    else:
        hits.add('extra/nuclear/moreau')
        resid = float((p + sigma * p2 - x).norm())
        if not resid <= 1e-8 * max(1.0, float(x.norm())):
            out.append(('moreau', 'residual {!r}'.format(resid)))
        if _np_nuclear(np.array([[np.asarray(p2[i][j]) for j in range(m)] for i in range(n)]),
                       float('inf'), _conj_exp(sv)) > 1 + 1e-8:
            out.append(('nuclear-conj-prox', 'projection lies outside the dual ball'))
    return out


def x_simple(cfg, hits):
    """simple_functional: the conjugate swaps the user's callables; oracles on the result."""
    import odl
    from odl.solvers.functional.functional import simple_functional
    out = []
    S = fc.get_space(cfg['space'])
    sp = S.space
    x, y = S.elem(cfg['x']), S.elem(cfg['y'])
    a = float(cfg['a'])            # f = a/2 ||x||^2, f* = 1/(2a) ||y||^2
    f0 = lambda z: a / 2 * float(z.inner(z))          # noqa
    g0 = lambda z: 1 / (2 * a) * float(z.inner(z))    # noqa
    pf = lambda s: odl.ScalingOperator(sp, 1 / (1 + s * a))      # noqa
    pg = lambda s: odl.ScalingOperator(sp, 1 / (1 + s / a))      # noqa
    as_op = cfg['grad_as_operator']
    gf = odl.ScalingOperator(sp, a) if as_op else (lambda z: a * z)
    gg = odl.ScalingOperator(sp, 1 / a) if as_op else (lambda z: z / a)
    f = simple_functional(sp, fcall=f0, grad=gf, prox=pf, grad_lip=a, convex_conj_fcall=g0,
                          convex_conj_grad=gg, convex_conj_prox=pg, convex_conj_grad_lip=1 / a)
    hits.add('extra/simple/' + ('operator-grad' if as_op else 'callable-grad'))
    st, v = safe_call(lambda: (float(f(x)), f.convex_conj, ))
    if st != 'ok':
        return [('simple-raises', st)]
    fx, g = v
    st, v = safe_call(lambda: (float(g(y)), float(g.convex_conj(x)), g.gradient(y), f.gradient(x),
                                g.proximal(0.5)(y), f.proximal(2.0)(x), float(g.grad_lipschitz),
                                float(f.grad_lipschitz)))
    if st != 'ok':
        return [('simple-raises', st)]
    gy, bx, ggy, gfx, pgy, pfx, gl, fl_ = v
    xy = float(x.inner(y))
    tol = 1e-9 * max(1.0, abs(fx), abs(gy), abs(xy))
    if fx + gy < xy - tol:
        out.append(('fenchel-young-inequality', 'f(x)+f*(y) = {!r} < <x,y> = {!r}'.format(fx + gy, xy)))
    if abs(gy - g0(y)) > tol:
        out.append(('simple-conj-value', 'convex_conj(y) = {!r}, supplied callable gives {!r}'.format(gy, g0(y))))
    if abs(bx - fx) > tol:
        out.append(('biconjugate', 'f**(x) = {!r} but f(x) = {!r}'.format(bx, fx)))
    if float((ggy - y / a).norm()) > 1e-9 or float((gfx - a * x).norm()) > 1e-9:
        out.append(('simple-gradient', 'gradient of f or f* is not the supplied one'))
    e = float(f(x)) + float(g(gfx)) - float(x.inner(gfx))
    if abs(e) > 1e-8 * max(1.0, abs(fx)):
        out.append(('fenchel-young-equality', 'at y = grad f(x): gap {!r}'.format(e)))
    if float((pgy - y / (1 + 0.5 / a)).norm()) > 1e-9 or float((pfx - x / (1 + 2.0 * a)).norm()) > 1e-9:
        out.append(('simple-proximal', 'proximal of f or f* is not the supplied one'))
    if not (close(gl, 1 / a) and close(fl_, a)):
        out.append(('simple-grad-lipschitz', 'grad_lipschitz f: {!r}, f*: {!r}'.format(fl_, gl)))
    s = float(cfg['sigma'])
    resid = float((f.proximal(s)(x) + s * g.proximal(1 / s)(x / s) - x).norm())
    if not resid <= 1e-9 * max(1.0, float(x.norm())):
        out.append(('moreau', 'residual {!r}'.format(resid)))
    # nothing supplied: every attribute raises NotImplementedError, the conjugate too
    e0 = simple_functional(sp)
    for nm, fn in (('call', lambda: e0(x)), ('gradient', lambda: e0.gradient),
                   ('proximal', lambda: e0.proximal), ('conj-call', lambda: e0.convex_conj(x))):
        st, _ = safe_call(fn)
        if 'NotImplementedError' not in st:
            out.append(('simple-empty', nm + ' of an empty simple_functional gave ' + st))
    hits.add('extra/simple/empty')
    return out


def x_box(cfg, hits):
    """IndicatorBox / IndicatorNonnegativity: value, projection (vs np.clip), default conjugate
    (FunctionalDefaultConvexConjugate) and the Moreau decomposition through it."""
    import odl
    out = []
    S = fc.get_space(cfg['space'])
    sp = S.space
    x = S.elem(cfg['x'])
    lo, hi = cfg['lo'], cfg['hi']
    if cfg['nonneg']:
        f = odl.solvers.IndicatorNonnegativity(sp)
        lo, hi = 0.0, None
    else:
        f = odl.solvers.IndicatorBox(sp, lo, hi)
    hits.add('extra/box/' + ('nonneg' if cfg['nonneg'] else 'lo={},hi={}'.format(lo is not None, hi is not None)))
    s = float(cfg['sigma'])
    st, v = safe_call(lambda: (float(f(x)), f.proximal(s)(x), f.convex_conj))
    if st != 'ok':
        return [('box-raises', st)]
    fx, p, g = v
    ref = np.clip(np.asarray(x), lo, hi)
    if float((p - sp.element(ref)).norm()) > 0:
        out.append(('box-proximal', 'projection differs from np.clip'))
    inside = bool(np.all(np.asarray(x) == ref))
    if (fx == 0) != inside or (fx != 0 and fx != float('inf')):
        out.append(('box-value', 'indicator(x) = {!r}, x inside the box: {}'.format(fx, inside)))
    if float(f(p)) != 0:
        out.append(('box-value', 'indicator at the projection is not 0'))
    if type(g).__name__ != 'FunctionalDefaultConvexConjugate' or g.convex_conj is not f:
        out.append(('box-conj', 'convex_conj is {} / biconjugate is not the functional'.format(type(g).__name__)))
    st, p2 = safe_call(lambda: g.proximal(1 / s)(x / s))
    if st != 'ok':
        out.append(('box-conj-prox', st))
    else:
        resid = float((p + s * p2 - x).norm())
        if not resid <= 1e-9 * max(1.0, float(x.norm())):
            out.append(('moreau', 'residual {!r}'.format(resid)))
        # support function: sigma_C(q) >= <c, q> for c in C, with equality at c = the projection
        # when q = (x - p)/s is the normal direction: checked as  <p, q> >= <c, q>  for box corners
        q = (x - p) / s
        for c in (np.clip(np.asarray(x) * 0 + 1e3, lo, hi), np.clip(np.asarray(x) * 0 - 1e3, lo, hi)):
            if np.all(np.isfinite(c)) and float(sp.element(c).inner(q)) > float(p.inner(q)) + 1e-9:
                out.append(('box-normal-cone', '(x - proj)/s is not in the normal cone at the projection'))
    return out


def x_sep(cfg, hits):
    """SeparableSum.__getitem__ (index / slice / list) against the components, also for the
    conjugate (conj of a separable sum = separable sum of the conjugates)."""
    import odl
    out = []
    r3 = odl.rn(3)
    comps = {'l1': odl.solvers.L1Norm(r3), 'l2': odl.solvers.L2Norm(r3),
             'l2sq': odl.solvers.L2NormSquared(r3), 'hub': odl.solvers.Huber(r3, 0.5)}
    names = cfg['parts']
    fs_ = [comps[nm] for nm in names]
    f = odl.solvers.SeparableSum(*fs_)
    g = f.convex_conj
    x = f.domain.element([np.array(v, dtype=float) for v in cfg['x']])
    y = f.domain.element([np.array(v, dtype=float) * 0.125 for v in cfg['y']])
    tot = totc = 0.0
    for i, fi in enumerate(fs_):
        hits.add('extra/sep/getitem-int')
        if f[i] is not fi:
            out.append(('sepsum-getitem', 'f[{}] is not the component'.format(i)))
        vi, ci = float(f[i](x[i])), float(g[i](y[i]))
        if not close(ci, float(fi.convex_conj(y[i])), 1.0, 1e-12, 1e-12):
            out.append(('sepsum-conj-component', 'f.convex_conj[{}](y_i) != f_i.convex_conj(y_i)'.format(i)))
        tot, totc = tot + vi, totc + ci
    fx, gy, xy = float(f(x)), float(g(y)), float(x.inner(y))
    if not close(fx, tot, 1.0, 1e-12, 1e-12) or not close(gy, totc, 1.0, 1e-12, 1e-12):
        out.append(('sepsum-value', 'sum of f[i](x_i) = {!r}/{!r} but f(x) = {!r}/{!r}'.format(tot, totc, fx, gy)))
    if math.isfinite(gy) and fx + gy < xy - 1e-9 * max(1.0, abs(fx), abs(gy)):
        out.append(('fenchel-young-inequality', 'f(x)+f*(y) = {!r} < <x,y> = {!r}'.format(fx + gy, xy)))
    if len(fs_) >= 2:
        hits.add('extra/sep/getitem-slice')
        sl = f[1:]
        if type(sl).__name__ != 'SeparableSum' or not close(float(sl(x[1:])), tot - float(fs_[0](x[0])), 1.0, 1e-12, 1e-12):
            out.append(('sepsum-getitem', 'f[1:] is not the separable sum of the tail'))
        hits.add('extra/sep/getitem-stride')
        sl = f[::2]
        want = sum(float(fs_[j](x[j])) for j in range(0, len(fs_), 2))
        st, got = safe_call(lambda: float(sl(x[::2])))
        if st != 'ok' or not close(got, want, 1.0, 1e-12, 1e-12):
            out.append(('sepsum-getitem', 'f[::2] gives {} (expected {!r})'.format(got if st == 'ok' else st, want)))
    return out


def x_factory(cfg, hits):
    """Pairs of proximal FACTORIES of F(x) = lam ||x - g||_p(^2) and of its conjugate with their
    options (lam, data term g or None): Moreau decomposition between the two hand-coded
    operators; proximal_quadratic_perturbation with u=None / negative coefficient."""
    from odl.solvers.nonsmooth import proximal_operators as PO
    out = []
    S = fc.get_space(cfg['space'])
    sp = S.space
    x = S.elem(cfg['x'])
    g = None if cfg['g'] is None else S.elem(cfg['g'])
    lam, s = float(cfg['lam']), float(cfg['sigma'])
    pairs = {'l2sq': (PO.proximal_l2_squared, PO.proximal_convex_conj_l2_squared),
             'l1': (PO.proximal_l1, PO.proximal_convex_conj_l1),
             'l2': (PO.proximal_l2, PO.proximal_convex_conj_l2)}
    kind = cfg['kind']
    if kind == 'quadpert':
        hits.add('extra/factory/quadpert-u-none')
        a = float(cfg['a'])
        st, p = safe_call(lambda: PO.proximal_quadratic_perturbation(PO.proximal_l1(sp), a)(s)(x))
        # prox of ||.||_1 + a||.||^2: soft threshold at s of x, divided by (1 + 2 s a)
        xa = np.asarray(x)
        ref = np.sign(xa) * np.maximum(np.abs(xa) - s, 0) / (1 + 2 * s * a)
        if st != 'ok' or float((p - sp.element(ref)).norm()) > 1e-9 * max(1.0, float(x.norm())):
            out.append(('factory-quadpert', 'proximal_quadratic_perturbation(prox_l1, a, u=None): ' +
                        (st if st != 'ok' else 'differs from the closed form')))
        st, _ = safe_call(lambda: PO.proximal_quadratic_perturbation(PO.proximal_l1(sp), -a))
        hits.add('extra/factory/quadpert-negative')
        if 'ValueError' not in st:
            out.append(('factory-quadpert', 'negative quadratic coefficient accepted: ' + st))
        return out
    P, Q = pairs[kind]
    hits.add('extra/factory/{}-{}'.format(kind, 'g' if g is not None else 'nog'))
    st, v = safe_call(lambda: (P(sp, lam=lam, g=g)(s)(x), Q(sp, lam=lam, g=g)(1 / s)(x / s)))
    if st != 'ok':
        return [('factory-raises', kind + ': ' + st)]
    p1, p2 = v
    resid = float((p1 + s * p2 - x).norm())
    if not resid <= 1e-8 * max(1.0, float(x.norm())):
        out.append(('moreau', '{} lam={} g={}: residual {!r}'.format(kind, lam, cfg['g'], resid)))
    # in-place evaluation (aliased out) must agree
    for nm, op, arg, want in (('prox', P(sp, lam=lam, g=g)(s), x, p1),
                              ('conj-prox', Q(sp, lam=lam, g=g)(1 / s), x / s, p2)):
        z = arg.copy()
        st, _ = safe_call(lambda: op(z, out=z))
        if st != 'ok' or float((z - want).norm()) > 1e-12 * max(1.0, float(want.norm())):
            out.append(('factory-aliased', '{} {} with out=x differs: {}'.format(kind, nm, st)))
    hits.add('extra/factory/aliased')
    # point-wise step (sigma in space): the separable pairs satisfy Moreau entry by entry
    if kind in ('l2sq', 'l1') and cfg.get('sigvec'):
        hits.add('extra/factory/{}-pointwise-sigma'.format(kind))
        sv = S.elem(cfg['sigvec'])
        st, v = safe_call(lambda: (P(sp, lam=lam, g=g)(sv)(x), Q(sp, lam=lam, g=g)(1 / sv)(x / sv)))
        if st != 'ok':
            out.append(('factory-raises:{}-pointwise-sigma-{}'.format(kind, 'g' if g is not None else 'nog'),
                        kind + ' with point-wise sigma: ' + st))
        else:
            resid = float((v[0] + sv * v[1] - x).norm())
            if not resid <= 1e-8 * max(1.0, float(x.norm())):
                out.append(('moreau', '{} lam={} g={} point-wise sigma: residual {!r}'.format(kind, lam, cfg['g'], resid)))
            z = x.copy()
            st, _ = safe_call(lambda: P(sp, lam=lam, g=g)(sv)(z, out=z))
            if st != 'ok' or float((z - v[0]).norm()) > 1e-12 * max(1.0, float(v[0].norm())):
                out.append(('factory-aliased', kind + ' prox with point-wise sigma and out=x differs: ' + st))
    return out


def x_mul(cfg, hits):
    """Functional.__mul__ / __rmul__ corner branches: f * 0 (ConstantFunctional f(0)), 0 * f
    (ZeroFunctional), f * Operator (FunctionalComp); conjugates of the first two by the oracle."""
    import odl
    out = []
    S = fc.get_space(cfg['space'])
    sp = S.space
    x, y = S.elem(cfg['x']), S.elem(cfg['y'])
    f = fc.build(cfg['recipe'], S, True)
    f0 = float(f(sp.zero()))
    for nm, h, const in (('f*0', f * 0, f0), ('0*f', 0 * f, 0.0)):
        hits.add('extra/mul/' + nm)
        st, v = safe_call(lambda: (float(h(x)), float(h.convex_conj(y)), float(h.convex_conj(sp.zero())),
                                    float(h.convex_conj.convex_conj(x))))
        if st != 'ok':
            out.append(('mul-zero-raises', nm + ': ' + st))
            continue
        hx, gy, g0_, bx = v
        if hx != const or bx != const:
            out.append(('mul-zero-value', '({})(x) = {!r}, biconjugate {!r}, expected f(0) = {!r}'.format(nm, hx, bx, const)))
        if g0_ != -const or (gy != float('inf') and any(cfg['y'])):
            out.append(('mul-zero-conj', '({})*(0) = {!r}, ({})*(y) = {!r}'.format(nm, g0_, nm, gy)))
    hits.add('extra/mul/operator')
    op = odl.ScalingOperator(sp, 2.0)
    st, v = safe_call(lambda: (type(f * op).__name__, float((f * op)(x)), float(f(2.0 * x))))
    if st != 'ok' or v[0] != 'FunctionalComp' or not close(v[1], v[2], 1.0, 1e-12, 1e-12):
        out.append(('mul-operator', 'f * ScalingOperator(2): {}'.format(v if st == 'ok' else st)))
    return out


def x_noconj(cfg, hits):
    """Classes documented to have no conjugate / gradient must say so (never a wrong object)."""
    import odl
    out = []
    sp = fc.get_space(cfg['space']).space
    for nm, f in (('simplex', odl.solvers.IndicatorSimplex(sp)),
                  ('sumconstraint', odl.solvers.IndicatorSumConstraint(sp))):
        hits.add('extra/noconj/' + nm)
        for attr in ('convex_conj', 'gradient'):
            st, _ = safe_call(lambda: getattr(f, attr))
            if 'NotImplementedError' not in st:
                out.append(('noconj', '{}.{} gave {}'.format(nm, attr, st)))
    return out


def own_build(kind, S, ops):
    """Expression constructors taking user-owned vector operands `ops` (space elements)."""
    import odl
    from odl.solvers.functional import functional as F
    sol, sp = odl.solvers, S.space
    if kind == 'mul-vec':
        return sol.L2NormSquared(sp) * ops[0]
    if kind == 'mul-vec-l1':
        return sol.L1Norm(sp) * ops[0]
    if kind == 'rvm-direct':
        return F.FunctionalRightVectorMult(sol.L2NormSquared(sp), ops[0])
    if kind == 'translated':
        return sol.L1Norm(sp).translated(ops[0])
    if kind == 'translation-direct':
        return F.FunctionalTranslation(sol.L2NormSquared(sp), ops[0])
    if kind == 'quadform-vec':
        return sol.QuadraticForm(vector=ops[0], constant=1.0)
    if kind == 'quadform-op-vec':
        return sol.QuadraticForm(operator=odl.ScalingOperator(sp, 2.0), vector=ops[0], constant=-0.5)
    if kind == 'qp0':
        return F.FunctionalQuadraticPerturb(sol.L1Norm(sp), 0.0, linear_term=ops[0], constant=1.0)
    if kind == 'qpa':
        return F.FunctionalQuadraticPerturb(sol.L1Norm(sp), 1.0, linear_term=ops[0])
    if kind == 'box':
        return sol.IndicatorBox(sp, ops[1], ops[0])
    if kind == 'kl':
        return sol.KullbackLeibler(sp, prior=ops[0])
    if kind == 'klce':
        return sol.KullbackLeiblerCrossEntropy(sp, prior=ops[0])
    if kind == 'breg':
        return sol.BregmanDistance(sol.L2NormSquared(sp), ops[0], ops[1])
    if kind == 'sum-lin':
        return sol.L2NormSquared(sp) + sol.QuadraticForm(vector=ops[0])
    raise KeyError(kind)


OWN_KINDS = ['mul-vec', 'mul-vec-l1', 'rvm-direct', 'translated', 'translation-direct', 'quadform-vec',
             'quadform-op-vec', 'qp0', 'qpa', 'box', 'kl', 'klce', 'breg', 'sum-lin']


def own_numbers(f, derived, pts, S):
    """Everything the property's oracles look at, for `f` and objects derived from it earlier
    (`derived` = dict with conj / biconj / prox / conj-prox factories, or None = derive now)."""
    out = {}
    g = derived.get('conj') if derived else safe_call(lambda: f.convex_conj)[1]
    gg = derived.get('biconj') if derived else (safe_call(lambda: g.convex_conj)[1] if g is not None else None)
    for i, (x, y, s) in enumerate(pts):
        def put(nm, fn):
            st, v = safe_call(fn)
            out['{}{}'.format(nm, i)] = v if st == 'ok' else st.split(':')[1]
        put('f', lambda: float(f(x)))
        if g is not None:
            put('g', lambda: float(g(y)))
        if gg is not None:
            put('gg', lambda: float(gg(x)))
        put('grad', lambda: S.flat(f.gradient(x)))
        put('prox', lambda: S.flat(f.proximal(s)(x)))
        if g is not None:
            put('cprox', lambda: S.flat(g.proximal(1.0 / s)(x / s)))
            put('ggrad', lambda: float(g(f.gradient(x))))
    return out


def own_oracles(nums, pts, S, tag):
    """The property's own oracles on a table of numbers of `own_numbers`."""
    out = []
    num = lambda v: isinstance(v, float)  # noqa
    for i, (x, y, s) in enumerate(pts):
        fx, gy, bx = nums.get('f%d' % i), nums.get('g%d' % i), nums.get('gg%d' % i)
        xy = float(x.inner(y))
        if num(fx) and num(gy) and math.isfinite(fx) and math.isfinite(gy):
            if fx + gy < xy - 1e-9 * max(1.0, abs(fx), abs(gy), abs(xy)):
                out.append(('fenchel-young-inequality', '{}: f(x)+f*(y) = {!r} < <x,y> = {!r}'.format(tag, fx + gy, xy)))
        if num(fx) and num(bx) and not close(bx, fx, 1.0, 1e-9, 1e-9):
            out.append(('biconjugate', '{}: f**(x) = {!r} but f(x) = {!r}'.format(tag, bx, fx)))
        gr, ggr = nums.get('grad%d' % i), nums.get('ggrad%d' % i)
        if num(fx) and math.isfinite(fx) and isinstance(gr, list) and num(ggr) and all(math.isfinite(t) for t in gr):
            xg = float(x.inner(S.elem(gr)))
            if math.isfinite(ggr) and abs(fx + ggr - xg) > 1e-8 * max(1.0, abs(fx), abs(xg)):
                out.append(('fenchel-young-equality', '{}: at y = grad f(x): f(x)+f*(y) = {!r} but <x,y> = {!r}'.format(tag, fx + ggr, xg)))
        p1, p2 = nums.get('prox%d' % i), nums.get('cprox%d' % i)
        if isinstance(p1, list) and isinstance(p2, list) and all(math.isfinite(t) for t in p1 + p2):
            resid = float((S.elem(p1) + s * S.elem(p2) - x).norm())
            if not resid <= 1e-8 * max(1.0, float(x.norm())):
                out.append(('moreau', '{}: residual {!r} (sigma={})'.format(tag, resid, s)))
    return out


def x_own(cfg, hits):
    """OWNERSHIP: build an expression from user-owned vectors, derive conjugate / biconjugate
    (objects kept), then overwrite the user's vectors IN PLACE; the functional and the objects
    derived from it before must still satisfy every oracle of the property among themselves
    (either all follow the user's array or none does), and objects derived afterwards too."""
    S = fc.get_space(cfg['space'])
    kind = cfg['kind']
    ops = [S.elem(v) for v in cfg['ops']]
    pts = [(S.elem(x), S.elem(y), float(s)) for x, y, s in cfg['pts']]
    out = []
    st, f = safe_call(own_build, kind, S, ops)
    if st != 'ok':
        return [('own-construct', st)]
    hits.add('own/' + kind)
    st, g = safe_call(lambda: f.convex_conj)
    g = g if st == 'ok' else None
    gg = safe_call(lambda: g.convex_conj)[1] if g is not None else None
    derived = {'conj': g, 'biconj': gg}
    before = own_numbers(f, derived, pts, S)
    out += own_oracles(before, pts, S, 'before the caller touches its vectors')
    for o, how in zip(ops, cfg['how']):
        if how == 'scale':
            o *= 0.25
        elif how == 'shift':
            o += 1.5
        else:
            o[:] = float('nan')
    after = own_numbers(f, derived, pts, S)
    follows = any(str(after.get(k)) != str(before.get(k)) for k in before)
    hits.add('own/{}/{}'.format('follows-operand' if follows else 'independent', cfg['how'][0]))
    if cfg['how'][0] != 'nan':
        out += own_oracles(after, pts, S, 'after the caller modified its vectors in place (objects derived before)')
        late = own_numbers(f, None, pts, S)
        out += own_oracles(late, pts, S, 'after the caller modified its vectors in place (objects derived afterwards)')
    out = [('own[{}] {}'.format(kind, k), w) for k, w in out]
    return out


EXTRA = {'nuclear': x_nuclear, 'simple': x_simple, 'box': x_box, 'sep': x_sep, 'factory': x_factory,
         'mul': x_mul, 'noconj': x_noconj, 'own': x_own}
EXTRA_BRANCHES = (
    ['extra/nuclear/exps={:g},{:g}'.format(a, b) for a, b in
     ((1, 2), (1, 1), (1, float('inf')), (2, 2), (float('inf'), float('inf')), (float('inf'), 1))] +
    ['extra/nuclear/fy', 'extra/nuclear/prox-raises', 'extra/nuclear/prox-sv=1', 'extra/nuclear/prox-sv=2',
     'extra/nuclear/prox-sv=inf', 'extra/nuclear/moreau',
     'extra/simple/operator-grad', 'extra/simple/callable-grad', 'extra/simple/empty',
     'extra/box/nonneg', 'extra/box/lo=True,hi=True', 'extra/box/lo=True,hi=False', 'extra/box/lo=False,hi=True',
     'extra/sep/getitem-int', 'extra/sep/getitem-slice', 'extra/sep/getitem-stride',
     'extra/factory/l2sq-g', 'extra/factory/l2sq-nog', 'extra/factory/l1-g', 'extra/factory/l1-nog',
     'extra/factory/l2-g', 'extra/factory/l2-nog', 'extra/factory/aliased',
     'extra/factory/l2sq-pointwise-sigma', 'extra/factory/l1-pointwise-sigma',
     'extra/factory/quadpert-u-none', 'extra/factory/quadpert-negative',
     'extra/mul/f*0', 'extra/mul/0*f', 'extra/mul/operator',
     'extra/noconj/simplex', 'extra/noconj/sumconstraint'] +
    ['own/' + k for k in OWN_KINDS] +
    ['own/independent/scale', 'own/follows-operand/scale', 'own/follows-operand/shift', 'own/follows-operand/nan'])


def extra_configs(rng, quick):
    tens = [S for S in fc.all_spaces() if not S.is_pspace]
    cfgs = []
    exps = [(1, 2), (1, 1), (1, float('inf')), (2, 2), (float('inf'), float('inf')), (float('inf'), 1)]
    for (n, m, k) in ((2, 2, 3), (3, 2, 2), (2, 3, 2)):
        for e in exps:
            for _ in range(1 if quick else 3):
                cfgs.append(('nuclear', {'shape': [n, m, k], 'exps': list(e),
                                         'x': fc.rvec(rng, n * m * k), 'y': fc.rvec(rng, n * m * k),
                                         'sigma': rng.choice([0.5, 1.0, 2.0]), 'pseed': rng.randint(0, 10 ** 6)}))
    for S in tens:
        n = S.size
        for as_op in (True, False):
            cfgs.append(('simple', {'space': S.name, 'x': fc.rvec(rng, n), 'y': fc.rvec(rng, n),
                                    'a': rng.choice([0.5, 2.0, 4.0]), 'grad_as_operator': as_op,
                                    'sigma': rng.choice([0.5, 1.0, 2.0])}))
        for lo, hi, nn in ((-1.0, 2.0, False), (0.5, None, False), (None, 1.0, False), (None, None, True)):
            cfgs.append(('box', {'space': S.name, 'x': fc.rvec(rng, n), 'lo': lo, 'hi': hi, 'nonneg': nn,
                                 'sigma': rng.choice([0.5, 1.0, 2.0])}))
        for kind in ('l2sq', 'l1', 'l2'):
            for g in (None, fc.rvec(rng, n)):
                cfgs.append(('factory', {'space': S.name, 'kind': kind, 'x': fc.rvec(rng, n), 'g': g,
                                         'sigvec': [rng.choice([0.5, 1.0, 2.0, 0.25]) for _ in range(n)],
                                         'lam': rng.choice([0.5, 1.0, 2.0, 3.0]),
                                         'sigma': rng.choice([0.5, 1.0, 2.0, 0.25])}))
        cfgs.append(('factory', {'space': S.name, 'kind': 'quadpert', 'x': fc.rvec(rng, n), 'g': None,
                                 'lam': 1.0, 'a': rng.choice([0.5, 1.5, 2.0]), 'sigma': rng.choice([0.5, 1.0, 2.0])}))
        for r in (['l1'], ['ssum', 1.5, ['l2sq']], ['huber', 0.5], ['trans', fc.rvec(rng, n), ['l2sq']]):
            cfgs.append(('mul', {'space': S.name, 'recipe': r, 'x': fc.rvec(rng, n),
                                 'y': fc.rvec(rng, n, nonzero=True)}))
        cfgs.append(('noconj', {'space': S.name}))
    hows = ['scale', 'shift', 'nan']
    for si, S in enumerate(tens):
        n = S.size
        for ki, kind in enumerate(OWN_KINDS):
            for how in (hows if not quick else [hows[(si + ki) % 3]] + (['scale'] if (si + ki) % 3 else [])):
                kl = kind in ('kl', 'klce')
                cfgs.append(('own', {
                    'space': S.name, 'kind': kind, 'how': [how, how],
                    'ops': [[rng.choice([1.0, 2.0, 4.0, 0.5]) for _ in range(n)],
                            [rng.choice([-1.0, -2.0, -0.5]) for _ in range(n)]],
                    'pts': [[fc.rvec(rng, n, 1, 8, 4) if kl else fc.rvec(rng, n),
                             fc.rvec(rng, n, -12, 3, 8) if kl else fc.rvec(rng, n, -4, 4, 8),
                             rng.choice([0.5, 1.0, 2.0])] for _ in range(3)]}))
    for parts in (['l1', 'l2sq'], ['l2', 'hub', 'l1'], ['l2sq'], ['hub', 'l2sq', 'l1', 'l2']):
        cfgs.append(('sep', {'parts': parts, 'x': [fc.rvec(rng, 3) for _ in parts],
                             'y': [fc.rvec(rng, 3) for _ in parts]}))
    return cfgs


def extra_stream(ctx, quick):
    for name, cfg in extra_configs(ctx.rng, quick):
        hits = set()
        try:
            res = EXTRA[name](cfg, hits)
        except Exception as e:  # noqa  (a mutated repo must give a VIOLATION, not a crash)
            res = [('extra-raises', '{}: {}'.format(type(e).__name__, str(e)[:160]))]
        for h in hits:
            ctx.hit(h)
        ctx.case(('extra', name, tuple(sorted(hits))))
        for key, what in res:
            ctx.violation('{} extra/{} {}'.format(key, name, cfg.get('space', cfg.get('exps', ''))), what,
                          {'extra': name, 'cfg': cfg})


def extra_replay(case):
    try:
        res = EXTRA[case['extra']](case['cfg'], set())
    except Exception as e:  # noqa
        return 'extra stratum raised {}: {}'.format(type(e).__name__, e)
    return '; '.join('{}: {}'.format(k, w) for k, w in res) or None


# --------------------------------------------------------------------------
# ROUND 5 (B): SEPFY stream — SeparableSum of modelled parts on the product spaces: f(x),
# f.convex_conj(y), <x, y> and the class skeletons of the conjugate parts vs the Lean execution of
# sepValue / sepConj / sepInner (Model/FunctionalsSep.lean); Fenchel-Young, equality at the
# gradient and biconjugate values by the oracle on the real objects.

def sepfy_stream(ctx, lines, pend, count):
    import odl.solvers as sol
    rng = ctx.rng
    for S in fc.all_spaces():
        if not S.is_pspace:
            continue
        subs = [fc.SpaceInfo('part', sub, 'part') for sub in S.space]
        for it in range(count):
            parts = []
            for Si in subs:
                r = gen_recipe(rng, Si, rng.randint(0, 2), True)
                while 'quadmat' in fc.recipe_classes(r):
                    r = gen_recipe(rng, Si, rng.randint(0, 2), True)
                parts.append(r)
            if it == 0:
                parts = [['lscal', -1.0, ['l1']]] + parts[1:]     # a summand without conjugate
            xs, ys = point(rng, S, None, 4), point(rng, S, None, 4, small=True)
            desc = {'sepfy': True, 'space': S.name, 'parts': parts, 'x': xs, 'y': ys}
            classes = tuple(sorted(set(c for r in parts for c in fc.recipe_classes(r))))
            key = 'sepsum space={}({}) parts={}'.format(S.name, S.kind, '+'.join(
                '/'.join(fc.recipe_classes(r)) for r in parts))
            st, f = safe_call(lambda: sol.SeparableSum(*[fc.build(r, Si, True) for r, Si in zip(parts, subs)]))
            if st != 'ok':
                ctx.violation('construct ' + key, 'constructing raised ' + st, desc)
                continue
            try:
                ws = [fc.wire(fi, Si) for fi, Si in zip(f.functionals, subs)]
            except NoModel as e:
                ctx.hit('oracle-only:' + str(e)[:40])
                ws = None
            toks, k0 = ['sepfy k={}'.format(len(subs))], 0
            if ws is not None:
                for i, (wi, Si) in enumerate(zip(ws, subs)):
                    n = Si.size
                    toks.append('w{0}={1} f{0}={2} x{0}={3} d{0}={4}'.format(
                        i, fl(Si.w), wi, fl(xs[k0:k0 + n]), fl(ys[k0:k0 + n])))
                    k0 += n
            x, y = S.elem(xs), S.elem(ys)
            st, g = safe_call(lambda: f.convex_conj)
            if st != 'ok':
                ctx.hit('sepfy/conj-raises')
                exp = any(expected_conj_raise(r) for r in parts) or any(
                    live_nonpos_left_scalar(fi) for fi in f.functionals)
                if ws is not None:
                    lines.append(' '.join(toks))
                    pend.append(('sepfy', dict(desc, key='convex_conj-raises ' + key), ('raise', st), 'exact'))
                elif not exp:
                    ctx.violation('convex_conj-raises ' + key, 'SeparableSum.convex_conj raised ' + st, desc)
                continue
            st, v = safe_call(lambda: (float(f(x)), float(g(y)), float(x.inner(y))))
            if st != 'ok':
                if 'NotImplementedError' in st:
                    ctx.hit('sepfy/not-evaluable')
                else:
                    ctx.violation('value-raises ' + key, st, desc)
                continue
            fx, gy, xy = v
            ctx.hit('sepfy/fy')
            ctx.case(('sepfy', S.name, classes) if math.isfinite(fx + gy) and (fx or gy) else None)
            if math.isfinite(fx) and math.isfinite(gy):
                if fx + gy < xy - 1e-9 * max(1.0, abs(fx), abs(gy), abs(xy)):
                    ctx.violation('fenchel-young-inequality ' + key,
                                  'f(x) + f*(y) = {!r} < <x,y> = {!r}'.format(fx + gy, xy), desc)
            elif fx != fx or gy != gy or float('-inf') in (fx, gy):
                ctx.violation('fenchel-young-inequality ' + key, 'f(x) = {!r}, f*(y) = {!r}'.format(fx, gy), desc)
            # documented rule on the real parts: f*(y) = sum_i f_i*(y_i)
            st, dv = safe_call(lambda: sum(float(fi.convex_conj(yi)) for fi, yi in zip(f.functionals, y)))
            if st == 'ok' and not close(gy, dv, 1.0, 1e-9, 1e-9):
                ctx.violation('sepsum-conj-value ' + key, 'f*(y) = {!r} but sum of f_i*(y_i) = {!r}'.format(gy, dv), desc)
            # equality at the gradient
            if math.isfinite(fx):
                st, gr = safe_call(lambda: f.gradient(x))
                if st == 'ok' and all(math.isfinite(t) for t in S.flat(gr)):
                    st, ggr = safe_call(lambda: float(g(gr)))
                    if st == 'ok' and ggr == float('inf'):
                        gr = gr * (1 - 1e-12)
                        st, ggr = safe_call(lambda: float(g(gr)))
                    if st == 'ok':
                        ctx.hit('sepfy/fy-eq')
                        xg = float(x.inner(gr))
                        if not (math.isfinite(ggr) and abs(fx + ggr - xg) <= 1e-8 * max(1.0, abs(fx), abs(xg))):
                            ctx.violation('fenchel-young-equality ' + key,
                                          'at y = grad f(x): f(x)+f*(y) = {!r} but <x,y> = {!r}'.format(fx + ggr, xg),
                                          dict(desc, y=S.flat(gr), at_gradient=True))
            st, bx = safe_call(lambda: float(g.convex_conj(x)))
            if st == 'ok':
                ctx.hit('sepfy/biconj')
                if not close(bx, fx, 1.0, 1e-9, 1e-9):
                    ctx.violation('biconjugate ' + key, 'f**(x) = {!r} but f(x) = {!r}'.format(bx, fx), desc)
            if ws is not None:
                try:
                    sk = '+'.join(fc.skeleton(fc.wire(gi, Si)) for gi, Si in zip(g.functionals, subs))
                except Exception:  # noqa
                    sk = None
                lines.append(' '.join(toks))
                pend.append(('sepfy', desc, ('ok', fx, gy, xy, sk), 'exact'))


def compare_sepfy(ctx, desc, impl, ans):
    d2 = dict(desc, op='sepfy')
    if impl[0] == 'raise':
        ctx.hit('sepfy-model/noconj')
        if ans != 'noconj' or 'ValueError' not in impl[1]:
            ctx.disagree(d2, 'raised: ' + impl[1], ans)
            ctx.violation(desc.get('key', 'convex_conj-raises sepsum'),
                          'SeparableSum.convex_conj raised {} (model: {})'.format(impl[1], ans),
                          {k: v for k, v in desc.items() if k != 'key'})
        return
    _, fx, gy, xy, sk = impl
    if not ans.startswith('ok fx='):
        ctx.disagree(d2, impl, ans)
        return
    kv = parse_kv(ans)
    ctx.hit('sepfy-model/ok')

    def same(v, tok):
        if tok == 'inf':
            return v == float('inf')
        if tok == 'noeval' or not math.isfinite(v):
            return False
        return Fraction(v) == core.pfrac(tok)
    for nm, v in (('fx', fx), ('gy', gy), ('xy', xy)):
        if not same(v, kv.get(nm, 'noeval')):
            ctx.disagree(dict(d2, which=nm), v, kv.get(nm))
    if sk is not None and kv.get('s') != sk:
        ctx.disagree(dict(d2, which='skeleton'), sk, kv.get('s'))


def sepfy_replay(case):
    import odl.solvers as sol
    S = fc.get_space(case['space'])
    subs = [fc.SpaceInfo('part', sub, 'part') for sub in S.space]
    st, v = safe_call(lambda: sol.SeparableSum(*[fc.build(r, Si, True) for r, Si in zip(case['parts'], subs)]))
    if st != 'ok':
        return 'constructing raised ' + st
    f = v
    st, g = safe_call(lambda: f.convex_conj)
    if st != 'ok':
        return 'convex_conj raised ' + st
    x, y = S.elem(case['x']), S.elem(case['y'])
    st, v = safe_call(lambda: (float(f(x)), float(g(y)), float(x.inner(y)), float(g.convex_conj(x)),
                                sum(float(fi.convex_conj(yi)) for fi, yi in zip(f.functionals, y))))
    if st != 'ok':
        return 'evaluation raised ' + st
    fx, gy, xy, bx, dv = v
    msgs = []
    if math.isfinite(fx) and math.isfinite(gy):
        tol = 1e-8 * max(1.0, abs(fx), abs(gy), abs(xy))
        if fx + gy < xy - tol:
            msgs.append('f(x)+f*(y) = {!r} < <x,y> = {!r}'.format(fx + gy, xy))
        if case.get('at_gradient') and abs(fx + gy - xy) > tol:
            msgs.append('at y = grad f(x): f(x)+f*(y) = {!r} != <x,y> = {!r}'.format(fx + gy, xy))
    if not close(bx, fx, 1.0, 1e-9, 1e-9):
        msgs.append('f**(x) = {!r} != f(x) = {!r}'.format(bx, fx))
    if not close(gy, dv, 1.0, 1e-9, 1e-9):
        msgs.append('f*(y) = {!r} != sum f_i*(y_i) = {!r}'.format(gy, dv))
    return '; '.join(msgs) or None


def compare(ctx, pend, outs):
    for (op, desc, impl, stream), ans in zip(pend, outs):
        d2 = dict(desc, op=op)
        ctx.hit('model/' + op)
        if op == 'moreau':
            compare_moreau(ctx, desc, impl, ans, stream)
            continue
        if op == 'sepfy':
            compare_sepfy(ctx, desc, impl, ans)
            continue
        if op == 'conjraise':
            if ans != 'noconj' or 'ValueError' not in str(impl):
                ctx.disagree(d2, 'raised: ' + str(impl), ans)
                ctx.violation(desc.get('key', 'convex_conj-raises'),
                              'convex_conj raised {} where the documented rules give a conjugate '
                              '(model: {})'.format(impl, ans),
                              {k: v for k, v in desc.items() if k != 'key'})
            continue
        if op == 'conjskel':
            if impl is None:
                if not ans.startswith('ok s='):
                    ctx.disagree(d2, 'conjugate exists (class outside the model)', ans)
            elif ans != 'ok s=' + impl:
                ctx.disagree(d2, impl, ans)
            continue
        if not ans.startswith('ok v='):
            ctx.disagree(d2, impl, ans)
            continue
        tok = ans[len('ok v='):]
        if tok == 'inf':
            ok = impl == float('inf')
        elif tok == 'noeval':
            ok = False
        elif not math.isfinite(impl):
            ok = False
        else:
            m = core.pfrac(tok)
            ok = (Fraction(impl) == m) if stream == 'exact' else close(impl, float(m), 1.0, 1e-9, 1e-9)
        if not ok:
            ctx.disagree(d2, impl, ans)


def run(ctx, deep=False):
    import warnings
    warnings.simplefilter('ignore')   # NumPy RuntimeWarnings at domain boundaries (log 0, x/0)
    np.seterr(all='ignore')
    rng = ctx.rng
    quick = ctx.quick and not deep
    lines, pend = [], []
    n_expr = 70 if quick else 400
    for S in fc.all_spaces():
        for r in class_zoo(rng, S):
            check_expr(ctx, r, S, 'general', lines, pend, n_pts=2 if quick else 4)
        for r in corner_recipes(rng, S):
            ctx.hit('corner/' + '/'.join(fc.recipe_classes(r)[:3]))
            check_expr(ctx, r, S, 'general' if 'quadmat' in fc.recipe_classes(r) else 'exact',
                       lines, pend, n_pts=2)
        for i in range(n_expr):
            exact = rng.random() < 0.6
            r = gen_recipe(rng, S, rng.randint(0, 3 if quick else 4), exact)
            if 'quadmat' in fc.recipe_classes(r):
                exact = False     # np.linalg.inv of the inverse is not exact
            check_expr(ctx, r, S, 'exact' if exact else 'general', lines, pend,
                       n_pts=2 if quick else 3)
    for S in fc.all_spaces():
        for r in default_conj_recipes(rng, S, 8 if quick else 40):
            ctx.hit('default-conj/' + r[0])
            check_expr(ctx, r, S, 'exact', lines, pend, n_pts=2)
    extra_stream(ctx, quick)
    sepfy_stream(ctx, lines, pend, 12 if quick else 60)
    fc.history_stream(ctx, 'C08', 12 if quick else 60)
    fc.wide_stream(ctx, 'C08', 2 if quick else 8)
    fc.forms_stream(ctx, 'C08')
    outs = core.run_driver('C08', lines)
    compare(ctx, pend, outs)
    ctx.extra['model_lines'] = len(lines)


def search(ctx, broken):
    rng = ctx.rng
    lines, pend = [], []
    extra_stream(ctx, False)
    for S in fc.all_spaces():
        for r in class_zoo(rng, S):
            check_expr(ctx, r, S, 'general', lines, pend, n_pts=4, oracle_only=True)
        for i in range(80):
            r = gen_recipe(rng, S, rng.randint(0, 4), rng.random() < 0.5)
            check_expr(ctx, r, S, 'general', lines, pend, n_pts=3, oracle_only=True)


def replay(ctx, case):
    if case.get('extra'):
        return extra_replay(case)
    if case.get('sepfy'):
        return sepfy_replay(case)
    if case.get('history'):
        return fc.history_replay(case)
    if case.get('wide'):
        return fc.wide_replay(case)
    if case.get('forms'):
        return fc.forms_replay(ctx, case)
    S = fc.get_space(case['space'])
    r = case['recipe']
    st, f = safe_call(fc.build, r, S, True)
    if st != 'ok':
        return 'constructing the functional raised ' + st
    st, g = safe_call(lambda: f.convex_conj)
    if st != 'ok':
        return 'convex_conj raised ' + st
    x, y = S.elem(case['x']), S.elem(case['y'])
    msgs = []
    if r[0] == 'infconv':
        gy = float(g(y))
        dv = float(fc.build(r[1], S).convex_conj(y)) + float(fc.build(r[2], S).convex_conj(y))
        return None if close(gy, dv, 1.0, 1e-9, 1e-9) else \
            'InfimalConvolution conj value {!r} != f*(y)+g*(y) = {!r}'.format(gy, dv)
    if 'sigma' in case:
        s = float(case['sigma'])
        st, resid = safe_call(lambda: float((f.proximal(s)(x) + s * g.proximal(1.0 / s)(x / s) - x).norm()))
        if st != 'ok' or not resid <= 1e-8 * max(1.0, float(x.norm())):
            return 'Moreau residual {}'.format(resid if st == 'ok' else st)
        return None
    st, vals = safe_call(lambda: (float(f(x)), float(g(y)), float(x.inner(y))))
    if st != 'ok':
        return 'evaluation raised ' + st
    fx, gy, xy = vals
    if math.isfinite(fx) and math.isfinite(gy):
        tol = 1e-8 * max(1.0, abs(fx), abs(gy), abs(xy))
        if fx + gy < xy - tol:
            msgs.append('f(x)+f*(y) = {!r} < <x,y> = {!r}'.format(fx + gy, xy))
        if case.get('at_gradient') and abs(fx + gy - xy) > tol:
            msgs.append('at y = grad f(x): f(x)+f*(y) = {!r} != <x,y> = {!r}'.format(fx + gy, xy))
    st, bx = safe_call(lambda: float(g.convex_conj(x)))
    if st == 'ok' and not close(bx, fx, 1.0, 1e-9, 1e-9):
        msgs.append('f**(x) = {!r} != f(x) = {!r}'.format(bx, fx))
    return '; '.join(msgs) or None
