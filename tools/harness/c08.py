"""C08 — functional, convex conjugate and their proximals are mutually consistent.

Tie to /repo (correspondence): convex functional expressions are built with ODL's own
constructors on rn, weighted rn, uniform_discr (cell volume != 1) and product spaces; the LIVE
object is serialised to the wire format of Model/FunctionalsWire.lean and f(x),
f.convex_conj(y), f.convex_conj.convex_conj(x) of the real objects are compared with the Lean
execution of `Fn.value` / `Fn.conj` (the conjugation rules as coded) on the same inputs.

Oracle (independent of the model, on the real code):
  * Fenchel-Young: f(x) + f*(y) >= <x, y> on random pairs;
  * equality at y = grad f(x);
  * f** takes the same values as f;
  * Moreau: prox_{sigma f}(x) + sigma * prox_{f*/sigma}(x/sigma) = x whenever both exist.
"""
import math
from fractions import Fraction

import numpy as np

from vf import core
from vf.core import fs, fl
from harness import functionals_common as fc
from harness.functionals_common import NoModel, close, safe_call
from harness.c09 import rand_matrix

RULE = ('convex functional expressions with a convex_conj (built-ins x derived classes, depth <= 3) '
        'x 9 spaces x points on the dyadic grid; per expression: Fenchel-Young inequality on '
        'random pairs, equality at y = grad f(x), biconjugate values, Moreau decomposition, and '
        'f / f* / f** values vs the Lean model. distinct = distinct (space kind, set of classes in '
        'the expression, check) signatures among non-trivial cases (finite, not identically zero). '
        'moreau-model stream: f.proximal(sigma)(x) and f.convex_conj.proximal(1/sigma)(x/sigma) of '
        'every modelled expression vs the Lean execution of Fn.toProx / Prox.Fn.prox on f and on the '
        'coded conjugate Fn.conj f (raises compared in both directions), plus default-conj recipes '
        '(FunctionalQuadraticPerturb with quadratic coefficient > 0).')
TRUSTED = ['serialiser tools/harness/functionals_common.py:wire (live ODL functional object -> '
           'model expression, by class and attributes)',
           'NumPy ufuncs / inner products (modelled as exact entry-wise maps and weighted sums)',
           'np.linalg.inv inside MatrixOperator.inverse: the driver checks M*Minv = I exactly']
ASSUMPTIONS = ['floating-point rounding is outside the model: exact-stream inputs are dyadic so '
               'that comparison is exact; general-stream comparison uses 1e-9 relative tolerance',
               'L2 / Lp norms, KL functionals, group norms, nuclear norm and separable sums are '
               'outside the executable model (abstract theorems and oracle only)',
               'the Moreau oracle compares the two proximals of the real code; that each proximal '
               'is the minimiser is property C07',
               'the Moreau theorems C08.moreau_exec_* assume an exact np.sqrt (SqrtOK) and the '
               'unfudged radius 1 of proximal_convex_conj_l1; the code uses 1 - 1e-14 (deviation '
               '<= sigma * 1e-14, C08.moreau_l1_fudged); the driver runs with the code\'s radius and '
               'a rational sqrt (exact on squares, 2^-64 relative otherwise); the moreau-model '
               'comparison is exact where float arithmetic is exact and 1e-11 relative otherwise']
KNOWN_EXPLAINS_DISAGREEMENT = False
# classes for which one of the two proximals is DEFINED by proximal_convex_conj in the code
# (L2Norm <-> ball via proximal_convex_conj_l2, Linf <-> l1-ball via x - proj_l1, the KL families)
SELF_REFERENTIAL = {'l2', 'indl2', 'linf', 'indl1', 'kl', 'klcc', 'klce', 'klcecc'}


def EXPECTED_BRANCHES(ctx=None):
    return (fc.history_expected_branches() + fc.wide_expected_branches('C08') +
            fc.forms_expected_branches())

# --------------------------------------------------------------------------

def gen_leaf(rng, S, exact):
    n = S.size
    kinds = ['l1', 'l2sq', 'l2sq', 'const', 'zero', 'indzero', 'indlinf', 'lin', 'quadscale',
             'quadscale']
    if not S.is_pspace:
        kinds += ['huber', 'huber']
    if S.kind in ('rn', 'rn-const'):
        kinds += ['quadmat', 'quadmat']
    if not exact:
        kinds += ['l2', 'linf', 'indl2', 'indl1', 'lp']
        if not S.is_pspace:
            kinds += ['kl', 'klce']
    k = rng.choice(kinds)
    if k in ('l1', 'l2', 'l2sq', 'zero', 'indlinf', 'linf', 'indl2', 'indl1'):
        return [k]
    if k == 'lp':
        return ['lp', rng.choice([1.5, 3.0])]
    if k in ('const', 'indzero'):
        return [k, rng.choice([1.0, -2.0, 0.5, 0.0])]
    if k == 'huber':
        return ['huber', rng.choice([0.5, 1.0, 2.0, 0.25])]
    if k == 'lin':
        return ['lin', fc.rvec(rng, n), rng.choice([0.0, 1.0, -0.5])]
    if k in ('kl', 'klce'):
        return [k, rng.choice([None, [rng.choice([0.5, 1.0, 2.0]) for _ in range(n)]])]
    b = rng.choice([None, fc.rvec(rng, n)])
    c = rng.choice([0.0, 2.0, -1.5])
    if k == 'quadscale':
        return ['quadscale', rng.choice([2.0, 0.5, 4.0, 1.0]), b, c]
    if k == 'quadmul':
        return ['quadmul', [rng.choice([1.0, 2.0, 0.5, 4.0]) for _ in range(n)], b, c]
    if k == 'quadmat':
        # symmetric positive definite L D L^T
        L = np.eye(n)
        for i in range(n):
            for j in range(i):
                L[i, j] = rng.choice([0, 0, 1, -1, 2])
        D = np.diag([rng.choice([1.0, 2.0, 0.5, 4.0]) for _ in range(n)])
        return ['quadmat', L.dot(D).dot(L.T).tolist(), b, c]
    raise KeyError(k)


def gen_recipe(rng, S, depth, exact=True):
    if depth <= 0 or rng.random() < 0.2:
        return gen_leaf(rng, S, exact)
    n = S.size
    kinds = ['lscal', 'rscal', 'rvec', 'ssum', 'trans', 'qp0', 'breg']
    k = rng.choice(kinds)
    sub = lambda: gen_recipe(rng, S, depth - 1, exact)  # noqa
    pow2 = [2.0, 0.5, 4.0, 0.25]
    if k == 'lscal':
        return ['lscal', rng.choice(pow2 if exact else pow2 + [3.0, 0.3, 1.7]), sub()]
    if k == 'rscal':
        return ['rscal', rng.choice([-s for s in pow2] + pow2 if exact
                                    else pow2 + [-3.0, 0.3, -1.7]), sub()]
    if k == 'rvec':
        return ['rvec', [rng.choice([1.0, 2.0, -1.0, 0.5, -2.0]) for _ in range(n)], sub()]
    if k == 'ssum':
        return ['ssum', rng.choice([1.0, -2.5, 0.5]), sub()]
    if k == 'trans':
        return ['trans', fc.rvec(rng, n), sub()]
    if k == 'qp0':
        return ['qp', 0.0, rng.choice([None, fc.rvec(rng, n)]), rng.choice([0.0, 1.0, -3.0]), sub()]
    if k == 'breg':
        inner = sub()
        if any(c.startswith('ind') or c.startswith('kl') for c in fc.recipe_classes(inner)):
            return inner       # the Bregman point must lie where f is finite
        return ['breg', fc.rvec(rng, n), fc.rvec(rng, n), inner]
    raise KeyError(k)


def class_zoo(rng, S):
    """Every class with an explicit convex_conj, class by class (general stream)."""
    n = S.size
    pos = [rng.choice([0.5, 1.0, 2.0, 1.5]) for _ in range(n)]
    out = [['l1'], ['l2'], ['linf'], ['lp', 1.5], ['lp', 3.0], ['l2sq'], ['const', 2.0], ['zero'],
           ['indzero', 1.0], ['indlinf'], ['indl2'], ['indl1'], ['indlp', 3.0],
           ['lin', fc.rvec(rng, n), 0.5],
           ['quadscale', 2.0, fc.rvec(rng, n), 1.0], ['quadscale', 0.5, None, -1.0],
           ['quadmul', pos, None, -1.0],          # MultiplyOperator has no inverse: must raise
           ['infconv', ['l1'], ['l2sq']], ['infconv', ['l2sq'], ['const', 1.0]],
           ['conj', ['infconv', ['indlinf'], ['l2sq']]]]
    if not S.is_pspace:
        out += [['kl', None], ['kl', pos], ['klcc', pos], ['klce', None], ['klce', pos],
                ['klcecc', pos]]
    if not S.is_pspace or S.space.is_power_space:
        out += [['huber', 0.5], ['huber', 2.0]]
    if S.kind in ('rn', 'rn-const'):
        out.append(gen_leaf_quadmat(rng, S))
    if S.is_pspace:
        parts = [rng.choice([['l2sq'], ['l1'], ['l2'], ['const', 1.0]]) for _ in S.space]
        out.append(['sepsum', parts])
        if S.space.is_power_space:
            out += [['groupl1', 2.0], ['groupl1', 1.0], ['indgroupl1', 2.0]]
    return out


def corner_recipes(rng, S):
    """Inputs that need a specific shape: conjugates that are flagged linear (so that
    `s * f* * (1/s)` / `f* * (1/s)` take the LeftScalarMult branch of `Functional.__mul__`),
    QuadraticForm with vector inside scalings/translations, negative argument scalings."""
    n = S.size
    t = fc.rvec(rng, n, -4, 4, 2, nonzero=True)
    b = fc.rvec(rng, n, -4, 4, 2)
    out = [
        ['lscal', 2.0, ['indzero', 0.0]],
        ['rscal', 2.0, ['indzero', 0.0]],
        ['rscal', -2.0, ['trans', t, ['indzero', 0.0]]],
        ['lscal', 4.0, ['trans', t, ['indzero', 0.0]]],
        ['rscal', 0.5, ['lscal', 2.0, ['trans', t, ['indzero', 0.0]]]],
        ['rscal', 2.0, ['indzero', 1.0]],
        ['lscal', 2.0, ['ssum', 1.0, ['trans', t, ['indzero', 0.0]]]],
        ['rscal', -0.5, ['quadscale', 2.0, b, 1.0]],
        ['trans', t, ['lscal', 0.5, ['quadscale', 4.0, b, -1.0]]],
        ['lscal', -1.0, ['l2sq']],                         # non-positive left scalar: ValueError
        ['rscal', 2.0, ['lscal', -0.5, ['trans', t, ['l1']]]],
        ['ssum', 1.0, ['lscal', -2.0, ['huber', 0.5]]] if not S.is_pspace else ['lscal', -2.0, ['l1']],
        ['qp', 0.0, t, 2.0, ['quadscale', 0.5, b, 0.0]],
        ['breg', t, b, ['quadscale', 2.0, None, 0.0]],
    ]
    if S.kind in ('rn', 'rn-const'):
        q = gen_leaf_quadmat(rng, S)
        out += [['rscal', 2.0, q], ['lscal', 0.25, ['trans', t, q]]]
    return out


def gen_leaf_quadmat(rng, S):
    while True:
        r = gen_leaf(rng, S, True)
        if r[0] == 'quadmat':
            return r


def leaf_domain(r):
    ks = fc.recipe_classes(r)
    if 'kl' in ks or 'klce' in ks:
        return 'pos'
    if 'klcc' in ks:
        return 'lt1'
    return None


def has_quadform_with_operator(r):
    ks = fc.recipe_classes(r)
    return any(k in ks for k in ('quadmat', 'quadscale', 'quadmul'))


def point(rng, S, dom=None, den=4, small=False):
    n = S.size
    if dom == 'pos':
        return [rng.randint(1, 12) / 4.0 for _ in range(n)]
    if dom == 'lt1':
        return [rng.randint(-12, 3) / 4.0 for _ in range(n)]
    if small:
        return fc.rvec(rng, n, -4, 4, 8)
    return fc.rvec(rng, n, -8, 8, den)


def expected_conj_raise(r):
    """The only documented reasons for `convex_conj` to raise inside the generated language:
    a non-positive left scalar (ValueError, `FunctionalLeftScalarMult.convex_conj`) and
    QuadraticForm over MultiplyOperator, which has no `inverse` (OpNotImplementedError)."""
    def walk(t):
        if not isinstance(t, (list, tuple)) or not t or not isinstance(t[0], str):
            return None
        if t[0] == 'lscal' and float(t[1]) <= 0:
            return 'ValueError'
        if t[0] == 'quadmul':
            return 'OpNotImplementedError'
        for u in t[1:]:
            v = walk(u)
            if v:
                return v
        return None
    return walk(r)


def live_nonpos_left_scalar(f, depth=0):
    """Does the live object contain a FunctionalLeftScalarMult with scalar <= 0 (also where
    `f * s` was dispatched to `s * f` for a functional flagged linear)?  Its convex_conj raises
    the documented ValueError; used where no model answer is available (oracle-only search)."""
    if type(f).__name__ == 'FunctionalLeftScalarMult':
        try:
            if float(f.scalar) <= 0:
                return True
        except Exception:  # noqa
            pass
    if depth > 8:
        return False
    for attr in ('functional', 'left', 'right', 'operator'):
        try:
            h = getattr(f, attr, None)
        except Exception:  # noqa
            h = None
        if h is not None and h is not f and live_nonpos_left_scalar(h, depth + 1):
            return True
    return False


def tag(r):
    """Words identifying special input classes (matched by known_findings.json)."""
    return ' [QuadraticForm-with-operator]' if has_quadform_with_operator(r) else ''


def check_expr(ctx, r, S, stream, lines, pend, n_pts=3, oracle_only=False):
    rng = ctx.rng
    desc0 = {'space': S.name, 'recipe': r, 'stream': stream}
    classes = tuple(sorted(set(fc.recipe_classes(r))))
    key0 = 'space={}({}) expr={}{}'.format(S.name, S.kind, '/'.join(fc.recipe_classes(r)), tag(r))
    st, f = safe_call(fc.build, r, S, True)
    if st != 'ok':
        ctx.violation('construct ' + key0, 'constructing the functional raised ' + st, desc0)
        return
    w = None
    if not oracle_only:
        try:
            w = fc.wire(f, S)
        except NoModel as e:
            ctx.hit('oracle-only:' + str(e)[:40])
        except Exception as e:  # noqa
            ctx.violation('serialise ' + key0, 'reading the functional object raised {}: {}'.format(
                type(e).__name__, e), desc0)
    zeros = fl([0.0] * S.size)
    st, g = safe_call(lambda: f.convex_conj)
    if st != 'ok':
        # never skipped silently: the model must say `noconj`, and a raise outside the two
        # documented cases is a violation
        ctx.hit('conj-raises/' + r[0])
        exp = expected_conj_raise(r)
        if w is not None:
            # modelled expression: the raise is legitimate iff the model (which follows the
            # documented ValueError of FunctionalLeftScalarMult for scalars <= 0, also when
            # `f * s` was dispatched to `s * f` for a functional flagged linear) says `noconj`
            lines.append('conjskel f={} w={} x={}'.format(w, fc.wl(S), zeros))
            pend.append(('conjraise', dict(desc0, key='convex_conj-raises ' + key0), st, stream))
        elif exp is None and 'ValueError' in st and live_nonpos_left_scalar(f):
            ctx.hit('conj-raises/dispatched-nonpositive-left-scalar')
        elif exp is None or exp not in st:
            ctx.violation('convex_conj-raises ' + key0, 'f.convex_conj raised ' + st, desc0)
        ctx.case(('conj-raises', S.kind, classes))
        return
    if w is not None:
        try:
            wg = fc.wire(g, S)
        except NoModel:
            wg = None
        except Exception as e:  # noqa
            wg = None
            ctx.violation('serialise-conj ' + key0, 'reading f.convex_conj raised {}: {}'.format(
                type(e).__name__, e), desc0)
        lines.append('conjskel f={} w={} x={}'.format(w, fc.wl(S), zeros))
        pend.append(('conjskel', dict(desc0), None if wg is None else fc.skeleton(wg), stream))
    st, gg = safe_call(lambda: g.convex_conj)
    if st != 'ok':
        gg = None
        if w is not None:
            lines.append('biconjval f={} w={} x={}'.format(w, fc.wl(S), zeros))
            pend.append(('conjraise', dict(desc0, key='biconj-raises ' + key0), st, stream))
        elif 'ValueError' in st and live_nonpos_left_scalar(g):
            ctx.hit('biconj-raises/dispatched-nonpositive-left-scalar')
        else:
            ctx.violation('biconj-raises ' + key0, 'f.convex_conj.convex_conj raised ' + st, desc0)
    evaluable = r[0] != 'infconv'
    dom = leaf_domain(r)
    cdom = {'pos': 'lt1', 'lt1': 'pos'}.get(dom)
    for i in range(n_pts):
        den = rng.choice([4, 2, 1]) if stream == 'exact' else 4
        xs = point(rng, S, dom, den)
        ys = point(rng, S, cdom, den, small=(i % 2 == 0))
        if stream == 'general':
            xs = [v + rng.choice([0.1, -0.07, 0.013]) for v in xs] if dom is None else xs
        x, y = S.elem(xs), S.elem(ys)
        desc = dict(desc0, x=xs, y=ys)
        xy = float(x.inner(y))
        fx = None
        if evaluable:
            st, fx = safe_call(lambda: float(f(x)))
            if st != 'ok':
                ctx.violation('value-raises ' + key0, 'f(x) raised ' + st, desc)
                continue
        st, gy = safe_call(lambda: float(g(y)))
        if st != 'ok':
            if 'NotImplementedError' in st:
                ctx.hit('conj-not-evaluable/' + r[0])   # FunctionalDefaultConvexConjugate
                gy = None
            else:
                ctx.violation('conj-value-raises ' + key0, 'f.convex_conj(y) raised ' + st, desc)
                continue
        # documented rule for the class without `_call`: (f [] g)* = f* + g*
        if r[0] == 'infconv' and gy is not None:
            st, dv = safe_call(lambda: float(fc.build(r[1], S).convex_conj(y)) +
                               float(fc.build(r[2], S).convex_conj(y)))
            ctx.case(('infconv', S.kind, classes) if st == 'ok' and dv else None)
            if st == 'ok' and not close(gy, dv, 1.0, 1e-9, 1e-9):
                ctx.violation('infconv-conj-value ' + key0,
                              'InfimalConvolution(f, g).convex_conj(y) = {!r} but f*(y) + g*(y) = {!r}'
                              .format(gy, dv), desc)
        # (a) Fenchel-Young inequality
        if fx is not None and gy is not None:
            ctx.case(('fy', S.kind, classes) if math.isfinite(fx + gy) and (fx or gy) else None,
                     sample=desc if len(ctx.samples) < 4 else None)
            ctx.hit('fy/' + r[0])
            if math.isfinite(fx) and math.isfinite(gy):
                tol = 1e-9 * max(1.0, abs(fx), abs(gy), abs(xy))
                if fx + gy < xy - tol:
                    ctx.violation('fenchel-young-inequality ' + key0,
                                  'f(x) + f*(y) = {!r} < <x,y> = {!r}'.format(fx + gy, xy), desc)
            elif fx != fx or gy != gy or fx == float('-inf') or gy == float('-inf'):
                ctx.violation('fenchel-young-inequality ' + key0,
                              'f(x) = {!r}, f*(y) = {!r}'.format(fx, gy), desc)
        # model: f(x), f*(y)
        if w is not None:
            if fx is not None:
                lines.append('val f={} w={} x={}'.format(w, fc.wl(S), fl(xs)))
                pend.append(('val', desc, fx, stream))
            if gy is not None:
                lines.append('conjval f={} w={} x={}'.format(w, fc.wl(S), fl(ys)))
                pend.append(('conjval', desc, gy, stream))
        # (b) equality at y = grad f(x)
        if fx is not None and math.isfinite(fx) and gy is not None:
            st, gr = safe_call(lambda: f.gradient(x))
            if st == 'ok' and gr in S.space and all(math.isfinite(t) for t in S.flat(gr)):
                st, ggr = safe_call(lambda: float(g(gr)))
                if st == 'ok' and ggr == float('inf'):
                    # gradients of norms lie ON the boundary of the dual ball: step inside by 1e-12
                    gr = gr * (1 - 1e-12)
                    st, ggr = safe_call(lambda: float(g(gr)))
                if st == 'ok' and ggr == float('inf') and stream == 'general':
                    # a point-indicator conjugate evaluated at a rounded gradient: only the
                    # exact stream can decide this case
                    ctx.hit('fy-eq-skip:indicator-at-rounded-gradient')
                elif st == 'ok':
                    xg = float(x.inner(gr))
                    ctx.case(('fy-eq', S.kind, classes) if xg != 0 else None)
                    ctx.hit('fy-eq/' + r[0])
                    tol = 1e-8 * max(1.0, abs(fx), abs(ggr) if math.isfinite(ggr) else 1.0, abs(xg))
                    if not (math.isfinite(ggr) and abs(fx + ggr - xg) <= tol):
                        ctx.violation('fenchel-young-equality ' + key0,
                                      'at y = grad f(x): f(x) + f*(y) = {!r} but <x,y> = {!r}'.format(
                                          fx + ggr, xg), dict(desc, y=S.flat(gr), at_gradient=True))
                else:
                    ctx.violation('conj-value-raises ' + key0, 'f*(grad f(x)) raised ' + st, desc)
        # (b') attainment from the conjugate side (covers primal classes WITHOUT gradient, where
        # an over-estimating f* would satisfy the inequality): x* = grad f*(y) must attain
        # f(x*) + f*(y) = <x*, y>
        if evaluable and gy is not None and math.isfinite(gy):
            st, xs_ = safe_call(lambda: g.gradient(y))
            if st == 'ok' and xs_ in S.space and all(math.isfinite(t) for t in S.flat(xs_)):
                st, fxs = safe_call(lambda: float(f(xs_)))
                if st == 'ok' and fxs == float('inf'):
                    xs_ = xs_ * (1 - 1e-12)
                    st, fxs = safe_call(lambda: float(f(xs_)))
                if st == 'ok' and fxs == float('inf') and stream == 'general':
                    ctx.hit('fy-attain-skip:indicator-at-rounded-gradient')
                elif st == 'ok':
                    xy2 = float(xs_.inner(y))
                    ctx.case(('fy-attain', S.kind, classes) if xy2 != 0 else None)
                    ctx.hit('fy-attain/' + r[0])
                    tol = 1e-8 * max(1.0, abs(gy), abs(fxs) if math.isfinite(fxs) else 1.0, abs(xy2))
                    if not (math.isfinite(fxs) and abs(fxs + gy - xy2) <= tol):
                        ctx.violation('fenchel-young-attainment ' + key0,
                                      'at x = grad f*(y): f(x) + f*(y) = {!r} but <x,y> = {!r} '
                                      '(f* is not attained)'.format(fxs + gy, xy2),
                                      dict(desc, x=S.flat(xs_), attain=True))
        # (c) biconjugate values
        if gg is not None and fx is not None:
            st, bx = safe_call(lambda: float(gg(x)))
            if st == 'ok':
                ctx.case(('biconj', S.kind, classes) if fx else None)
                ctx.hit('biconj/' + r[0])
                if not close(bx, fx, 1.0, 1e-9, 1e-9):
                    ctx.violation('biconjugate ' + key0,
                                  'f**(x) = {!r} but f(x) = {!r}'.format(bx, fx), desc)
                if w is not None:
                    lines.append('biconjval f={} w={} x={}'.format(w, fc.wl(S), fl(xs)))
                    pend.append(('biconjval', desc, bx, stream))
            elif 'NotImplementedError' not in st:
                ctx.violation('biconj-value-raises ' + key0, 'f**(x) raised ' + st, desc)
        # (d) Moreau decomposition
        sigma = rng.choice([1.0, 0.5, 2.0, 0.25] if stream == 'exact' else [1.0, 0.5, 2.0, 0.3, 1.7])
        moreau(ctx, f, g, S, x, xs, sigma, desc, key0, classes, r, w, lines, pend, stream)


def has_default_conj(g, depth=0):
    """Does the conjugate contain FunctionalDefaultConvexConjugate (proximal DEFINED by Moreau)?"""
    if type(g).__name__ == 'FunctionalDefaultConvexConjugate':
        return True
    if depth > 6:
        return False
    for attr in ('functional', 'left', 'operator'):
        h = getattr(g, attr, None)
        if h is not None and h is not g and has_default_conj(h, depth + 1):
            return True
    return False


def default_conj_recipes(rng, S, count):
    """FunctionalQuadraticPerturb with quadratic coefficient a > 0: `convex_conj` falls back to
    FunctionalDefaultConvexConjugate, whose proximal is proximal_convex_conj(f.proximal); the
    primal proximal runs proximal_quadratic_perturbation with a != 0 (np.sqrt)."""
    n = S.size
    out = []
    for i in range(count):
        sub = gen_recipe(rng, S, rng.randint(0, 2), True)
        while 'quadmat' in fc.recipe_classes(sub):
            sub = gen_recipe(rng, S, rng.randint(0, 2), True)
        # 2*sigma*a + 1 is a rational square for (a, sigma) = (1.5, 1), (0.75, 2), (3, 0.5), (6, 0.25) ...
        a = rng.choice([0.5, 1.0, 2.0, 1.5, 0.75, 3.0, 6.0])
        r = ['qp', a, rng.choice([None, fc.rvec(rng, n)]), rng.choice([0.0, 1.0, -0.5]), sub]
        w = rng.random()
        if w < 0.2:
            r = ['lscal', rng.choice([2.0, 0.5]), r]
        elif w < 0.4:
            r = ['trans', fc.rvec(rng, n), r]
        out.append(r)
    return out


def lam_fudged(S):
    """`lam = float(lam * (1 - eps))` of proximal_convex_conj_l1 for lam = 1 on this space."""
    try:
        eps = float(np.finfo(getattr(S.space, 'dtype', float)).resolution * 10)
    except Exception:  # noqa
        eps = float(np.finfo(float).resolution * 10)
    return float(1 * (1 - eps))


def moreau(ctx, f, g, S, x, xs, sigma, desc, key0, classes, r, w=None, lines=None, pend=None,
           stream='general'):
    st1, p1 = safe_call(lambda: f.proximal(sigma)(x))
    st2, p2 = safe_call(lambda: g.proximal(1.0 / sigma)(x / sigma))
    if w is not None and lines is not None:
        # MOREAU-MODEL stream: both proximals of the real objects vs the Lean execution of
        # Fn.toProx / Prox.Fn.prox on f and on the coded conjugate Fn.conj f
        fl1 = S.flat(p1) if st1 == 'ok' else None
        fl2 = S.flat(p2) if st2 == 'ok' else None
        lines.append('moreau f={} w={} x={} sigma={} lamf={}'.format(
            w, fc.wl(S), fl(xs), fs(sigma), fs(lam_fudged(S))))
        pend.append(('moreau', dict(desc, sigma=sigma, head=r[0]), (st1, fl1, st2, fl2), stream))
    if st1 != 'ok':
        ctx.hit('moreau-skip:no-prox')
        return
    if st2 != 'ok':
        ctx.hit('moreau-skip:no-conj-prox')
        return
    st, resid = safe_call(lambda: float((p1 + sigma * p2 - x).norm()))
    if st != 'ok':
        ctx.violation('moreau-raises ' + key0, st, desc)
        return
    # pairs whose conjugate proximal the CODE itself defines through the Moreau identity
    # (proximal_convex_conj): the comparison is code-vs-itself there and is labelled as such
    selfref = bool(set(classes) & SELF_REFERENTIAL) or has_default_conj(g)
    kind = 'moreau-selfref' if selfref else 'moreau'
    ctx.case((kind, S.kind, classes) if float(x.norm()) else None)
    ctx.hit(kind + '/' + r[0])
    if not (resid <= 1e-8 * max(1.0, float(x.norm()))):
        ctx.violation('moreau ' + key0,
                      '||prox_(sigma f)(x) + sigma prox_(f*/sigma)(x/sigma) - x|| = {!r} (sigma={})'
                      .format(resid, sigma), dict(desc, sigma=sigma))


def parse_kv(ans):
    out = {}
    for tok in ans.split()[1:]:
        k, _, v = tok.partition('=')
        out[k] = v
    return out


def vec_close(impl, toks, exact):
    """(agrees, exactly) for a float list of the real code vs a rational list of the model."""
    try:
        m = [core.pfrac(t) for t in toks.split(',')] if toks else []
    except Exception:  # noqa
        return False, False
    if len(m) != len(impl) or not all(math.isfinite(v) for v in impl):
        return False, False
    if all(Fraction(a) == b for a, b in zip(impl, m)):
        return True, True
    scale = max([1.0] + [abs(v) for v in impl])
    return all(abs(a - float(b)) <= 1e-11 * scale for a, b in zip(impl, m)), False


def compare_moreau(ctx, desc, impl, ans, stream):
    """Model vs code for the op `moreau`; raises are compared in both directions."""
    st1, p1, st2, p2 = impl
    d2 = dict(desc, op='moreau')
    head = desc.get('head', '?')
    if ans == 'noprox1':
        ctx.hit('moreau-model/noprox1')
        if st1 == 'ok':
            ctx.disagree(d2, 'f.proximal(sigma)(x) = {}'.format(p1), ans)
        return
    if ans == 'noprox2':
        ctx.hit('moreau-model/noprox2')
        if st1 != 'ok' or st2 == 'ok':
            ctx.disagree(d2, 'prox: {} / conj prox: {}'.format(st1, st2), ans)
        return
    if not ans.startswith('ok p1='):
        ctx.disagree(d2, 'prox: {} / conj prox: {}'.format(st1, st2), ans)
        return
    if st1 != 'ok' or st2 != 'ok':
        ctx.disagree(d2, 'raised: prox: {} / conj prox: {}'.format(st1, st2), ans)
        return
    kv = parse_kv(ans)
    ok1, ex1 = vec_close(p1, kv.get('p1', ''), stream == 'exact')
    ok2, ex2 = vec_close(p2, kv.get('p2', ''), stream == 'exact')
    ctx.hit('moreau-model/ok/' + head)
    ctx.hit('moreau-model/' + ('bitwise' if ex1 and ex2 else 'rounded'))
    ctx.case(('moreau-model', desc.get('space'), head) if any(p1) or any(p2) else None)
    if not ok1:
        ctx.disagree(dict(d2, which='prox'), p1, kv.get('p1'))
    if not ok2:
        ctx.disagree(dict(d2, which='conj-prox'), p2, kv.get('p2'))
    # the model's own Moreau left-hand side p1 + sigma p2 against x (instance of the theorems
    # C08.moreau_*; the fudged radius lamf = 1 - 1e-14 moves it by <= sigma * 1e-14)
    okx, _ = vec_close(desc['x'], kv.get('lhs', ''), False)
    if not okx:
        ctx.disagree(dict(d2, which='model-lhs'), desc['x'], kv.get('lhs'))


def compare(ctx, pend, outs):
    for (op, desc, impl, stream), ans in zip(pend, outs):
        d2 = dict(desc, op=op)
        ctx.hit('model/' + op)
        if op == 'moreau':
            compare_moreau(ctx, desc, impl, ans, stream)
            continue
        if op == 'conjraise':
            if ans != 'noconj' or 'ValueError' not in str(impl):
                ctx.disagree(d2, 'raised: ' + str(impl), ans)
                ctx.violation(desc.get('key', 'convex_conj-raises'),
                              'convex_conj raised {} where the documented rules give a conjugate '
                              '(model: {})'.format(impl, ans),
                              {k: v for k, v in desc.items() if k != 'key'})
            continue
        if op == 'conjskel':
            if impl is None:
                if not ans.startswith('ok s='):
                    ctx.disagree(d2, 'conjugate exists (class outside the model)', ans)
            elif ans != 'ok s=' + impl:
                ctx.disagree(d2, impl, ans)
            continue
        if not ans.startswith('ok v='):
            ctx.disagree(d2, impl, ans)
            continue
        tok = ans[len('ok v='):]
        if tok == 'inf':
            ok = impl == float('inf')
        elif tok == 'noeval':
            ok = False
        elif not math.isfinite(impl):
            ok = False
        else:
            m = core.pfrac(tok)
            ok = (Fraction(impl) == m) if stream == 'exact' else close(impl, float(m), 1.0, 1e-9, 1e-9)
        if not ok:
            ctx.disagree(d2, impl, ans)


def run(ctx, deep=False):
    import warnings
    warnings.simplefilter('ignore')   # NumPy RuntimeWarnings at domain boundaries (log 0, x/0)
    np.seterr(all='ignore')
    rng = ctx.rng
    quick = ctx.quick and not deep
    lines, pend = [], []
    n_expr = 70 if quick else 400
    for S in fc.all_spaces():
        for r in class_zoo(rng, S):
            check_expr(ctx, r, S, 'general', lines, pend, n_pts=2 if quick else 4)
        for r in corner_recipes(rng, S):
            ctx.hit('corner/' + '/'.join(fc.recipe_classes(r)[:3]))
            check_expr(ctx, r, S, 'general' if 'quadmat' in fc.recipe_classes(r) else 'exact',
                       lines, pend, n_pts=2)
        for i in range(n_expr):
            exact = rng.random() < 0.6
            r = gen_recipe(rng, S, rng.randint(0, 3 if quick else 4), exact)
            if 'quadmat' in fc.recipe_classes(r):
                exact = False     # np.linalg.inv of the inverse is not exact
            check_expr(ctx, r, S, 'exact' if exact else 'general', lines, pend,
                       n_pts=2 if quick else 3)
    for S in fc.all_spaces():
        for r in default_conj_recipes(rng, S, 8 if quick else 40):
            ctx.hit('default-conj/' + r[0])
            check_expr(ctx, r, S, 'exact', lines, pend, n_pts=2)
    fc.history_stream(ctx, 'C08', 12 if quick else 60)
    fc.wide_stream(ctx, 'C08', 2 if quick else 8)
    fc.forms_stream(ctx, 'C08')
    outs = core.run_driver('C08', lines)
    compare(ctx, pend, outs)
    ctx.extra['model_lines'] = len(lines)


def search(ctx, broken):
    rng = ctx.rng
    lines, pend = [], []
    for S in fc.all_spaces():
        for r in class_zoo(rng, S):
            check_expr(ctx, r, S, 'general', lines, pend, n_pts=4, oracle_only=True)
        for i in range(80):
            r = gen_recipe(rng, S, rng.randint(0, 4), rng.random() < 0.5)
            check_expr(ctx, r, S, 'general', lines, pend, n_pts=3, oracle_only=True)


def replay(ctx, case):
    if case.get('history'):
        return fc.history_replay(case)
    if case.get('wide'):
        return fc.wide_replay(case)
    if case.get('forms'):
        return fc.forms_replay(ctx, case)
    S = fc.get_space(case['space'])
    r = case['recipe']
    st, f = safe_call(fc.build, r, S, True)
    if st != 'ok':
        return 'constructing the functional raised ' + st
    st, g = safe_call(lambda: f.convex_conj)
    if st != 'ok':
        return 'convex_conj raised ' + st
    x, y = S.elem(case['x']), S.elem(case['y'])
    msgs = []
    if r[0] == 'infconv':
        gy = float(g(y))
        dv = float(fc.build(r[1], S).convex_conj(y)) + float(fc.build(r[2], S).convex_conj(y))
        return None if close(gy, dv, 1.0, 1e-9, 1e-9) else \
            'InfimalConvolution conj value {!r} != f*(y)+g*(y) = {!r}'.format(gy, dv)
    if 'sigma' in case:
        s = float(case['sigma'])
        st, resid = safe_call(lambda: float((f.proximal(s)(x) + s * g.proximal(1.0 / s)(x / s) - x).norm()))
        if st != 'ok' or not resid <= 1e-8 * max(1.0, float(x.norm())):
            return 'Moreau residual {}'.format(resid if st == 'ok' else st)
        return None
    st, vals = safe_call(lambda: (float(f(x)), float(g(y)), float(x.inner(y))))
    if st != 'ok':
        return 'evaluation raised ' + st
    fx, gy, xy = vals
    if math.isfinite(fx) and math.isfinite(gy):
        tol = 1e-8 * max(1.0, abs(fx), abs(gy), abs(xy))
        if fx + gy < xy - tol:
            msgs.append('f(x)+f*(y) = {!r} < <x,y> = {!r}'.format(fx + gy, xy))
        if case.get('at_gradient') and abs(fx + gy - xy) > tol:
            msgs.append('at y = grad f(x): f(x)+f*(y) = {!r} != <x,y> = {!r}'.format(fx + gy, xy))
    st, bx = safe_call(lambda: float(g.convex_conj(x)))
    if st == 'ok' and not close(bx, fx, 1.0, 1e-9, 1e-9):
        msgs.append('f**(x) = {!r} != f(x) = {!r}'.format(bx, fx))
    return '; '.join(msgs) or None
