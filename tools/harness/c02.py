"""C02 — inner product, norm and dist obey their axioms and the documented weighting.

Tie to /repo (correspondence): every case is a space built with ODL's own constructors
(tensor / uniform_discr / explicit partitions / nested product spaces, all weighting kinds,
exponents, layouts, size regimes) plus elements on a dyadic grid.  The same space description
and element data go to the Lean driver (Drivers/C02.lean), which evaluates the executable model
`Model/Weighting.lean`: inner products exactly over Gaussian rationals, norms / dists in doubles.
`uniform_discr` spaces are sent as CONSTRUCTOR ARGUMENTS (min, max, n, nodes_on_bdry flags): the
model derives node placement, boundary-cell fractions and the cell volume itself.

Oracle (independent of the model, evaluated on the real code): the axioms (conjugate symmetry,
linearity, positivity, definiteness, Cauchy-Schwarz incl. its equality case, homogeneity,
triangle inequality, norm^2 = inner for p=2, dist = norm(x-y), symmetry of dist) and the
documented weighted sums recomputed with Fractions from the geometry of the partition
(cell sizes = distances between midpoints of neighbouring nodes, outer cells end at the domain
boundary), so that ||1||^2 = volume of the domain.
"""
import itertools
import math
import random
from fractions import Fraction

import numpy as np

from vf import core
from vf.core import fs

RULE = ('a case = (space, elements x,y,z, scalar a) evaluated for inner/norm/dist; signature = '
        '(space kind, weighting kind, exponent class, dtype class, layout, size regime vs the '
        '50000 tensordot threshold, boundary-flag pattern / nesting shape); non-trivial when the '
        'reference value of the inner product or norm is non-zero. uniform_discr spaces (kind U) '
        'are sent to the model as constructor arguments (the model derives node placement, '
        'fractions, cell volume: mkAxis; additionally compared directly with '
        'partition.boundary_cell_fractions / cell_volume through the driver op `info`); spaces '
        'built from an explicit grid inside a larger box (kind G) are sent with fractions '
        'computed by the harness from the node coordinates, i.e. they bypass mkAxis by design.')
TRUSTED = ['NumPy dot/vdot/tensordot/linalg.norm/abs/power/sum/max and BLAS nrm2 modelled as the '
           'exact sums / maxima they specify',
           'custom inner/norm/dist callables are user code: the delegation rules of Custom* and '
           'their composition with the boundary scaling of DiscretizedSpace are modelled '
           '(cInner/cNorm/cDist/cd*, stream custom/*) for three executable callable families; '
           'a custom-weighted space as COMPONENT of a standard product space is not modelled']
ASSUMPTIONS = ['floating-point rounding is outside the model: inner products are compared exactly '
               'on dyadic data with dyadic weights, everything else within 1e-9*scale + 1e-12',
               'np.isclose(frac, 1.0) (skip of the boundary scaling) is idealised in the theorems '
               'as frac = 1; the driver uses the real tolerance',
               'sizes 0 (empty arrays) are outside the model']

INF = float('inf')
RTOL = 1e-9
ATOL = 1e-12
OTOL = 1e-10   # oracle tolerance (relative) where arithmetic is inexact


# ---------------------------------------------------------------------------
# space descriptions (plain tuples, JSON-able after `jsonable`)
#   ('T', shape, dtype, layout, wt, p)        wt: None | ('c', float) | ('a', nested list)
#   ('U', specs, dtype, layout, wt, p)        specs: [(a, b, n, l, r)]; wt None = default
#   ('G', coords, mins, maxs, dtype, wt, p)   uniform grid inside an arbitrary enclosing box
#   ('N', coords, dtype, wt, p)               non-uniform partition (fractions are ignored)
#   ('P', comps, wt, p)                       wt: None | ('c', float) | ('a', [floats])

def pw(p):
    if p == 1:
        return '1'
    if p == 2:
        return '2'
    if p == INF:
        return 'inf'
    return 'g' + fs(p)


def pclass(p):
    return pw(p) if p in (1, 2, INF) else 'gen'


def d_wt(d):
    return {'T': 4, 'U': 4, 'G': 5, 'N': 3, 'P': 2}[d[0]]


def d_p(d):
    return d[{'T': 5, 'U': 5, 'G': 6, 'N': 4, 'P': 3}[d[0]]]


def d_dtype(d):
    return np.dtype(d[{'T': 2, 'U': 2, 'G': 4, 'N': 2}[d[0]]])


def leaf_shape(d):
    k = d[0]
    if k == 'T':
        return tuple(d[1])
    if k == 'U':
        return tuple(s[2] for s in d[1])
    return tuple(len(cv) for cv in d[1])


def leaf_layout(d):
    return d[3] if d[0] in ('T', 'U') else 'C'


def F(x):
    return Fraction(float(x))


def tw_wire(wt):
    if wt is None:
        return 'c1'
    if wt[0] == 'c':
        return 'c' + fs(wt[1])
    return 'a' + core.fl(np.asarray(wt[1], dtype=float).ravel(order='C').tolist())


def cell_sizes(nodes, a, b):
    n = len(nodes)
    bounds = [a] + [(nodes[i] + nodes[i + 1]) / 2 for i in range(n - 1)] + [b]
    return [bounds[i + 1] - bounds[i] for i in range(n)]


def axis_geom(d):
    """Per axis (cell sizes, stride, extent) with Fractions, from the documented geometry."""
    out = []
    if d[0] == 'U':
        for a, b, n, l, r in d[1]:
            a, b = F(a), F(b)
            if n == 1:
                out.append(([b - a], b - a, b - a))
                continue
            hl = Fraction(0) if l else Fraction(1, 2)
            hr = Fraction(0) if r else Fraction(1, 2)
            h = (b - a) / (n - 1 + hl + hr)
            nodes = [a + hl * h + i * h for i in range(n)]
            out.append((cell_sizes(nodes, a, b), h, b - a))
    else:  # 'G'
        for cv, a, b in zip(d[1], d[2], d[3]):
            a, b = F(a), F(b)
            nodes = [F(v) for v in cv]
            if len(nodes) == 1:
                out.append(([b - a], b - a, b - a))
            else:
                h = (nodes[-1] - nodes[0]) / (len(nodes) - 1)
                out.append((cell_sizes(nodes, a, b), h, b - a))
    return out


def wire(d):
    k = d[0]
    if k == 'T':
        return 'T~{}~{}~{}'.format(int(np.prod(d[1])), pw(d[5]), tw_wire(d[4]))
    if k == 'U':
        _, specs, dtype, layout, wt, p = d
        toks = ['U', pw(p), 'def' if wt is None else tw_wire(wt), str(len(specs))]
        for a, b, n, l, r in specs:
            toks += [fs(a), fs(b), str(n), str(int(l)), str(int(r))]
        return '~'.join(toks)
    if k == 'G':
        _, coords, mins, maxs, dtype, wt, p = d
        geom = axis_geom(d)
        if wt is None:
            vol = Fraction(1)
            for sizes, h, ext in geom:
                vol *= h
            w = 'c1' if p == INF else 'c' + fs(vol)
        else:
            w = tw_wire(wt)
        toks = ['D', '1', pw(p), w, str(len(geom))]
        for sizes, h, ext in geom:
            n = len(sizes)
            if n == 1:
                toks += ['1', '1', '1']
            else:
                toks += [str(n), fs(sizes[0] / h), fs(sizes[-1] / h)]
        return '~'.join(toks)
    if k == 'N':
        _, coords, dtype, wt, p = d
        toks = ['D', '0', pw(p), tw_wire(wt), str(len(coords))]
        for cv in coords:
            toks += [str(len(cv)), '1', '1']
        return '~'.join(toks)
    if k == 'P':
        _, comps, wt, p = d
        w = 'c1' if wt is None else ('c' + fs(wt[1]) if wt[0] == 'c' else 'a' + core.fl(wt[1]))
        return '~'.join(['P', str(len(comps)), pw(p), w] + [wire(c) for c in comps])
    raise KeyError(k)


def _kw(wt, p, dtype='float64'):
    kw = {}
    if wt is not None:
        dt = np.dtype(dtype)
        wdt = np.empty(0, dtype=dt).real.dtype   # weights must be castable to the space dtype
        if wt[0] == 'a':
            warr = np.asarray(wt[1], dtype=wdt)
            # optional third entry: memory layout of the weight array itself
            kw['weighting'] = np.asfortranarray(warr) if len(wt) > 2 and wt[2] == 'F' else warr
        else:
            kw['weighting'] = wt[1]
    if p != 2:
        kw['exponent'] = p
    return kw


def build(d):
    import odl
    k = d[0]
    if k == 'T':
        return odl.tensor_space(tuple(d[1]), dtype=d[2], **_kw(d[4], d[5], d[2]))
    if k == 'U':
        _, specs, dtype, layout, wt, p = d
        return odl.uniform_discr([s[0] for s in specs], [s[1] for s in specs],
                                 tuple(s[2] for s in specs), dtype=dtype,
                                 nodes_on_bdry=[(bool(s[3]), bool(s[4])) for s in specs],
                                 **_kw(wt, p, dtype))
    if k == 'G':
        _, coords, mins, maxs, dtype, wt, p = d
        grid = odl.RectGrid(*[np.asarray(cv, dtype=float) for cv in coords])
        part = odl.RectPartition(odl.IntervalProd(list(mins), list(maxs)), grid)
        return odl.uniform_discr_frompartition(part, dtype=dtype, **_kw(wt, p, dtype))
    if k == 'N':
        _, coords, dtype, wt, p = d
        part = odl.nonuniform_partition(*[np.asarray(cv, dtype=float) for cv in coords])
        tsp = odl.tensor_space(part.shape, dtype=dtype, **_kw(wt, p, dtype))
        return odl.DiscretizedSpace(part, tsp)
    if k == 'P':
        _, comps, wt, p = d
        kw = {}
        if wt is not None:
            kw['weighting'] = wt[1]
        if p != 2:
            kw['exponent'] = p
        return odl.ProductSpace(*[build(c) for c in comps], **kw)
    raise KeyError(k)


def leaf_weights(d):
    """Documented quadrature weights of a leaf space, flat C order, as Fractions (for exponent
    inf: the factors of the weighted sup norm).  Independent of the Lean model."""
    k = d[0]
    shape = leaf_shape(d)
    size = int(np.prod(shape))
    wt, p = d[d_wt(d)], d_p(d)
    if wt is None:
        given = None
    elif wt[0] == 'c':
        given = [F(wt[1])] * size
    else:
        given = [F(v) for v in np.asarray(wt[1], dtype=float).ravel(order='C')]
    if k in ('T', 'N'):
        return given if given is not None else [Fraction(1)] * size
    geom = axis_geom(d)
    if p == INF:
        return given if given is not None else [Fraction(1)] * size
    out = []
    for pos, idx in enumerate(itertools.product(*[range(n) for n in shape])):
        v = Fraction(1) if given is None else given[pos]
        for ax, i in enumerate(idx):
            sizes, h, ext = geom[ax]
            # default: product of cell sizes; explicit weighting: times the cell fraction
            v *= sizes[i] if given is None else (sizes[i] / h if len(sizes) > 1 else 1)
        out.append(v)
    return out



def axis_fracs(d):
    """[(frac_l, frac_r)] of a uniform-grid discretized description (Fractions; (1, 1) for a
    one-node axis)."""
    out = []
    for sizes, h, ext in axis_geom(d):
        out.append((Fraction(1), Fraction(1)) if len(sizes) == 1 else (sizes[0] / h, sizes[-1] / h))
    return out


def _isclose1(f):
    return abs(float(f) - 1.0) <= 1e-8 + 1e-5


def near1(d):
    """Some boundary fraction lies within np.isclose's tolerance of 1 without being 1 (the
    code then skips the scaling of that side: ODL's documented fuzziness, not a violation)."""
    if d[0] == 'P':
        return any(near1(c) for c in d[1])
    if d[0] not in ('U', 'G'):
        return False
    return any(f != 1 and abs(float(f) - 1.0) < 1e-4 for fr in axis_fracs(d) for f in fr)


def scaled(d):
    """Does the code scale the boundary entries of this leaf (independent re-statement of
    `is_uniform and not is_uniformly_weighted`)?"""
    if d[0] not in ('U', 'G') or d_p(d) == INF:
        return False
    return not all(_isclose1(f) for fr in axis_fracs(d) for f in fr)



def corner_indices(d):
    """Flat C-order indices of the entries of a uniform-grid leaf that lie on a SCALED boundary
    side (fraction not close to 1) in at least two axes (edges / corners)."""
    if d[0] not in ('U', 'G') or not scaled(d):
        return []
    shape = leaf_shape(d)
    fr = axis_fracs(d)
    out = []
    for pos, idx in enumerate(itertools.product(*[range(n) for n in shape])):
        cnt = 0
        for ax, i in enumerate(idx):
            n = shape[ax]
            if n > 1 and ((i == 0 and not _isclose1(fr[ax][0])) or
                          (i == n - 1 and not _isclose1(fr[ax][1]))):
                cnt += 1
        if cnt >= 2:
            out.append(pos)
    return out


def stratum_hits(ctx, d, op, vals):
    """Record that `op` was evaluated (real code and model) on a discretized leaf with boundary
    nodes on >= 2 axes and a non-zero value at an edge/corner entry."""
    if d[0] not in ('U', 'G'):
        return
    ci = corner_indices(d)
    if not ci or not any(vals[i] != 0 for i in ci):
        return
    nd = '3d' if len(leaf_shape(d)) >= 3 else '2d'
    p = d_p(d)
    if op == 'norm':
        op = 'norm-p2' if p == 2 else 'norm-pfinite'
    ctx.hit('stratum/discr-{}/bdry-axes>=2/nonzero-corner/{}'.format(op, nd))


STRATA = ['stratum/discr-{}/bdry-axes>=2/nonzero-corner/{}'.format(op, nd)
          for op in ('inner', 'norm-p2', 'norm-pfinite', 'dist') for nd in ('2d', '3d')]

def _wkind(wt):
    return 'const' if wt is None or wt[0] == 'c' else 'arr'


def branches_of(d, op):
    """Keys of the model branches (functions x match arms of Model/Weighting.lean) that the
    evaluation of `op` on the space `d` runs through."""
    k = d[0]
    pc = pclass(d_p(d))
    if k == 'P':
        wk = _wkind(d[2])
        if op == 'inner':
            out = ['pInner/' + wk]
            for c in d[1]:
                out += branches_of(c, 'inner')
            return out
        if op == 'dist' and wk == 'const':
            out = ['pDistConst/' + pc]
        else:
            out = (['pDist/arr->norm'] if op == 'dist' else []) + ['pNorm/{}/{}'.format(wk, pc)]
        for c in d[1]:
            out += branches_of(c, 'norm')
        return out
    wk = _wkind(d[d_wt(d)])
    code = []
    if op == 'inner':
        # branch of the CODE's _inner_default (one sum in the model)
        size = int(np.prod(leaf_shape(d)))
        code = ['code/_inner_default/' + ('vdot' if np.issubdtype(d_dtype(d), np.complexfloating)
                                          else ('tensordot' if size > 50000 else 'dot'))]
    if k == 'T':
        if op == 'inner':
            return ['tInner/' + wk] + code
        if op == 'dist':
            return ['tDist/const/' + pc] if wk == 'const' else ['tDist/arr->norm',
                                                                'tNorm/arr/' + pc]
        return ['tNorm/{}/{}'.format(wk, pc)]
    sc = 'scaled' if scaled(d) else ('unscaled' if k != 'N' else 'nonuniform')
    out = []
    if k == 'U':
        for a, b, n, l, r in d[1]:
            out.append('mkAxis/' + ('n1' if n == 1 else 'flags{}{}'.format(int(l), int(r))))
        out.append('defaultWeight/' + ('given' if d[4] is not None else
                                        ('inf' if d[5] == INF else 'cellvolume')))
    if near1(d):
        out.append('close1/near-1')
    if op == 'inner':
        return out + ['dInner/{}/{}'.format(sc, wk), 'tInner/' + wk] + code
    if op == 'dist':
        return out + ['dDist/{}/{}'.format(sc, wk)] + (
            ['tDist/const/' + pc] if wk == 'const' else ['tDist/arr->norm', 'tNorm/arr/' + pc])
    return out + ['dNorm/{}/{}'.format(sc, wk), 'tNorm/{}/{}'.format(wk, pc)]


def _expected_branches():
    ps = ['1', '2', 'inf', 'gen']
    out = ['code/_inner_default/dot', 'code/_inner_default/vdot',
           'code/_inner_default/tensordot', 'tInner/const', 'tInner/arr', 'pInner/const', 'pInner/arr', 'tDist/arr->norm',
           'pDist/arr->norm', 'inner/notimpl', 'inner/notimpl/top', 'inner/notimpl/nested',
           'close1/near-1', 'info/uniformDiscr',
           'defaultWeight/given', 'defaultWeight/inf', 'defaultWeight/cellvolume',
           'mkAxis/n1', 'mkAxis/flags00', 'mkAxis/flags01', 'mkAxis/flags10', 'mkAxis/flags11',
           'dDist/nonuniform/const', 'dNorm/nonuniform/const', 'dInner/nonuniform/const']
    for wk in ['const', 'arr']:
        for pc in ps:
            out += ['tNorm/{}/{}'.format(wk, pc), 'pNorm/{}/{}'.format(wk, pc)]
        for sc in ['scaled', 'unscaled']:
            out += ['dInner/{}/{}'.format(sc, wk), 'dNorm/{}/{}'.format(sc, wk),
                    'dDist/{}/{}'.format(sc, wk)]
    for pc in ps:
        out += ['tDist/const/' + pc, 'pDistConst/' + pc]
    return out


_EXPECTED_STATIC = _expected_branches() + STRATA + [
    'history/shared-grid/single-point-axis', 'history/shared-grid/regular',
    'history/shared-partition', 'history/shared-weighting/tensor',
    'history/shared-weighting/pspace', 'history/requery-after-other-space',
    'stratum/single-point-axis/U', 'stratum/single-point-axis/G',
    'model/inner-one-one/U', 'model/inner-one-one/G'] + [
    'size/{}/{}/{}/{}'.format(side, dt, wk, fn)
    for side in ('large', 'threshold')
    for dt in ('float32', 'float64', 'complex64', 'complex128', 'int64')
    for wk in ('none', 'const', 'array') for fn in ('inner', 'norm', 'dist')]

def is_exact(d):
    """All weights dyadic with few bits: float arithmetic of inner products is exact."""
    if d[0] == 'P':
        wt = d[2]
        ws = [] if wt is None else ([wt[1]] if wt[0] == 'c' else list(wt[1]))
        return all(_dy(w) for w in ws) and all(is_exact(c) for c in d[1])
    if d_dtype(d) in (np.dtype('float32'), np.dtype('complex64')):
        if int(np.prod(leaf_shape(d))) > 2000:
            return False
    ws = leaf_weights(d)
    return all(_dy(w) for w in set(ws))


def _dy(x):
    f = x if isinstance(x, Fraction) else F(x)
    return (f.denominator & (f.denominator - 1)) == 0 and f.denominator <= 4096 and \
        abs(f.numerator) < (1 << 20)


def single(d):
    if d[0] == 'P':
        return any(single(c) for c in d[1])
    return d_dtype(d) in (np.dtype('float32'), np.dtype('complex64'))


def is_int(d):
    if d[0] == 'P':
        return any(is_int(c) for c in d[1])
    return np.issubdtype(d_dtype(d), np.integer)


def is_complex(d):
    if d[0] == 'P':
        return is_complex(d[1][0])
    return np.issubdtype(d_dtype(d), np.complexfloating)


# ---------------------------------------------------------------------------
# elements

def rand_leaf_vals(d, rng, mode):
    size = int(np.prod(leaf_shape(d)))
    dt = d_dtype(d)
    big = size > 2000
    lim = 3 if big or np.issubdtype(dt, np.integer) else 24
    den = 1 if big or np.issubdtype(dt, np.integer) else 8
    if mode == 'zero':
        re = [0] * size
        im = [0] * size
    elif mode == 'spike':      # one non-zero entry, preferably in a corner
        re = [0] * size
        im = [0] * size
        re[rng.choice([0, size - 1, rng.randrange(size)])] = rng.choice([1, -2, 4])
    elif mode == 'corner':     # non-zero only in the two extreme corners of the array
        re = [0] * size
        im = [0] * size
        re[0], re[-1] = rng.choice([1, 2, -3]) * den, rng.choice([1, -2, 4]) * den
    elif mode == 'one':
        re = [den] * size
        im = [0] * size
    else:
        r = np.random.RandomState(rng.getrandbits(32))
        re = r.randint(-lim, lim + 1, size=size).tolist()
        im = r.randint(-lim, lim + 1, size=size).tolist()
    if np.issubdtype(dt, np.complexfloating):
        arr = (np.array(re, dtype=float) + 1j * np.array(im, dtype=float)) / den
    else:
        arr = np.array(re, dtype=float) / den
    return arr.astype(dt)


def make_elem(d, space, rng, mode, flip=False):
    """(odl element, flat list of complex values in depth-first C order).  `flip` gives the
    element the opposite memory layout (mixed C/F operands)."""
    if d[0] == 'P':
        parts, flat = [], []
        for c, sp in zip(d[1], space.spaces):
            e, f = make_elem(c, sp, rng, mode, flip)
            parts.append(e)
            flat.extend(f)
        return space.element(parts), flat
    vals = rand_leaf_vals(d, rng, mode)
    arr = vals.reshape(leaf_shape(d))
    lay = leaf_layout(d)
    if flip:
        lay = 'C' if lay == 'F' else 'F'
    arr = np.asfortranarray(arr) if lay == 'F' else np.ascontiguousarray(arr)
    return space.element(arr), vals.tolist()


def flat_of(x):
    import odl
    if isinstance(x.space, odl.ProductSpace):
        out = []
        for p in x:
            out.extend(flat_of(p))
        return out
    return np.asarray(x.asarray()).ravel(order='C').tolist()


def cwire(vals):
    out = []
    for z in vals:
        if isinstance(z, complex):
            out.append(fs(z.real) if z.imag == 0 else fs(z.real) + ':' + fs(z.imag))
        else:
            out.append(fs(z))
    return ','.join(out) if out else '-'


def cfrac(z):
    if isinstance(z, (complex, np.complexfloating)):
        z = complex(z)
        return (Fraction(z.real), Fraction(z.imag))
    return (core.frac(z), Fraction(0))


# ---------------------------------------------------------------------------
# reference values (documented formulas, Fractions)

def split_flat(d, flat):
    """Split a flat list according to the components of a product description."""
    out, pos = [], 0
    for c in d[1]:
        n = flat_size(c)
        out.append(flat[pos:pos + n])
        pos += n
    return out


def flat_size(d):
    if d[0] == 'P':
        return sum(flat_size(c) for c in d[1])
    return int(np.prod(leaf_shape(d)))


def p_weights(d):
    wt = d[2]
    m = len(d[1])
    if wt is None:
        return [Fraction(1)] * m
    if wt[0] == 'c':
        return [F(wt[1])] * m
    return [F(w) for w in wt[1]]


def ref_inner(d, X, Y):
    """Documented inner product: (re, im) Fractions."""
    if d[0] == 'P':
        re = im = Fraction(0)
        for c, w, xs, ys in zip(d[1], p_weights(d), split_flat(d, X), split_flat(d, Y)):
            r, i = ref_inner(c, xs, ys)
            re += w * r
            im += w * i
        return re, im
    ws = leaf_weights(d)
    re = im = Fraction(0)
    for w, x, y in zip(ws, X, Y):
        if w == 0 or (x == 0) or (y == 0):
            continue
        xr, xi = cfrac(x)
        yr, yi = cfrac(y)
        re += w * (xr * yr + xi * yi)
        im += w * (xi * yr - xr * yi)
    return re, im


def ref_norm(d, X):
    """Documented weighted p-norm as a float."""
    p = d_p(d)
    if d[0] == 'P':
        ns = [ref_norm(c, xs) for c, xs in zip(d[1], split_flat(d, X))]
        ws = [float(w) for w in p_weights(d)]
        if p == INF:
            return max(w * n for w, n in zip(ws, ns))
        return math.fsum(w * n ** p for w, n in zip(ws, ns)) ** (1.0 / p)
    ws = leaf_weights(d)
    if p == 2:
        tot = Fraction(0)
        for w, x in zip(ws, X):
            if x != 0:
                xr, xi = cfrac(x)
                tot += w * (xr * xr + xi * xi)
        return math.sqrt(tot)
    if p == INF:
        return max([float(w) * abs(x) for w, x in zip(ws, X)] or [0.0])
    return math.fsum(float(w) * abs(x) ** p for w, x in zip(ws, X)) ** (1.0 / p)


def has_inner(d):
    if d_p(d) != 2:
        return False
    return all(has_inner(c) for c in d[1]) if d[0] == 'P' else True


def volume(d):
    v = Fraction(1)
    for sizes, h, ext in axis_geom(d):
        v *= ext
    return v


# ---------------------------------------------------------------------------
# the space zoo

def dy_weights(rng, n):
    return [rng.choice([0.5, 1.0, 2.0, 0.25, 3.0, 1.5]) for _ in range(n)]


def gen_weights(rng, n):
    return [rng.choice([0.1, 0.3, 1.7, 2.5, 1 / 3.0, 7.0]) for _ in range(n)]


def tensor_zoo(ctx, thr):
    rng = ctx.rng
    quick = ctx.quick
    out = []
    shapes_small = [(1,), (3,), (7,), (2, 3), (4, 1, 2), (99,), (10, 10), (101,)]
    big = [(thr,), (thr + 1,), (thr // 250 + 1, 250), (thr - 1,)]
    dtypes = ['float64', 'complex128', 'float32', 'complex64', 'int64']
    ps = [2, 1, INF, 1.5, 3]
    for shape in shapes_small:
        for dt in dtypes:
            for layout in (['C', 'F'] if len(shape) > 1 else ['C']):
                for wk in ['none', 'const', 'array', 'const_gen', 'array_gen']:
                    for p in ps:
                        if quick and rng.random() > (0.35 if p == 2 else 0.12):
                            continue
                        if dt == 'int64' and wk in ('array_gen', 'const_gen'):
                            continue
                        out.append(('T', shape, dt, layout, mk_wt(rng, wk, shape, dt), p))
    # memory layout of the WEIGHT ARRAY x layout of the element x finite exponents, on
    # non-square 2-d / 3-d shapes with generic (non-symmetric) weights: a ravel-order mix-up
    # pairs weights with the wrong entries only when both are F-contiguous
    for shape in [(3, 4), (2, 5), (2, 3, 4), (4, 1, 3)]:
        size = int(np.prod(shape))
        for wl in ['C', 'F']:
            for layout in ['C', 'F']:
                for p in [1, 1.5, 3, 2, INF]:
                    for dt in ['float64', 'complex128']:
                        if dt == 'complex128' and quick and rng.random() > 0.3:
                            continue
                        if p in (2, INF) and quick and rng.random() > 0.4:
                            continue
                        wvals = [rng.choice([0.25, 0.5, 1.0, 1.5, 2.0, 3.0, 5.0, 7.0])
                                 for _ in range(size)]
                        wvals[0], wvals[-1] = 11.0, 0.125   # never transposition-symmetric
                        wt = ('a', np.array(wvals).reshape(shape).tolist(), wl)
                        out.append(('T', shape, dt, layout, wt, p))
    bigs = []
    for shape in big:
        for dt in ['float64', 'complex128', 'float32']:
            for layout in (['C', 'F'] if len(shape) > 1 else ['C']):
                for wk in ['none', 'const', 'array']:
                    for p in [2, 2, 1, 3]:
                        bigs.append(('T', shape, dt, layout, mk_wt(rng, wk, shape, dt), p))
    rng.shuffle(bigs)
    keep = [('T', (thr,), 'float64', 'C', None, 2), ('T', (thr + 1,), 'float64', 'C', None, 2),
            ('T', (thr + 2,), 'float64', 'C', ('c', 0.5), 2),
            ('T', (thr + 1,), 'float32', 'C', None, 2),
            ('T', (thr // 250 + 1, 250), 'float64', 'F', ('c', 2.0), 2),
            ('T', (thr // 250 + 1, 250), 'float64', 'C',
             mk_wt(rng, 'array', (thr // 250 + 1, 250), 'float64'), 2)]
    # one large COMPLEX case is always compared exactly with the model as well (conjugation in
    # the large-size regime)
    keep.append(('T', (thr + 1,), 'complex128', 'C', ('c', 2.0), 2))
    out += (keep[:2] + keep[4:] if quick else keep) + bigs[:(1 if quick else 40)]
    return out


def mk_wt(rng, wk, shape, dt='float64'):
    size = int(np.prod(shape))
    if wk == 'none':
        return None
    if wk == 'const':
        return ('c', rng.choice([0.5, 2.0, 4.0, 0.25, 1.0, 3.0]))
    if wk == 'const_gen':
        return ('c', rng.choice([0.1, 1.7, 1 / 3.0, 12.3]))
    if wk == 'array':
        if size > 2000:
            r = np.random.RandomState(rng.getrandbits(32))
            w = r.choice([0.5, 1.0, 2.0, 4.0], size=size)
        else:
            w = np.array(dy_weights(rng, size))
    else:
        w = np.array(gen_weights(rng, size))
    if dt == 'int64':
        w = np.array([rng.choice([1, 2, 3]) for _ in range(size)], dtype=float)
    return ('a', w.reshape(shape).tolist())


def exact_extent(rng, n, l, r, avoid_one=False):
    """Interval whose uniform partition has dyadic nodes, stride (= k) and fractions."""
    a = rng.choice([0.0, -1.0, 0.5, -2.5])
    if n == 1:
        return a, a + rng.choice([1.0, 0.5, 2.0, 3.0] if not avoid_one else [0.5, 2.0, 3.0])
    k = rng.choice([0.25, 0.5, 1.0, 2.0] if not avoid_one else [0.25, 0.5, 2.0, 4.0])
    if l and r:
        length = (n - 1) * k
    elif l or r:
        length = (2 * n - 1) * k / 2
    else:
        length = n * k
    return a, a + length


def discr_zoo(ctx):
    rng = ctx.rng
    quick = ctx.quick
    out = []
    flags = [(0, 0), (1, 1), (1, 0), (0, 1)]
    # 1-d: all flag combinations x several n x weighting x exponent
    for n in [1, 2, 3, 5, 8]:
        for l, r in flags:
            for wk in ['def', 'def', 'const', 'array', 'one', 'const_gen']:
                for p in [2, 2, 1, INF, 1.5, 3]:
                    for dt in ['float64', 'complex128', 'int64', 'float32', 'complex64']:
                        if quick and rng.random() > ((0.22 if p == 2 else 0.06) *
                                                     (1.0 if dt == 'float64' else 0.5)):
                            continue
                        if dt == 'int64' and wk == 'const_gen':
                            continue
                        exact = rng.random() < 0.7
                        if exact:
                            a, b = exact_extent(rng, n, l, r)
                        else:
                            a = rng.choice([0.0, -1.3, 0.1])
                            b = a + rng.choice([1.0, 0.7, 3.3, 10.0])
                        wt = None if wk == 'def' else (('c', 1.0) if wk == 'one' else
                                                       mk_wt(rng, wk, (n,), dt))
                        out.append(('U', [(a, b, n, l, r)], dt, 'C', wt, p))
    # cell volume exactly 1 with nodes on the boundary (fixed finding C02-F1: the constant 1.0
    # used to be taken for 'unweighted' and the boundary fractions were dropped)
    for n, l, r in [(5, 1, 1), (3, 1, 0), (4, 0, 1)]:
        length = (n - 1) if (l and r) else (2 * n - 1) / 2.0
        out.append(('U', [(0.0, float(length), n, l, r)], 'float64', 'C', None, 2))
    # integer dtype with nodes on the boundary (fixed finding C02-F5: the scaled boundary values
    # used to be truncated inside an integer copy)
    for n, l, r, p in [(5, 1, 1, 2), (4, 1, 0, 2), (3, 0, 1, 1), (5, 1, 1, 3)]:
        a, b = exact_extent(rng, n, l, r)
        out.append(('U', [(a, b, n, l, r)], 'int64', 'C', None, p))
    # boundary nodes on >= 2 axes (edges / corners are scaled by the PRODUCT of the fractions:
    # apply_on_boundary(only_once=False)), every exponent class, 2-d and 3-d, fixed in every tier
    for specs_flags in [[(3, 1, 1), (3, 1, 1)], [(3, 0, 1), (4, 1, 0)], [(2, 1, 1), (3, 1, 0)],
                        [(2, 1, 1), (3, 1, 1), (2, 1, 0)], [(3, 0, 1), (2, 1, 0), (3, 1, 1)]]:
        for p in [2, 1, 3, 1.5]:
            for dt in (['float64', 'complex128'] if p == 2 else ['float64']):
                specs = []
                for n, l, r in specs_flags:
                    a, b = exact_extent(rng, n, l, r, avoid_one=True)
                    specs.append((a, b, n, l, r))
                out.append(('U', specs, dt, rng.choice(['C', 'F']), None, p))
    # 2-d: all 16 flag combinations
    combos = list(itertools.product(flags, flags))
    for f0, f1 in combos:
        for rep in range(1 if quick else 4):
            n0, n1 = rng.choice([1, 2, 3, 4]), rng.choice([2, 3, 5])
            if rng.random() < 0.75:
                a0, b0 = exact_extent(rng, n0, *f0)
                a1, b1 = exact_extent(rng, n1, *f1)
            else:
                a0, b0, a1, b1 = -0.3, 1.1, 0.0, 2.7
            wk = rng.choice(['def', 'def', 'def', 'const', 'array'])
            p = rng.choice([2, 2, 2, 1, 3, INF])
            dt = rng.choice(['float64', 'float64', 'complex128', 'float32', 'int64', 'complex64'])
            layout = rng.choice(['C', 'F'])
            wt = None if wk == 'def' else mk_wt(rng, wk, (n0, n1), dt)
            out.append(('U', [(a0, b0, n0) + f0, (a1, b1, n1) + f1], dt, layout, wt, p))
    # 3-d sample
    for rep in range(3 if quick else 24):
        specs = []
        for ax in range(3):
            n = rng.choice([1, 2, 3])
            l, r = rng.choice(flags)
            a, b = exact_extent(rng, n, l, r)
            specs.append((a, b, n, l, r))
        out.append(('U', specs, rng.choice(['float64', 'float64', 'int64', 'float32']),
                    rng.choice(['C', 'F']), None, rng.choice([2, 2, 1])))
    # boundary fractions on both sides of np.isclose's tolerance around 1 (|f - 1| <= 1e-5 + 1e-8
    # skips the scaling of that side; np.allclose over all sides decides is_uniformly_weighted)
    for eps in [5e-6, -5e-6, 2e-5, -2e-5]:
        for p in [2, 1, 3]:
            cv = [0.0, 1.0, 2.0]
            # 1-d: left fraction 1 + eps, right fraction 1/2 resp. exactly 1
            out.append(('G', [cv], [-(0.5 + eps)], [2.0], 'float64', None, p))
            out.append(('G', [cv], [-(0.5 + eps)], [2.5], 'float64', ('c', 2.0), p))
        # 2-d: first axis exactly 1 on both sides, second axis near 1 / 1
        out.append(('G', [[0.0, 0.5], [0.0, 1.0, 2.0]], [-0.25, -0.5], [0.75, 2.5 + eps],
                    'float64', None, 2))
    # uniform grid inside a larger box: arbitrary fractions >= 1/2
    for rep in range(14 if quick else 60):
        nd = rng.choice([1, 1, 2])
        coords, mins, maxs = [], [], []
        for ax in range(nd):
            n = rng.choice([1, 2, 3, 4])
            h = rng.choice([0.5, 1.0, 0.25])
            g0 = rng.choice([0.0, -1.0, 0.5])
            cv = [g0 + i * h for i in range(n)]
            coords.append(cv)
            mins.append(g0 - rng.choice([0.0, 0.125, 0.25, 0.5, 1.0]) * h * 2)
            maxs.append(cv[-1] + rng.choice([0.0, 0.125, 0.25, 0.5, 1.0]) * h * 2)
            if n == 1 and maxs[-1] == mins[-1]:
                maxs[-1] += 1.0
        wk = rng.choice(['def', 'def', 'const', 'array'])
        shape = tuple(len(cv) for cv in coords)
        wt = None if wk == 'def' else mk_wt(rng, wk, shape)
        out.append(('G', coords, mins, maxs, rng.choice(['float64', 'complex128']), wt,
                    rng.choice([2, 2, 1, 3, INF])))
    # non-uniform partitions: tensor-space weighting only
    for rep in range(6 if quick else 12):
        cv = sorted(rng.sample([0.0, 0.5, 1.0, 2.0, 2.25, 4.0, 5.0], rng.choice([3, 4])))
        out.append(('N', [cv], 'float64',
                    mk_wt(rng, ['const', 'array', 'none'][rep % 3], (len(cv),)),
                    [2, 2, 1, INF, 2, 1.5][rep % 6]))
    return out


def pspace_zoo(ctx, thr):
    rng = ctx.rng
    quick = ctx.quick
    out = []

    def leaf(cplx, p):
        k = rng.choice(['T', 'T', 'U'])
        dt = 'complex128' if cplx else rng.choice(['float64', 'float64', 'float32'])
        if k == 'T':
            shape = rng.choice([(1,), (2,), (3,), (2, 2), (101,)])
            return ('T', shape, dt, rng.choice(['C', 'F']) if len(shape) > 1 else 'C',
                    mk_wt(rng, rng.choice(['none', 'const', 'array']), shape), p)
        n = rng.choice([2, 3])
        l, r = rng.choice([(0, 0), (1, 1), (1, 0)])
        a, b = exact_extent(rng, n, l, r, avoid_one=rng.random() < 0.9)
        return ('U', [(a, b, n, l, r)], 'complex128' if cplx else 'float64', 'C', None, p)

    def pwt(m, gen=False):
        k = rng.choice(['none', 'const', 'array'])
        if k == 'none':
            return None
        if k == 'const':
            return ('c', rng.choice([0.5, 2.0, 4.0] if not gen else [0.3, 1.7]))
        return ('a', dy_weights(rng, m) if not gen else gen_weights(rng, m))

    def tree(depth, cplx, p_all):
        m = rng.choice([1, 2, 3])
        comps = []
        for _ in range(m):
            p = p_all if p_all is not None else rng.choice([1, 2, INF, 1.5])
            if depth > 0 and rng.random() < 0.45:
                comps.append(tree(depth - 1, cplx, p_all))
            else:
                comps.append(leaf(cplx, p))
        p = p_all if p_all is not None else rng.choice([1, 2, INF, 1.5, 3])
        return ('P', comps, pwt(m, gen=rng.random() < 0.2), p)

    # systematic cross: weighting kind x exponent x dtype class on flat products
    for wk in ['none', 'const', 'array', 'const_gen']:
        for p in [1, 2, INF, 1.5, 3]:
            for cplx in [False, True]:
                m = rng.choice([2, 3])
                comps = [leaf(cplx, rng.choice([p, 2])) for _ in range(m)]
                if wk == 'none':
                    wt = None
                elif wk == 'const':
                    wt = ('c', rng.choice([0.5, 2.0, 4.0]))
                elif wk == 'const_gen':
                    wt = ('c', rng.choice([0.3, 1.7]))
                else:
                    wt = ('a', [rng.choice([0.5, 2.0, 3.0, 0.25]) for _ in range(m)])
                out.append(('P', comps, wt, p))
    n = 40 if quick else 400
    for i in range(n):
        cplx = rng.random() < 0.3
        # exponent 2 everywhere (inner product defined) in 60% of the trees
        p_all = 2 if rng.random() < 0.6 else None
        out.append(tree(rng.choice([0, 1, 2, 3]), cplx, p_all))
    # exponent 2 on the upper levels, one leaf with another exponent two / three levels down:
    # the inner product must be refused although the queried space has exponent 2
    for pl in [1, INF, 1.5]:
        deep = ('P', [('T', (2,), 'float64', 'C', None, pl)], ('a', [2.0]), 2)
        if pl == 1.5:
            deep = ('P', [deep, ('T', (1,), 'float64', 'C', None, 2)], None, 2)
        out.append(('P', [('T', (3,), 'float64', 'C', ('c', 2.0), 2), deep], ('c', 0.5), 2))
    # power space with a big component (threshold inside a product space)
    out.append(('P', [('T', (thr + 1,), 'float64', 'C', None, 2)] * 2, ('a', [2.0, 0.5]), 2))
    return out


def leaves(d):
    if d[0] == 'P':
        return [l for c in d[1] for l in leaves(c)]
    return [d]


def nodes(d):
    return [d] + ([n for c in d[1] for n in nodes(c)] if d[0] == 'P' else [])


def p_tags(d):
    """Marks of the input classes of the known findings inside a product space."""
    tags = []
    if any('cellvol=1' in sig_of(l)[-1] for l in leaves(d)):
        tags.append('cellvol=1')
    for n in nodes(d):
        if n[0] != 'P':
            continue
        if n[3] == 2 and n[1][0][0] == 'P' and len({str(d_dtype(l)) for l in leaves(n[1][0])}) > 1:
            tags.append('first-component-mixed-dtype')
        if n[3] == 2 and not all(has_inner(c) for c in n[1]):
            tags.append('p2-over-non-hilbert')
    return ';'.join(sorted(set(tags)))


def sig_of(d):
    k = d[0]
    if k == 'P':
        def shape(t):
            return '(' + ','.join(shape(c) if c[0] == 'P' else c[0] for c in t[1]) + ')'
        wt = d[2]
        return ('P', shape(d), 'none' if wt is None else wt[0], pclass(d[3]),
                'c' if is_complex(d) else 'r', p_tags(d))
    wt = d[d_wt(d)]
    wk = 'none' if wt is None else wt[0]
    if wt is not None and len(wt) > 2:
        wk += wt[2]            # layout of the weight array
    size = int(np.prod(leaf_shape(d)))
    reg = 'big' if size > 50000 else ('edge' if size >= 49999 else 'small')
    extra = ''
    if k == 'U':
        extra = ';'.join('{}{}{}'.format('1' if s[2] == 1 else 'n', int(s[3]), int(s[4]))
                         for s in d[1])
    if k == 'G':
        extra = str(len(d[1])) + 'd'
    if k in ('U', 'G') and wt is None and d_p(d) != INF:
        geom = axis_geom(d)
        cv = Fraction(1)
        for sizes, h, ext in geom:
            cv *= h
        if float(cv) == 1.0 and any(sz != h for sizes, h, ext in geom for sz in sizes):
            extra += ';cellvol=1'
    return (k, wk, pclass(d_p(d)), str(d_dtype(d)), leaf_layout(d), reg, extra)


# ---------------------------------------------------------------------------
# running one case on the real code

def outcome(f):
    try:
        return ('ok', f())
    except NotImplementedError as e:
        return ('err:notimpl', str(e)[:80])
    except Exception as e:  # noqa
        return ('err:' + type(e).__name__, str(e)[:160])


_REL = [OTOL]


def close(a, b, rel=None, scale=0.0):
    rel = _REL[0] if rel is None else max(rel, _REL[0] if _REL[0] > OTOL else 0)
    return abs(a - b) <= rel * max(abs(a), abs(b), scale) + 1e-300


def jsonable(d):
    if isinstance(d, tuple) or isinstance(d, list):
        return [jsonable(v) for v in d]
    if isinstance(d, float) and d == INF:
        return 'inf'
    if isinstance(d, (np.floating, np.integer)):
        return d.item()
    return d


def unjson(d):
    if isinstance(d, list):
        return tuple(unjson(v) for v in d) if d and isinstance(d[0], str) and \
            d[0] in ('T', 'U', 'G', 'N', 'P', 'c', 'a') else [unjson(v) for v in d]
    if d == 'inf':
        return INF
    return d


def key_of(d, what):
    s = sig_of(d)
    return '{} :: space={}'.format(what, '/'.join(str(t) for t in s))


def run_case(ctx, d, vseed, lines, recs, collect=True, space=None, hist=None):
    """Evaluate one space description on the real code: oracle checks + protocol lines.
    `space`: an already built space that `d` describes (history stream: built from objects
    shared with other spaces); `hist`: label + seed of the history scenario (for key/replay)."""
    rng = random.Random(vseed)
    rep = {'desc': jsonable(d), 'vseed': vseed}
    if hist is not None:
        rep['hist'] = hist
    problems = []

    def bad(what, detail):
        problems.append((what, detail))

    o = outcome(lambda: build(d)) if space is None else ('ok', space)
    if o[0] != 'ok':
        bad('space construction failed', '{} {}'.format(*o))
        return finish(ctx, d, rep, problems, False)
    space = o[1]
    if collect and d[0] == 'U':
        oi = outcome(lambda: impl_info(space))
        lines.append(info_line(d))
        recs.append((d, rep, 'info', oi[1] if oi[0] == 'ok' else oi[0], False, 1.0, RTOL))
    try:
        modes = ['rand', 'rand', 'rand']
        # x, y, z are ALWAYS random (non-zero corners/edges almost surely): they carry the
        # comparison with the documented sums and with the model; a special element (zero,
        # single spike, constant one) is checked in addition, never instead
        special = rng.choice(['zero', 'spike', 'one', 'corner'])
        x, X = make_elem(d, space, rng, 'rand')
        sx, SX = make_elem(d, space, rng, special)
        y, Y = make_elem(d, space, rng, 'rand', flip=rng.random() < 0.4)
        z, Z = make_elem(d, space, rng, 'rand', flip=rng.random() < 0.2)
    except Exception as e:  # noqa
        bad('element creation failed', '{}: {}'.format(type(e).__name__, e))
        return finish(ctx, d, rep, problems, False)
    _REL[0] = 1e-4 if single(d) else (3e-5 if near1(d) else OTOL)
    crt = 1e-4 if single(d) else RTOL      # correspondence tolerance (never relaxed)
    otol = _REL[0]
    cplx = is_complex(d)
    a = rng.choice([2.0, -0.5, 4.0, -1.0, 0.25] + ([1j, -2j, 1 + 1j] if cplx else []))
    if is_int(d):
        a = rng.choice([2, -1, 3, -2])   # integer spaces are closed under integer scalars only
    exact = is_exact(d) and not near1(d)
    hasin = has_inner(d)
    spec = wire(d)
    p = d_p(d)
    scale = max([abs(v) for v in X + Y + Z] + [1.0])
    nontrivial = False

    # ---- inner product
    if hasin:
        o_xy = outcome(lambda: x.inner(y))
        o_yx = outcome(lambda: y.inner(x))
        o_xx = outcome(lambda: x.inner(x))
        o_yy = outcome(lambda: y.inner(y))
        o_zy = outcome(lambda: z.inner(y))
        o_lin = outcome(lambda: (a * x + z).inner(y))
        o_2x = outcome(lambda: x.inner(2 * x))
        if any(o[0] != 'ok' for o in (o_xy, o_yx, o_xx, o_yy, o_zy, o_lin, o_2x)):
            firstbad = [o for o in (o_xy, o_yx, o_xx, o_yy, o_zy, o_lin, o_2x) if o[0] != 'ok'][0]
            bad('inner raised', '{} {}'.format(*firstbad))
        else:
            ixy, iyx, ixx, iyy, izy, ilin, i2x = [complex(o[1]) for o in
                                                   (o_xy, o_yx, o_xx, o_yy, o_zy, o_lin, o_2x)]
            rxy = ref_inner(d, X, Y)
            rxx = ref_inner(d, X, X)
            nontrivial = rxy != (0, 0) or rxx != (0, 0)
            if flat_size(d) <= 2000:
                rzy = ref_inner(d, Z, Y)
                refc = complex(float(rzy[0]), float(rzy[1]))
                if (cfrac(izy) != rzy) if exact else \
                        (not close(izy, refc, scale=math.sqrt(abs(iyy) * max(abs(izy), 1.0)))):
                    bad('inner != documented weighted sum',
                        'inner(z,y)={} expected {}'.format(izy, refc))
            if exact:
                if cfrac(ixy) != rxy:
                    bad('inner != documented weighted sum',
                        'inner(x,y)={} expected {}+{}i'.format(ixy, float(rxy[0]), float(rxy[1])))
                if iyx != ixy.conjugate():
                    bad('inner not conjugate-symmetric', '{} vs {}'.format(ixy, iyx))
                fa = cfrac(a)
                fxy, fzy = cfrac(ixy), cfrac(izy)
                lin = (fa[0] * fxy[0] - fa[1] * fxy[1] + fzy[0], fa[0] * fxy[1] + fa[1] * fxy[0] + fzy[1])
                if cfrac(ilin) != lin:
                    bad('inner not linear in the first argument',
                        'inner(a*x+z,y)={} a={} inner(x,y)={} inner(z,y)={}'.format(ilin, a, ixy, izy))
                if ixx.imag != 0 or ixx.real < 0 or ((ixx.real == 0) != all(v == 0 for v in X)):
                    bad('inner(x,x) not positive definite', 'inner(x,x)={} x zero: {}'.format(
                        ixx, all(v == 0 for v in X)))
                fxx, fyy = cfrac(ixx), cfrac(iyy)
                if fxy[0] ** 2 + fxy[1] ** 2 > fxx[0] * fyy[0]:
                    bad('Cauchy-Schwarz violated', '|{}|^2 > {}*{}'.format(ixy, ixx, iyy))
                f2x = cfrac(i2x)
                if f2x[0] ** 2 + f2x[1] ** 2 != fxx[0] * 4 * fxx[0]:
                    bad('Cauchy-Schwarz equality case fails', 'inner(x,2x)={} inner(x,x)={}'.format(
                        i2x, ixx))
            else:
                sc = max(abs(ixx), abs(iyy), 1e-300)
                ref = complex(float(rxy[0]), float(rxy[1]))
                if not close(ixy, ref, scale=math.sqrt(abs(ixx) * abs(iyy))):
                    bad('inner != documented weighted sum',
                        'inner(x,y)={} expected {}'.format(ixy, ref))
                if not close(iyx, ixy.conjugate(), scale=sc):
                    bad('inner not conjugate-symmetric', '{} vs {}'.format(ixy, iyx))
                if not close(ilin, a * ixy + izy, scale=sc * abs(a) + abs(izy)):
                    bad('inner not linear in the first argument',
                        'inner(a*x+z,y)={} vs {}'.format(ilin, a * ixy + izy))
                if abs(ixx.imag) > otol * abs(ixx) or ixx.real < 0 or \
                        ((ixx.real == 0) != all(v == 0 for v in X)):
                    bad('inner(x,x) not positive definite', 'inner(x,x)={}'.format(ixx))
                if abs(ixy) ** 2 > ixx.real * iyy.real * (1 + otol):
                    bad('Cauchy-Schwarz violated', '|{}|^2 > {}*{}'.format(ixy, ixx, iyy))
            if collect:
                lines.append('inner sp={} x={} y={}'.format(spec, cwire(X), cwire(Y)))
                recs.append((d, rep, 'inner', ixy, exact, scale, crt))
                stratum_hits(ctx, d, 'inner', [u * v for u, v in zip(X, Y)])
    else:
        o_xy = outcome(lambda: x.inner(y))
        if o_xy[0] == 'ok':
            bad('inner defined for exponent != 2', str(o_xy)[:120])
        elif o_xy[0] != 'err:notimpl':
            bad('inner raised', '{} {}'.format(*o_xy))
        if collect and o_xy[0] == 'err:notimpl':
            lines.append('inner sp={} x={} y={}'.format(spec, cwire(X), cwire(Y)))
            recs.append((d, rep, 'inner', 'err:notimpl', True, scale, crt))

    # ---- norm
    o_nx = outcome(lambda: x.norm())
    o_nz = outcome(lambda: z.norm())
    o_nax = outcome(lambda: (a * x).norm())
    o_nxz = outcome(lambda: (x + z).norm())
    if any(o[0] != 'ok' for o in (o_nx, o_nz, o_nax, o_nxz)):
        firstbad = [o for o in (o_nx, o_nz, o_nax, o_nxz) if o[0] != 'ok'][0]
        bad('norm raised', '{} {}'.format(*firstbad))
        if collect and o_nx[0] == 'err:notimpl':
            lines.append('norm sp={} x={}'.format(spec, cwire(X)))
            recs.append((d, rep, 'norm', 'err:notimpl', False, scale, crt))
    else:
        nx, nz, nax, nxz = [float(o[1]) for o in (o_nx, o_nz, o_nax, o_nxz)]
        rn = ref_norm(d, X)
        nontrivial = nontrivial or rn != 0
        if not close(nx, rn):
            bad('norm != documented weighted p-norm', 'norm(x)={!r} expected {!r}'.format(nx, rn))
        if flat_size(d) <= 2000 and not close(nz, ref_norm(d, Z)):
            bad('norm != documented weighted p-norm',
                'norm(z)={!r} expected {!r}'.format(nz, ref_norm(d, Z)))
        if not close(nax, abs(a) * nx):
            bad('norm not absolutely homogeneous', 'norm(a*x)={!r} |a|*norm(x)={!r} a={}'.format(
                nax, abs(a) * nx, a))
        if nxz > (nx + nz) * (1 + otol):
            bad('triangle inequality violated', 'norm(x+z)={!r} > {!r}+{!r}'.format(nxz, nx, nz))
        if nx < 0 or ((nx == 0) != all(v == 0 for v in X)):
            bad('norm not positive definite', 'norm(x)={!r}, x zero: {}'.format(
                nx, all(v == 0 for v in X)))
        if hasin and o_xx[0] == 'ok' and not close(nx * nx, complex(o_xx[1]).real):
            bad('norm^2 != inner(x,x) for exponent 2', '{!r}^2 vs {!r}'.format(nx, o_xx[1]))
        if collect:
            lines.append('norm sp={} x={}'.format(spec, cwire(X)))
            recs.append((d, rep, 'norm', nx, False, scale, crt))
            stratum_hits(ctx, d, 'norm', X)

    # ---- dist
    o_dxy = outcome(lambda: x.dist(y))
    o_dyx = outcome(lambda: y.dist(x))
    o_dxx = outcome(lambda: x.dist(x))
    o_nd = outcome(lambda: (x - y).norm())
    if any(o[0] != 'ok' for o in (o_dxy, o_dyx, o_dxx, o_nd)):
        firstbad = [o for o in (o_dxy, o_dyx, o_dxx, o_nd) if o[0] != 'ok'][0]
        bad('dist raised', '{} {}'.format(*firstbad))
        if collect and o_dxy[0] in ('ok', 'err:notimpl'):
            lines.append('dist sp={} x={} y={}'.format(spec, cwire(X), cwire(Y)))
            recs.append((d, rep, 'dist', float(o_dxy[1]) if o_dxy[0] == 'ok' else 'err:notimpl',
                         False, scale, crt))
    else:
        dxy, dyx, dxx, nd = [float(o[1]) for o in (o_dxy, o_dyx, o_dxx, o_nd)]
        if not close(dxy, nd):
            bad('dist != norm(x-y)', 'dist(x,y)={!r} norm(x-y)={!r}'.format(dxy, nd))
        if not close(dxy, dyx, rel=1e-14):
            bad('dist not symmetric', '{!r} vs {!r}'.format(dxy, dyx))
        if dxx != 0:
            bad('dist(x,x) != 0', repr(dxx))
        if collect and not (ctx.quick and flat_size(d) > 2000):
            # (large arrays: the size regime only concerns _inner_default / nrm2; the quick
            # tier sends their inner and norm lines only)
            lines.append('dist sp={} x={} y={}'.format(spec, cwire(X), cwire(Y)))
            recs.append((d, rep, 'dist', dxy, False, scale, crt))
            stratum_hits(ctx, d, 'dist', [u - v for u, v in zip(X, Y)])

    # ---- the special element: documented sums, definiteness
    szero = all(v == 0 for v in SX)
    if hasin:
        o_sy, o_ss = outcome(lambda: sx.inner(y)), outcome(lambda: sx.inner(sx))
        if o_sy[0] != 'ok' or o_ss[0] != 'ok':
            bad('inner raised', 'special element {}: {} {}'.format(special, o_sy, o_ss)[:200])
        else:
            isy, iss = complex(o_sy[1]), complex(o_ss[1])
            rsy, rss = ref_inner(d, SX, Y), ref_inner(d, SX, SX)
            for got, ref, nm in ((isy, rsy, 'inner(s,y)'), (iss, rss, 'inner(s,s)')):
                refc = complex(float(ref[0]), float(ref[1]))
                if (cfrac(got) != ref) if exact else \
                        (not close(got, refc, scale=math.sqrt(abs(float(rss[0])) * max(
                            abs(complex(o_yy[1])) if o_yy[0] == 'ok' else 1.0, 1e-300)))):
                    bad('inner != documented weighted sum',
                        '{} for the {} element = {} expected {}'.format(nm, special, got, refc))
            if abs(iss.imag) > otol * abs(iss) or iss.real < 0 or ((iss.real == 0) != szero):
                bad('inner(x,x) not positive definite',
                    'inner(s,s)={} for the {} element'.format(iss, special))
    o_ns = outcome(lambda: sx.norm())
    if o_ns[0] != 'ok':
        bad('norm raised', 'special element {}: {}'.format(special, o_ns)[:200])
    else:
        ns, rns = float(o_ns[1]), ref_norm(d, SX)
        if not close(ns, rns):
            bad('norm != documented weighted p-norm',
                'norm(s)={!r} expected {!r} for the {} element'.format(ns, rns, special))
        if ns < 0 or ((ns == 0) != szero):
            bad('norm not positive definite', 'norm(s)={!r} for the {} element'.format(ns, special))

    # ---- <1, 1> = volume of the domain (default weighting, exponent 2)
    if d[0] in ('U', 'G') and d[d_wt(d)] is None and p == 2:
        o11 = outcome(lambda: space.one().inner(space.one()))
        vol = float(volume(d))
        if o11[0] != 'ok':
            bad('inner raised', 'one().inner(one()): {}'.format(o11)[:160])
        elif not close(complex(o11[1]), vol, rel=1e-9 if not near1(d) else 3e-5):
            bad('<1,1> != volume of the domain', 'one().inner(one())={} volume={!r} fractions={}'
                .format(o11[1], vol, outcome(lambda: space.partition.boundary_cell_fractions)[1]))

    # ---- <1, 1> through the model as well (the statement of C02.discr_one_inner_eq_volume,
    # discr_explicit_one_inner and discr_one_inner_with_tolerance): exact comparison
    if collect and d[0] in ('U', 'G') and hasin and flat_size(d) <= 2000 and \
            (d[0] == 'G' or vseed % 3 == 0 or hist is not None):
        o11m = outcome(lambda: space.one().inner(space.one()))
        if o11m[0] == 'ok':
            ones = [1.0] * flat_size(d)
            lines.append('inner sp={} x={} y={}'.format(spec, cwire(ones), cwire(ones)))
            recs.append((d, rep, 'inner', complex(o11m[1]), exact, 1.0, crt))
            ctx.hit('model/inner-one-one/' + d[0])

    # ---- ||1||^p = volume of the domain (default cell-volume weighting)
    if d[0] in ('U', 'G') and d[d_wt(d)] is None and p != INF:
        o1 = outcome(lambda: space.one().norm())
        vol = float(volume(d))
        if o1[0] != 'ok':
            bad('one().norm() raised', str(o1)[:120])
        elif not close(float(o1[1]) ** p, vol, rel=1e-9 if not near1(d) else 3e-5):
            bad('||1||^p != volume of the domain',
                'one().norm()**{}={!r} volume={!r} cell_volume={!r} fractions={}'.format(
                    p, float(o1[1]) ** p, vol, outcome(lambda: space.cell_volume)[1],
                    outcome(lambda: space.partition.boundary_cell_fractions)[1]))
    return finish(ctx, d, rep, problems, nontrivial)


def finish(ctx, d, rep, problems, nontrivial):
    ctx.case(sig_of(d) if nontrivial else None,
             sample={'space': wire(d)[:160]} if flat_size(d) <= 8 else None)
    ctx.hit('space/' + d[0])
    if d[0] in ('U', 'G') and 1 in leaf_shape(d):
        ctx.hit('stratum/single-point-axis/' + d[0])
    for what, detail in problems:
        key = key_of(d, what)
        if 'hist' in rep:
            key += ' :: history=' + rep['hist']['scenario']
        ctx.violation(key, detail[:500], rep)
    return problems


def compare(ctx, recs, outs):
    for (d, rep, op, impl, exact, scale, rtol), ans in zip(recs, outs):
        case = {'op': op, 'space': wire(d)[:300], 'vseed': rep['vseed']}
        if op == 'info':
            compare_info(ctx, d, case, impl, ans)
            continue
        if isinstance(impl, str):
            if ans != impl:
                ctx.disagree(case, impl, ans)
            elif op == 'inner':
                ctx.hit('inner/notimpl')
                if impl == 'err:notimpl':
                    # where the refusal comes from: the space's own exponent, or only a
                    # component somewhere below a chain of exponent-2 product spaces
                    ctx.hit('inner/notimpl/' + ('top' if d_p(d) != 2 else 'nested'))
            continue
        if not ans.startswith('ok v='):
            ctx.disagree(case, impl, ans)
            continue
        for b in branches_of(d, op):
            ctx.hit(b)
        fields = dict(t.split('=', 1) for t in ans.split()[1:])
        tok = fields['v']
        if op == 'inner':
            def pc(t):
                if ':' in t:
                    a, b = [core.pfrac(u) for u in t.split(':')]
                    return a, b
                return core.pfrac(t), Fraction(0)
            mr, mi = pc(tok)
            # the theorems are about the instantiation with the idealised test `frac = 1`:
            # it must give the same value unless a fraction is inside isclose's tolerance
            if not near1(d) and pc(fields.get('vi', '')) != (mr, mi):
                ctx.disagree(case, 'model with np.isclose: ' + tok,
                             'model with frac = 1 (theorems): ' + fields.get('vi', '?'))
            if exact:
                if cfrac(impl) != (mr, mi):
                    ctx.disagree(case, impl, tok)
            else:
                m = complex(float(mr), float(mi))
                if abs(m - impl) > rtol * max(abs(m), abs(impl)) + ATOL * scale:
                    ctx.disagree(case, impl, m)
        else:
            m = float(core.pfrac(tok))
            if abs(m - impl) > rtol * max(abs(m), abs(impl)) + ATOL * scale:
                ctx.disagree(case, repr(impl), repr(m))


def info_line(d):
    """`info` for the geometry of a uniform_discr description (default weighting, p = 2)."""
    g = ('U', d[1], d[2], d[3], None, 2)
    return 'info sp=' + wire(g)


def impl_info(space):
    part = space.partition
    return {'n': [int(n) for n in part.shape],
            'fl': [float(f[0]) for f in part.boundary_cell_fractions],
            'fr': [float(f[1]) for f in part.boundary_cell_fractions],
            'w': float(part.cell_volume)}


def compare_info(ctx, d, case, impl, ans):
    """Model's node count / boundary fractions / cell volume of `uniform_discr` (mkAxis) vs
    partition.shape / boundary_cell_fractions / cell_volume of the real code."""
    if isinstance(impl, str) or not ans.startswith('ok n='):
        ctx.disagree(case, impl, ans)
        return
    ctx.hit('info/uniformDiscr')
    f = dict(t.split('=', 1) for t in ans.split()[1:])
    mn = [int(t) for t in f['n'].split(',')]
    mfl, mfr, mw = core.pfl(f['fl']), core.pfl(f['fr']), core.pfrac(f['w'])
    ok = mn == impl['n']
    for m, i in zip(mfl + mfr + [mw], impl['fl'] + impl['fr'] + [impl['w']]):
        ok = ok and abs(float(m) - i) <= 1e-12 * max(abs(i), 1.0)
    if not ok:
        ctx.disagree(case, impl, ans)


# ---------------------------------------------------------------------------
# custom inner / norm / dist: delegation only (user code is opaque)

def custom_cases(ctx):
    import odl
    rng = ctx.rng
    calls = []

    def my_inner(u, v):
        calls.append(('inner', u, v))
        return 3.0 * float(np.dot(u.data.ravel(), v.data.ravel()))

    def my_norm(u):
        calls.append(('norm', u))
        return 2.0 * float(np.max(np.abs(u.data)))

    def my_dist(u, v):
        calls.append(('dist', u, v))
        return 5.0 * float(np.sum(np.abs(u.data - v.data)))

    def pinner(u, v):
        calls.append(('inner', u, v))
        return 2.0 * sum(float(np.dot(a.data, b.data)) for a, b in zip(u, v))

    zoo = [('rn-inner', lambda: odl.rn(4, inner=my_inner), 'inner'),
           ('rn-norm', lambda: odl.rn(4, norm=my_norm), 'norm'),
           ('rn-dist', lambda: odl.rn(4, dist=my_dist), 'dist'),
           ('discr-inner', lambda: odl.DiscretizedSpace(odl.uniform_partition(0, 1, 4),
                                                           odl.rn(4, inner=my_inner)), 'inner'),
           ('pspace-inner', lambda: odl.ProductSpace(odl.rn(2), odl.rn(2), inner=pinner), 'pinner')]
    for name, mk, kind in zoo:
        problems = []
        o = outcome(mk)
        if o[0] != 'ok':
            ctx.violation('custom {} :: construction'.format(name), str(o)[:200],
                          {'custom': name})
            continue
        sp = o[1]
        vals = lambda: [rng.randint(-8, 8) / 4.0 for _ in range(4)]  # noqa
        if kind == 'pinner':
            x = sp.element([vals()[:2], vals()[:2]])
            y = sp.element([vals()[:2], vals()[:2]])
        else:
            x, y = sp.element(vals()), sp.element(vals())
        flat = lambda e: np.asarray(flat_of(e), dtype=float)  # noqa
        fx, fy = flat(x), flat(y)
        if kind in ('inner', 'pinner'):
            c = 3.0 if kind == 'inner' else 2.0
            exp_in = c * float(np.dot(fx, fy))
            exp_n = math.sqrt(c * float(np.dot(fx, fx)))
            exp_d = math.sqrt(c * float(np.dot(fx - fy, fx - fy)))
            checks = [('inner', lambda: x.inner(y), exp_in), ('norm', lambda: x.norm(), exp_n),
                      ('dist', lambda: x.dist(y), exp_d)]
        elif kind == 'norm':
            checks = [('inner', lambda: x.inner(y), 'err:notimpl'),
                      ('norm', lambda: x.norm(), 2.0 * float(np.max(np.abs(fx)))),
                      ('dist', lambda: x.dist(y), 2.0 * float(np.max(np.abs(fx - fy))))]
        else:
            checks = [('inner', lambda: x.inner(y), 'err:notimpl'),
                      ('norm', lambda: x.norm(), 'err:notimpl'),
                      ('dist', lambda: x.dist(y), 5.0 * float(np.sum(np.abs(fx - fy))))]
        for what, f, expected in checks:
            del calls[:]
            o = outcome(f)
            if isinstance(expected, str):
                if o[0] != expected:
                    problems.append('{}: expected {} got {}'.format(what, expected, o))
            elif o[0] != 'ok' or not close(float(o[1]), expected, rel=1e-12):
                problems.append('{}: expected {!r} got {}'.format(what, expected, o))
            elif not calls:
                problems.append('{}: custom callable was not called'.format(what))
        ctx.case(('custom', name), None)
        ctx.hit('custom/' + kind)
        for pr in problems:
            ctx.violation('custom {} :: delegation'.format(name), pr[:300], {'custom': name})



# ---------------------------------------------------------------------------
# CUSTOM stream: the delegation rules of CustomInner / CustomNorm / CustomDist (weighting.py)
# and their composition with the boundary scaling of DiscretizedSpace, modelled by
# cInner / cNorm / cDist / cdInner / cdNorm / cdDist (Model/Weighting.lean, driver ops
# cinner / cnorm / cdist).  The user callables come from three families the driver can execute:
#   inner = vdot(B v, B u) (non-diagonal Gram matrix), norm = max(w |u|),
#   dist = min(cap, sum(w |u - v|)) (a metric that is not induced by a norm).
# case description: dict(k, ck, dtype, geom, B | w, cap, vseed); geom:
#   T: shape     P: nested list of component sizes     D: list of axes (n, a, b, gmin, gmax) or
#   ('nonuniform', coords)

CUSTOM_K = ['T', 'P', 'D-scaled', 'D-unscaled', 'D-nonuniform']
CUSTOM_STRATA = ['custom/{}/{}/{}'.format(k, ck, op) for k in CUSTOM_K for ck in 'ind'
                 for op in ('inner', 'norm', 'dist')] + [
    'custom/{}/form/{}'.format(k, op) for k in ('T', 'D-scaled') for op in ('inner', 'norm', 'dist')] + [
    'custom/form/inner-xx-not-real', 'custom/form/norm-nan']


def _cflat(u):
    """Flat C-order data of a tensor / discretized / (nested) product space element."""
    if hasattr(u, 'parts'):
        return np.concatenate([_cflat(p) for p in u.parts])
    return np.asarray(u.asarray() if hasattr(u, 'asarray') else u).ravel()


def _ctree_size(t):
    return t if isinstance(t, int) else sum(_ctree_size(c) for c in t)


def _ctree_space(t, dtype):
    import odl
    if isinstance(t, int):
        return odl.tensor_space(t, dtype=dtype)
    return odl.ProductSpace(*[_ctree_space(c, dtype) for c in t])


def _ctree_elem(t, vals, dtype):
    """nested lists matching the tree `t` from the flat list `vals`"""
    if isinstance(t, int):
        return list(vals[:t]), vals[t:]
    out = []
    for c in t:
        e, vals = _ctree_elem(c, vals, dtype)
        out.append(e)
    return out, vals


def custom_callable(c, calls):
    ck = c['ck']
    if ck == 'i':
        B = np.asarray(c['B'], dtype=float)

        Cm = np.asarray(c['C'], dtype=float) if c.get('C') is not None else B

        def f(u, v):
            calls.append('inner')
            return np.vdot(Cm.dot(_cflat(v)), B.dot(_cflat(u)))
        return {'inner': f}
    w = np.asarray(c['w'], dtype=float)
    if ck == 'n':
        def g(u):
            calls.append('norm')
            return float(np.max(w * np.abs(_cflat(u))))
        return {'norm': g}
    cap = float(c['cap'])

    def dd(u, v):
        calls.append('dist')
        return min(cap, float(np.sum(w * np.abs(_cflat(u) - _cflat(v)))))
    return {'dist': dd}


def custom_axes(c):
    """[(n, fl, fr)] as Fractions from the GEOMETRY of the case (node positions and domain):
    boundary cell fraction = (distance node..domain end) / stride + 1/2."""
    out = []
    for n, a, b, gmin, gmax in c['geom']:
        a, b, gmin, gmax = [Fraction(t) for t in (a, b, gmin, gmax)]
        if n == 1:
            out.append((1, Fraction(1), Fraction(1)))
        else:
            h = (gmax - gmin) / (n - 1)
            out.append((n, Fraction(1, 2) + (gmin - a) / h, Fraction(1, 2) + (b - gmax) / h))
    return out


def custom_build(c, calls):
    import odl
    kw = custom_callable(c, calls)
    k, dtype = c['k'], c['dtype']
    if k == 'T':
        return odl.tensor_space(tuple(c['geom']), dtype=dtype, **kw)
    if k == 'P':
        return odl.ProductSpace(*[_ctree_space(t, dtype) for t in c['geom']], **kw)
    if k == 'D-nonuniform':
        part = odl.nonuniform_partition(*[np.asarray(cv, dtype=float) for cv in c['geom']])
    else:
        grid = odl.uniform_grid([g[3] for g in c['geom']], [g[4] for g in c['geom']],
                                [g[0] for g in c['geom']])
        part = odl.RectPartition(odl.IntervalProd([g[1] for g in c['geom']],
                                                  [g[2] for g in c['geom']]), grid)
    return odl.DiscretizedSpace(part, odl.tensor_space(part.shape, dtype=dtype, **kw))


def custom_size(c):
    k = c['k']
    if k == 'T':
        return int(np.prod(c['geom']))
    if k == 'P':
        return _ctree_size(c['geom'])
    if k == 'D-nonuniform':
        return int(np.prod([len(cv) for cv in c['geom']]))
    return int(np.prod([g[0] for g in c['geom']]))


def custom_elem(c, space, vals):
    k = c['k']
    arr = np.asarray(vals, dtype=c['dtype'])
    if k == 'P':
        e, rest = _ctree_elem(c['geom'], list(arr), c['dtype'])
        return space.element(e)
    return space.element(arr.reshape(space.shape))


def custom_wire(c, op, X, Y=None):
    k = c['k']
    n = custom_size(c)
    if k in ('T', 'P'):
        g = 'k={} n={}'.format(k, n)
    elif k == 'D-nonuniform':
        g = 'k=D u=0 ax=' + ';'.join('{},1,1'.format(len(cv)) for cv in c['geom'])
    else:
        g = 'k=D u=1 ax=' + ';'.join('{},{},{}'.format(a[0], fs(a[1]), fs(a[2]))
                                     for a in custom_axes(c))
    if c['ck'] == 'i':
        cu = 'ck=i B=' + core.fmat(c['B'])
        if c.get('C') is not None:
            cu += ' C=' + core.fmat(c['C'])
    elif c['ck'] == 'n':
        cu = 'ck=n w=' + core.fl(c['w'])
    else:
        cu = 'ck=d w={} cap={}'.format(core.fl(c['w']), fs(c['cap']))
    line = '{} {} {} x={}'.format(op, g, cu, cwire(X))
    if Y is not None:
        line += ' y=' + cwire(Y)
    return line


def custom_zoo(ctx):
    rng = ctx.rng
    out = []
    reps = 1 if ctx.quick else 4

    def dy(lo=-8, hi=8, den=4):
        return rng.randint(lo, hi) / float(den)

    for rep in range(reps):
        for k in CUSTOM_K:
            for ck in 'ind':
                c = {'k': k, 'ck': ck}
                c['dtype'] = rng.choice(['float64', 'complex128']) if ck == 'i' else 'float64'
                if k == 'T':
                    c['geom'] = rng.choice([[rng.randint(2, 6)], [2, rng.randint(2, 3)]])
                elif k == 'P':
                    c['geom'] = rng.choice([[rng.randint(1, 3), rng.randint(1, 3)],
                                            [[1, rng.randint(1, 2)], rng.randint(1, 3)],
                                            [2, [[1, 1], 2]]])
                elif k == 'D-nonuniform':
                    nd = rng.choice([1, 2])
                    c['geom'] = [sorted(rng.sample([0.0, 0.5, 0.75, 1.5, 2.0, 3.25, 4.0],
                                                   rng.randint(3, 4))) for _ in range(nd)]
                    if all(np.allclose(np.diff(cv), np.diff(cv)[0]) for cv in c['geom']):
                        c['geom'][0] = [0.0, 0.5, 2.0]
                else:
                    nd = rng.choice([1, 2])
                    geom = []
                    for ax in range(nd):
                        n = rng.randint(2, 4)
                        gmin = float(rng.randint(-2, 2))
                        h = rng.choice([0.5, 1.0, 2.0])
                        gmax = gmin + h * (n - 1)
                        if k == 'D-unscaled':
                            offs = (0.5, 0.5)          # fractions exactly 1
                        else:
                            # fractions 1/2 (node on the boundary), 9/4 (exact square root),
                            # 3/4, 1, 5/2
                            offs = tuple(rng.choice([0.0, 1.75, 0.25, 0.5, 2.0])
                                         for _ in range(2))
                        geom.append((n, gmin - offs[0] * h, gmax + offs[1] * h, gmin, gmax))
                    if k == 'D-scaled' and all(g[1] == g[3] - 0.5 * (g[4] - g[3]) / (g[0] - 1) and
                                               g[2] == g[4] + 0.5 * (g[4] - g[3]) / (g[0] - 1)
                                               for g in geom):
                        g = geom[0]
                        geom[0] = (g[0], g[3], g[2], g[3], g[4])   # left node on the boundary
                    c['geom'] = geom
                n = custom_size(c)
                if ck == 'i':
                    # unit upper/lower triangular mix: invertible, non-diagonal Gram matrix
                    B = [[0.0] * n for _ in range(n)]
                    for i in range(n):
                        B[i][i] = float(rng.choice([1, 2, -1, 0.5]))
                        for j in range(i + 1, n):
                            if rng.random() < 0.6:
                                B[i][j] = float(rng.randint(-2, 2)) / 2.0
                    if n >= 2 and all(B[i][j] == 0 for i in range(n) for j in range(n) if i != j):
                        B[0][n - 1] = 1.0
                    c['B'] = B
                else:
                    c['w'] = [rng.choice([0.5, 1.0, 2.0, 3.0, 0.25]) for _ in range(n)]
                    if ck == 'd':
                        c['cap'] = rng.choice([1.0, 4.0, 16.0, 1024.0])
                c['vseed'] = rng.getrandbits(32)
                out.append(c)
                if ck == 'i' and k in ('T', 'D-scaled'):
                    # NON-admissible user form vdot(C v, B u), C != B, complex data: what does
                    # the code do with inner(x, x) that is not real (two variants: C = B + N
                    # keeps the real part positive for most x, C = -B makes it negative)
                    for variant in ('perturbed', 'negative'):
                        c2 = dict(c)
                        c2['dtype'] = 'complex128'
                        if variant == 'negative':
                            c2['C'] = [[-t for t in row] for row in c['B']]
                        else:
                            Cm = [list(row) for row in c['B']]
                            Cm[n - 1][0] += 1.0
                            if n > 2:
                                Cm[1][0] -= 0.5
                            c2['C'] = Cm
                        c2['form'] = variant
                        c2['vseed'] = rng.getrandbits(32)
                        out.append(c2)
    return out


def custom_scaled(c):
    return c['k'] == 'D-scaled'


def custom_exact(c):
    """All floating-point operations of the code are exact on the case's dyadic data: no
    boundary factor frac ** (1/2) that is irrational."""
    if not custom_scaled(c) or c['ck'] != 'i':
        return True
    for _, fl_, fr_ in custom_axes(c):
        for f in (fl_, fr_):
            r = math.sqrt(float(f))
            if Fraction(r) ** 2 != f:
                return False
    return True


def run_custom_case(ctx, c, lines, recs, collect=True):
    """Oracle on the real code (axioms the docstrings of the Custom* classes promise for the
    derived quantities, NotImplementedError where nothing can be derived, reference values in
    Fractions for spaces without boundary scaling) and the protocol lines for the model."""
    if c.get('C') is not None:
        return run_form_case(ctx, c, lines, recs, collect)
    problems = []
    calls = []
    k, ck = c['k'], c['ck']
    tag = '{}/{}'.format(k, ck)

    def bad(what, detail):
        problems.append((what, detail))
        ctx.violation('custom-stream {} :: {}'.format(tag, what), str(detail)[:400],
                      {'cstream': c})

    o = outcome(lambda: custom_build(c, calls))
    if o[0] != 'ok':
        bad('construction', o)
        return problems
    space = o[1]
    n = custom_size(c)
    vr = random.Random(c['vseed'])
    cplx = c['dtype'] == 'complex128'

    def vals():
        if cplx:
            return [complex(vr.randint(-8, 8) / 4.0, vr.randint(-4, 4) / 2.0) for _ in range(n)]
        return [vr.randint(-8, 8) / 4.0 for _ in range(n)]
    X, Y, Z = vals(), vals(), vals()
    if all(v == 0 for v in X):
        X[0] = 1.0
    a = complex(vr.randint(-4, 4) / 2.0, vr.randint(-2, 2)) if cplx else vr.randint(-6, 6) / 2.0
    if a == 0:
        a = -1.5
    oe = outcome(lambda: [custom_elem(c, space, v) for v in (X, Y, Z)])
    if oe[0] != 'ok':
        bad('element', oe)
        return problems
    x, y, z = oe[1]
    # expected exponent of the weighting (CustomInner 2.0, CustomNorm / CustomDist 1.0)
    oexp = outcome(lambda: float(space.exponent))
    if oexp != ('ok', 2.0 if ck == 'i' else 1.0):
        bad('exponent', oexp)

    def called(op, f, name):
        del calls[:]
        r = outcome(f)
        if r[0] == 'ok' and name not in calls:
            bad(op + '-callable-not-called', calls[:4])
        return r

    def num(r):
        v = r[1]
        return complex(v) if isinstance(v, (complex, np.complexfloating)) else float(v)

    exact = custom_exact(c)
    rel = 0.0 if exact else 1e-12

    def eq(u, v, scale=0.0):
        return abs(u - v) <= rel * max(abs(u), abs(v), scale)

    # ---- inner
    r_in = called('inner', lambda: x.inner(y), 'inner')
    if ck != 'i':
        if r_in[0] != 'err:notimpl':
            bad('inner-must-raise-NotImplementedError', r_in)
    elif r_in[0] != 'ok':
        bad('inner-raises', r_in)
    else:
        ixy = num(r_in)
        o2 = outcome(lambda: (num(('ok', y.inner(x))), num(('ok', x.inner(x))),
                              num(('ok', (a * x + z).inner(y))), num(('ok', z.inner(y))),
                              num(('ok', y.inner(y)))))
        if o2[0] != 'ok':
            bad('inner-raises', o2)
        else:
            iyx, ixx, ilin, izy, iyy = o2[1]
            if not eq(ixy, np.conj(iyx)):
                bad('conj-symmetry', '<x,y>={!r} conj<y,x>={!r} x={} y={}'.format(
                    ixy, np.conj(iyx), X, Y))
            if not eq(ilin, a * ixy + izy, scale=abs(a * ixy) + abs(izy)):
                bad('linearity', '<a x+z,y>={!r} a<x,y>+<z,y>={!r}'.format(ilin, a * ixy + izy))
            if abs(complex(ixx).imag) > rel * abs(ixx) or complex(ixx).real <= 0:
                bad('positivity', '<x,x>={!r} x={}'.format(ixx, X))
            if abs(ixy) ** 2 > complex(ixx).real * complex(iyy).real * (1 + 1e-12):
                bad('cauchy-schwarz', '|<x,y>|^2={!r} <x,x><y,y>={!r}'.format(
                    abs(ixy) ** 2, complex(ixx).real * complex(iyy).real))
            if not custom_scaled(c):
                # documented value: the user's own Gram form, in Fractions
                Bf = [[Fraction(t) for t in row] for row in c['B']]

                def mv(V):
                    return [sum((Bf[i][j] * Fraction(complex(V[j]).real) for j in range(n)),
                                Fraction(0)) + 0 for i in range(n)], \
                           [sum((Bf[i][j] * Fraction(complex(V[j]).imag) for j in range(n)),
                                Fraction(0)) for i in range(n)]
                (xr, xi), (yr, yi) = mv(X), mv(Y)
                ref = (sum(p * q + s * t for p, q, s, t in zip(xr, yr, xi, yi)),
                       sum(s * q - p * t for p, q, s, t in zip(xr, yr, xi, yi)))
                if cfrac(ixy) != ref:
                    bad('inner-reference-value', 'got {!r} want {}'.format(ixy, ref))
            if collect:
                lines.append(custom_wire(c, 'cinner', X, Y))
                recs.append((c, 'inner', ixy, True))
    if ck != 'i' and collect:
        lines.append(custom_wire(c, 'cinner', X, Y))
        recs.append((c, 'inner', r_in[0], True))

    # ---- norm
    r_n = called('norm', lambda: x.norm(), 'inner' if ck == 'i' else 'norm')
    if ck == 'd':
        if r_n[0] != 'err:notimpl':
            bad('norm-must-raise-NotImplementedError', r_n)
    elif r_n[0] != 'ok':
        bad('norm-raises', r_n)
    else:
        nx = float(r_n[1])
        o2 = outcome(lambda: (float((a * x).norm()), float(y.norm()), float((x + y).norm())))
        if o2[0] != 'ok':
            bad('norm-raises', o2)
        else:
            nax, ny, nxy = o2[1]
            tol = 0.0 if (exact and ck == 'n') else 1e-12
            if abs(nax - abs(a) * nx) > tol * max(nax, abs(a) * nx):
                bad('homogeneity', '||a x||={!r} |a| ||x||={!r}'.format(nax, abs(a) * nx))
            if nxy > (nx + ny) * (1 + 1e-12):
                bad('triangle', '||x+y||={!r} ||x||+||y||={!r}'.format(nxy, nx + ny))
            if nx <= 0:
                bad('norm-positivity', '||x||={!r} x={}'.format(nx, X))
            if ck == 'i' and r_in[0] == 'ok':
                ixx = complex(num(('ok', x.inner(x)))).real
                if abs(nx * nx - ixx) > 1e-12 * max(nx * nx, abs(ixx)):
                    bad('norm2-eq-inner', '||x||^2={!r} <x,x>={!r} x={}'.format(nx * nx, ixx, X))
            if ck == 'n' and not custom_scaled(c):
                ref = max(Fraction(wi) * abs(Fraction(v)) for wi, v in zip(c['w'], X))
                if Fraction(nx) != ref:
                    bad('norm-reference-value', 'got {!r} want {}'.format(nx, ref))
        if collect:
            lines.append(custom_wire(c, 'cnorm', X))
            recs.append((c, 'norm', nx, exact))
    if ck == 'd' and collect:
        lines.append(custom_wire(c, 'cnorm', X))
        recs.append((c, 'norm', r_n[0], True))

    # ---- dist
    r_d = called('dist', lambda: x.dist(y), {'i': 'inner', 'n': 'norm', 'd': 'dist'}[ck])
    if r_d[0] != 'ok':
        bad('dist-raises', r_d)
    else:
        dxy = float(r_d[1])
        o2 = outcome(lambda: (float(y.dist(x)), float(x.dist(x)), float(x.dist(z)),
                              float(z.dist(y))))
        if o2[0] != 'ok':
            bad('dist-raises', o2)
        else:
            dyx, dxx, dxz, dzy = o2[1]
            if dyx != dxy:
                bad('dist-symmetry', 'd(x,y)={!r} d(y,x)={!r}'.format(dxy, dyx))
            if dxx != 0.0:
                bad('dist-self', 'd(x,x)={!r}'.format(dxx))
            if dxy > (dxz + dzy) * (1 + 1e-12):
                bad('dist-triangle', 'd(x,y)={!r} d(x,z)+d(z,y)={!r}'.format(dxy, dxz + dzy))
            if ck != 'd':
                onm = outcome(lambda: float((x - y).norm()))
                if onm[0] != 'ok' or not eq(onm[1], dxy):
                    bad('dist-eq-norm-of-difference', 'd(x,y)={!r} ||x-y||={!r}'.format(dxy, onm))
            elif not custom_scaled(c):
                ref = min(Fraction(c['cap']), sum(Fraction(wi) * abs(Fraction(u) - Fraction(v))
                                                  for wi, u, v in zip(c['w'], X, Y)))
                if Fraction(dxy) != ref:
                    bad('dist-reference-value', 'got {!r} want {}'.format(dxy, ref))
        if collect:
            lines.append(custom_wire(c, 'cdist', X, Y))
            recs.append((c, 'dist', dxy, exact))
    ctx.case(('custom-stream', k, ck, c['dtype']), c)
    return problems


def run_form_case(ctx, c, lines, recs, collect=True):
    """A user form that is NOT an inner product (vdot(C v, B u), C != B): no axiom can be
    demanded; the oracle is the documented derivation itself, on the real code:
    norm(x) = sqrt(inner(x, x).real) (nan when that is negative), dist(x, y) = norm(x - y),
    and without boundary scaling inner(x, y) = the user's form in Fractions."""
    import warnings
    problems = []
    calls = []
    k = c['k']

    def bad(what, detail):
        problems.append((what, detail))
        ctx.violation('custom-stream {}/form :: {}'.format(k, what), str(detail)[:400],
                      {'cstream': c})
    o = outcome(lambda: custom_build(c, calls))
    if o[0] != 'ok':
        bad('construction', o)
        return problems
    space = o[1]
    n = custom_size(c)
    vr = random.Random(c['vseed'])
    X = [complex(vr.randint(-8, 8) / 4.0, vr.randint(-4, 4) / 2.0) for _ in range(n)]
    Y = [complex(vr.randint(-8, 8) / 4.0, vr.randint(-4, 4) / 2.0) for _ in range(n)]
    if all(v.imag == 0 for v in X):
        X[0] = complex(X[0].real, 1.5)
    oe = outcome(lambda: [custom_elem(c, space, v) for v in (X, Y)])
    if oe[0] != 'ok':
        bad('element', oe)
        return problems
    x, y = oe[1]
    exact = custom_exact(c)
    with warnings.catch_warnings():
        warnings.simplefilter('ignore')
        r = outcome(lambda: (complex(x.inner(y)), complex(x.inner(x)), float(x.norm()),
                             float(x.dist(y)), float((x - y).norm())))
    if r[0] != 'ok':
        bad('raises', r)
        return problems
    ixy, ixx, nx, dxy, nxy = r[1]
    if ixx.imag != 0:
        ctx.hit('custom/form/inner-xx-not-real')
    if not custom_scaled(c):
        # without boundary scaling inner(x, x) IS the user's value: the documented derivation
        want = math.sqrt(ixx.real) if ixx.real >= 0 else float('nan')
        if not (nx == want or (math.isnan(nx) and math.isnan(want))):
            bad('norm-is-sqrt-of-real-part-of-inner', '||x||={!r} <x,x>={!r}'.format(nx, ixx))
        Bf = [[Fraction(t) for t in row] for row in c['B']]
        Cf = [[Fraction(t) for t in row] for row in c['C']]

        def mv(M, V):
            return ([sum((M[i][j] * Fraction(V[j].real) for j in range(n)), Fraction(0))
                     for i in range(n)],
                    [sum((M[i][j] * Fraction(V[j].imag) for j in range(n)), Fraction(0))
                     for i in range(n)])
        (xr, xi), (yr, yi) = mv(Bf, X), mv(Cf, Y)
        ref = (sum(p * q + s_ * t for p, q, s_, t in zip(xr, yr, xi, yi)),
               sum(s_ * q - p * t for p, q, s_, t in zip(xr, yr, xi, yi)))
        if cfrac(ixy) != ref:
            bad('inner-reference-value', 'got {!r} want {}'.format(ixy, ref))
    # scaled(x) - scaled(y) vs scaled(x - y): identical unless the boundary factor
    # frac ** (1/2) is irrational (then one rounding apart)
    if not (dxy == nxy or (math.isnan(dxy) and math.isnan(nxy)) or
            (not exact and abs(dxy - nxy) <= 1e-12 * max(abs(dxy), abs(nxy)))):
        bad('dist-eq-norm-of-difference', 'd(x,y)={!r} ||x-y||={!r}'.format(dxy, nxy))
    if math.isnan(nx):
        ctx.hit('custom/form/norm-nan')
    if collect:
        lines.append(custom_wire(c, 'cinner', X, Y))
        recs.append((c, 'inner', ixy, True))
        lines.append(custom_wire(c, 'cnorm', X))
        recs.append((c, 'norm', nx, exact))
        lines.append(custom_wire(c, 'cdist', X, Y))
        recs.append((c, 'dist', dxy, exact))
    ctx.case(('custom-stream', k, 'form', c.get('form')), c)
    return problems


def compare_custom(ctx, recs, outs):
    for (c, op, impl, exact), ans in zip(recs, outs):
        case = {'op': 'c' + op, 'cstream': c}
        if isinstance(impl, float) and math.isnan(impl):
            impl = 'err:nonfinite'      # sqrt of a negative real part
        if isinstance(impl, str):
            if ans != impl:
                ctx.disagree(case, impl, ans)
                continue
        elif not ans.startswith('ok v='):
            ctx.disagree(case, impl, ans)
            continue
        elif op == 'inner':
            tok = ans[len('ok v='):]
            mr, mi = ([core.pfrac(u) for u in tok.split(':')] + [Fraction(0)])[:2]
            if cfrac(impl) != (mr, mi):
                ctx.disagree(case, impl, tok)
                continue
        else:
            m = core.pfrac(ans[len('ok v='):])
            if (Fraction(impl) != m) if exact else \
                    (abs(float(m) - impl) > 1e-12 * max(abs(float(m)), abs(impl))):
                ctx.disagree(case, repr(impl), repr(float(m)))
                continue
        ctx.hit('custom/{}/{}/{}'.format(c['k'], 'form' if c.get('C') is not None else c['ck'],
                                         op))


def run_custom(ctx):
    lines, recs = [], []
    for c in custom_zoo(ctx):
        run_custom_case(ctx, c, lines, recs)
    outs = core.run_driver('C02', lines)
    compare_custom(ctx, recs, outs)



# ---------------------------------------------------------------------------
# WEIGHTOBJ stream (round 5): the weighting OBJECTS themselves — npy_weighted_inner/norm/dist
# factories, ==/equiv/__hash__/is_valid of Const/Array/Matrix/Custom weightings of tensor and
# product spaces, MatrixWeighting (validation, is_valid, matrix_decomp, matrix power, sparse),
# is_weighted, space ==/hash, zero().  Oracle: `equiv` means "yields the same result for any
# input" (docstring): it must coincide with equality of the effective weight MATRICES computed
# here in Fractions, be symmetric, be implied by ==, and == must imply equal hashes.

WEIGHTOBJ_STRATA = (
    ['weightobj/factory/{}/{}'.format(f, k) for f in ('inner', 'norm', 'dist')
     for k in ('const', 'array')] +
    ['weightobj/equiv/{}/{}-{}'.format(sp, a, b) for sp in ('tensor',)
     for a in ('const', 'array', 'matrix', 'spmatrix', 'custom')
     for b in ('const', 'array', 'matrix', 'spmatrix', 'custom')] +
    ['weightobj/equiv/pspace/{}-{}'.format(a, b) for a in ('const', 'array', 'custom')
     for b in ('const', 'array', 'custom')] +
    ['weightobj/matrix/' + t for t in (
        'is_valid/pd', 'is_valid/indefinite', 'is_valid/nonhermitian', 'is_valid/cached-eigval',
        'decomp', 'decomp/cached', 'matpow/precomp', 'matpow/precomp-cached-decomp',
        'sparse/notimpl', 'inner-norm-dist/notimpl', 'reject/object', 'reject/ndim',
        'reject/nonsquare', 'reject/sparse-exponent')] +
    ['weightobj/array/is_valid/' + t for t in ('positive', 'nonpositive')] +
    ['weightobj/is_weighted/' + t for t in ('tensor', 'pspace', 'discr')] +
    ['weightobj/space-eq-hash/' + t for t in ('tensor', 'pspace', 'discr')] +
    ['weightobj/zero/' + t for t in ('tensor', 'pspace', 'discr')] +
    ['weightobj/partition/cell_sizes_vecs', 'weightobj/partition/nodes_on_bdry'])


def run_weightobj(ctx, wseed=None):
    import odl
    import scipy.sparse
    from odl.space import npy_tensors as nt, pspace as psp
    from odl.space.weighting import MatrixWeighting
    if wseed is None:
        wseed = ctx.rng.getrandbits(32)
    rng = random.Random(wseed)
    problems = []

    def bad(key, detail):
        problems.append((key, detail))
        ctx.violation('weightobj ' + key, str(detail)[:400], {'weightobj': {'seed': wseed,
                                                                             'key': key}})

    def dyl(n, lo=-8, hi=8):
        return [rng.randint(lo, hi) / 4.0 for _ in range(n)]

    def wl(n):
        return [rng.choice([0.5, 1.0, 2.0, 3.0, 0.25]) for _ in range(n)]

    # ---- 1. factories == the space's own inner/norm/dist == Fractions reference
    for kind in ('const', 'array'):
        for p in (2.0, 1.0, INF, 2.5):
            n = rng.randint(2, 6)
            w = rng.choice([0.5, 2.0, 3.0]) if kind == 'const' else wl(n)
            X, Y = dyl(n), dyl(n)
            o = outcome(lambda: odl.rn(n, weighting=w, exponent=p))
            if o[0] != 'ok':
                bad('factory {} :: space'.format(kind), o)
                continue
            sp = o[1]
            x, y = sp.element(X), sp.element(Y)
            if p == 2.0:
                r = outcome(lambda: (nt.npy_weighted_inner(w)(x, y), sp.inner(x, y)))
                wf = [Fraction(w)] * n if kind == 'const' else [Fraction(t) for t in w]
                ref = sum(a * Fraction(u) * Fraction(v) for a, u, v in zip(wf, X, Y))
                if r[0] != 'ok' or Fraction(float(r[1][0])) != ref or r[1][0] != r[1][1]:
                    bad('factory {} :: npy_weighted_inner'.format(kind), (r, float(ref)))
                ctx.hit('weightobj/factory/inner/' + kind)
            r = outcome(lambda: (nt.npy_weighted_norm(w, exponent=p)(x), sp.norm(x),
                                 nt.npy_weighted_dist(w, exponent=p)(x, y), sp.dist(x, y),
                                 (x - y).norm()))
            if r[0] != 'ok' or r[1][0] != r[1][1] or r[1][2] != r[1][3] or \
                    not close(float(r[1][2]), float(r[1][4])):
                bad('factory {} p={} :: npy_weighted_norm/dist'.format(kind, pw(p)), r)
            ctx.hit('weightobj/factory/norm/' + kind)
            ctx.hit('weightobj/factory/dist/' + kind)

    # ---- 2. == / equiv / hash against effective weight matrices
    def pairs(sp_kind, objs):
        """objs: (kind, object, exponent, effective matrix as tuple of tuples | callable id)"""
        for ku, u, pu, mu in objs:
            for kv, v, pv, mv in objs:
                tag = '{} {}-{}'.format(sp_kind, ku, kv)
                ctx.hit('weightobj/equiv/{}/{}-{}'.format(sp_kind, ku, kv))
                rh = outcome(lambda: (hash(u), hash(v)))
                if rh[0] != 'ok':
                    bad('equiv {} :: hash raises {}'.format(tag, rh[0][4:]), rh)
                r = outcome(lambda: (bool(u.equiv(v)), bool(u == v)))
                if r[0] != 'ok':
                    bad('equiv {} :: equiv raises {}'.format(tag, r[0][4:]), r)
                    continue
                r2 = outcome(lambda: bool(v.equiv(u)))
                if rh[0] != 'ok' or r2[0] != 'ok':
                    continue        # reported under the pair in the other order / above
                r = ('ok', r[1][:1] + (r2[1],) + r[1][1:] + rh[1])
                e, e2, eq_, hu, hv = r[1]
                want = (pu == pv) and mu == mv
                if e != want:
                    bad('equiv {} :: wrong'.format(tag),
                        'equiv={} but effective weights/exponents equal={} ({} p={} vs {} p={})'
                        .format(e, want, mu, pu, mv, pv))
                if e != e2:
                    bad('equiv {} :: not symmetric'.format(tag), (e, e2))
                if eq_ and not e:
                    bad('equiv {} :: == without equiv'.format(tag), r)
                if eq_ and hu != hv:
                    bad('equiv {} :: == with different hashes'.format(tag), r)
                if u is v and not eq_:
                    bad('equiv {} :: object != itself'.format(tag), r)

    def dm(diag):
        n = len(diag)
        return tuple(tuple(Fraction(diag[i]) if i == j else Fraction(0) for j in range(n))
                     for i in range(n))
    n = rng.randint(2, 4)
    c = rng.choice([0.5, 2.0, 3.0])
    arr = wl(n)
    if all(t == arr[0] for t in arr):
        arr[0] = arr[0] * 2
    arr_obj = np.asarray(arr)
    nd = [[2.0 if i == j else (0.5 if abs(i - j) == 1 else 0.0) for j in range(n)]
          for i in range(n)]
    ndm = tuple(tuple(Fraction(t) for t in row) for row in nd)
    f1 = lambda u, v: 0.0  # noqa
    f2 = lambda u, v: 1.0  # noqa
    p2 = rng.choice([1.0, INF, 3.0])
    objs = [('const', nt.NumpyTensorSpaceConstWeighting(c), 2.0, dm([c] * n)),
            ('const', nt.NumpyTensorSpaceConstWeighting(c), 2.0, dm([c] * n)),
            ('const', nt.NumpyTensorSpaceConstWeighting(c * 2), 2.0, dm([c * 2] * n)),
            ('const', nt.NumpyTensorSpaceConstWeighting(c, exponent=p2), p2, dm([c] * n)),
            ('array', nt.NumpyTensorSpaceArrayWeighting(np.full(n, c)), 2.0, dm([c] * n)),
            ('array', nt.NumpyTensorSpaceArrayWeighting(arr_obj), 2.0, dm(arr)),
            ('array', nt.NumpyTensorSpaceArrayWeighting(arr_obj), 2.0, dm(arr)),
            ('array', nt.NumpyTensorSpaceArrayWeighting(np.array([c] + [2 * c] * (n - 1))), 2.0,
             dm([c] + [2 * c] * (n - 1))),
            ('array', nt.NumpyTensorSpaceArrayWeighting(np.array(arr)), 2.0, dm(arr)),
            ('array', nt.NumpyTensorSpaceArrayWeighting(np.array(arr), exponent=p2), p2, dm(arr)),
            ('matrix', MatrixWeighting(np.diag([c] * n), impl='numpy'), 2.0, dm([c] * n)),
            ('matrix', MatrixWeighting(np.diag(arr), impl='numpy'), 2.0, dm(arr)),
            ('matrix', MatrixWeighting(np.array(nd), impl='numpy'), 2.0, ndm),
            ('matrix', MatrixWeighting(np.array(nd), impl='numpy'), 2.0, ndm),
            ('matrix', MatrixWeighting(np.diag(arr), impl='numpy', exponent=1.0), 1.0, dm(arr)),
            ('spmatrix', MatrixWeighting(scipy.sparse.diags([arr], [0]).tocsr(), impl='numpy'),
             2.0, dm(arr)),
            ('spmatrix', MatrixWeighting(scipy.sparse.diags([[c] * n], [0]).tocsr(),
                                         impl='numpy'), 2.0, dm([c] * n)),
            ('spmatrix', MatrixWeighting(scipy.sparse.csr_matrix(np.array(nd)), impl='numpy'),
             2.0, ndm),
            ('custom', nt.NumpyTensorSpaceCustomInner(f1), 2.0, 'f1'),
            ('custom', nt.NumpyTensorSpaceCustomInner(f1), 2.0, 'f1'),
            ('custom', nt.NumpyTensorSpaceCustomInner(f2), 2.0, 'f2'),
            ('custom', nt.NumpyTensorSpaceCustomNorm(f1), 1.0, 'n-f1'),
            ('custom', nt.NumpyTensorSpaceCustomDist(f1), 1.0, 'd-f1')]
    pairs('tensor', objs)
    m = rng.randint(2, 4)
    parr = wl(m)
    if all(t == parr[0] for t in parr):
        parr[0] = parr[0] * 2
    pobjs = [('const', psp.ProductSpaceConstWeighting(c), 2.0, dm([c] * m)),
             ('const', psp.ProductSpaceConstWeighting(c), 2.0, dm([c] * m)),
             ('const', psp.ProductSpaceConstWeighting(c, exponent=p2), p2, dm([c] * m)),
             ('array', psp.ProductSpaceArrayWeighting(np.full(m, c)), 2.0, dm([c] * m)),
             ('array', psp.ProductSpaceArrayWeighting(np.array(parr)), 2.0, dm(parr)),
             ('array', psp.ProductSpaceArrayWeighting(np.array(parr)), 2.0, dm(parr)),
             ('array', psp.ProductSpaceArrayWeighting(np.array(parr), exponent=p2), p2, dm(parr)),
             ('custom', psp.ProductSpaceCustomInner(f1), 2.0, 'f1'),
             ('custom', psp.ProductSpaceCustomInner(f2), 2.0, 'f2'),
             ('custom', psp.ProductSpaceCustomNorm(f1), 1.0, 'n-f1'),
             ('custom', psp.ProductSpaceCustomDist(f1), 1.0, 'd-f1')]
    pairs('pspace', pobjs)

    # ---- 3. MatrixWeighting
    M = np.array(nd)
    r = outcome(lambda: bool(MatrixWeighting(M, impl='numpy').is_valid()))
    if r != ('ok', True):
        bad('matrix is_valid :: positive definite matrix', r)
    ctx.hit('weightobj/matrix/is_valid/pd')
    ind = np.array(nd)
    ind[0, 0] = -1.0
    r = outcome(lambda: bool(MatrixWeighting(ind, impl='numpy').is_valid()))
    if r != ('ok', False):
        bad('matrix is_valid :: indefinite matrix', r)
    ctx.hit('weightobj/matrix/is_valid/indefinite')
    nh = np.array(nd)
    nh[0, n - 1] += 0.25     # lower triangle still positive definite, not Hermitian
    r = outcome(lambda: bool(MatrixWeighting(nh, impl='numpy').is_valid()))
    if r != ('ok', False):
        bad('matrix is_valid :: non-Hermitian matrix', r)
    ctx.hit('weightobj/matrix/is_valid/nonhermitian')
    for cached in (False, True):
        mw = MatrixWeighting(M, impl='numpy', cache_mat_decomp=cached)
        r = outcome(lambda: mw.matrix_decomp())
        ok = r[0] == 'ok'
        if ok:
            ev, V = r[1]
            ok = np.allclose((V * ev).dot(V.conj().T), M, rtol=1e-12, atol=1e-12) and \
                np.allclose(V.dot(V.conj().T), np.eye(n), rtol=1e-12, atol=1e-12)
        if not ok:
            bad('matrix decomp :: V diag(e) V^H != M', r)
        ctx.hit('weightobj/matrix/decomp' + ('/cached' if cached else ''))
        if cached:
            r = outcome(lambda: (bool(mw.is_valid()), mw.matrix_decomp()[0] is mw._eigval))
            if r != ('ok', (True, True)):
                bad('matrix is_valid :: from cached eigenvalues', r)
            indw = MatrixWeighting(ind, impl='numpy', cache_mat_decomp=True)
            r = outcome(lambda: (indw.matrix_decomp(), bool(indw.is_valid()))[1])
            if r != ('ok', False):
                bad('matrix is_valid :: indefinite, from cached eigenvalues', r)
            ctx.hit('weightobj/matrix/is_valid/cached-eigval')
    for cdec in (False, True):
        pe = rng.choice([3.0, 1.5])
        r = outcome(lambda: MatrixWeighting(M, impl='numpy', exponent=pe, precomp_mat_pow=True,
                                            cache_mat_decomp=cdec)._mat_pow)
        ok = r[0] == 'ok' and r[1] is not None
        if ok:
            ev, V = np.linalg.eigh(M)
            want = (V * ev ** (1.0 / pe)).dot(V.T)
            ok = np.allclose(r[1], want, rtol=1e-10, atol=1e-12)
        if not ok:
            bad('matrix power :: W ** (1/p) cache_mat_decomp={}'.format(cdec), r)
        ctx.hit('weightobj/matrix/matpow/precomp' + ('-cached-decomp' if cdec else ''))
    spw = MatrixWeighting(scipy.sparse.csr_matrix(M), impl='numpy')
    r1, r2 = outcome(lambda: spw.is_valid()), outcome(lambda: spw.matrix_decomp())
    if r1[0] != 'err:notimpl' or r2[0] != 'err:notimpl':
        bad('matrix sparse :: is_valid / matrix_decomp must raise NotImplementedError', (r1, r2))
    ctx.hit('weightobj/matrix/sparse/notimpl')
    sp3 = odl.rn(n)
    x3, y3 = sp3.element(dyl(n)), sp3.element(dyl(n))
    mw = MatrixWeighting(M, impl='numpy')
    rs = [outcome(lambda: mw.inner(x3, y3)), outcome(lambda: mw.norm(x3)),
          outcome(lambda: mw.dist(x3, y3))]
    if any(t[0] != 'err:notimpl' for t in rs):
        bad('matrix inner/norm/dist :: abstract class must raise NotImplementedError', rs)
    ctx.hit('weightobj/matrix/inner-norm-dist/notimpl')
    for name, mk, exp in [
            ('object', lambda: MatrixWeighting(np.array([[1, None], [None, 1]], dtype=object),
                                               impl='numpy'), 'err:ValueError'),
            ('ndim', lambda: MatrixWeighting(np.ones(3), impl='numpy'), 'err:ValueError'),
            ('nonsquare', lambda: MatrixWeighting(np.ones((2, 3)), impl='numpy'),
             'err:ValueError'),
            ('sparse-exponent', lambda: MatrixWeighting(scipy.sparse.csr_matrix(M), impl='numpy',
                                                        exponent=3.0), 'err:notimpl')]:
        r = outcome(mk)
        if r[0] != exp:
            bad('matrix reject :: ' + name, r)
        ctx.hit('weightobj/matrix/reject/' + name)

    # ---- 4. ArrayWeighting.is_valid
    r = outcome(lambda: (bool(nt.NumpyTensorSpaceArrayWeighting(np.array(arr)).is_valid()),
                         bool(nt.NumpyTensorSpaceArrayWeighting(
                             np.array([1.0, 0.0, 2.0])).is_valid()),
                         bool(nt.NumpyTensorSpaceArrayWeighting(
                             np.array([1.0, -1.0])).is_valid())))
    if r != ('ok', (True, False, False)):
        bad('array is_valid', r)
    ctx.hit('weightobj/array/is_valid/positive')
    ctx.hit('weightobj/array/is_valid/nonpositive')

    # ---- 5. is_weighted: False exactly when inner is the plain sum
    X, Y = dyl(n), dyl(n)
    plain = sum(Fraction(u) * Fraction(v) for u, v in zip(X, Y))
    for wt in (None, 1.0, 2.0, [1.0] * n, arr):
        kw = {} if wt is None else {'weighting': wt}
        r = outcome(lambda: (lambda s_: (bool(s_.is_weighted),
                                         Fraction(float(s_.inner(s_.element(X),
                                                                 s_.element(Y))))))(
            odl.rn(n, **kw)))
        if r[0] != 'ok' or (not r[1][0] and r[1][1] != plain) or \
                (r[1][0] != (wt not in (None, 1.0))):
            bad('is_weighted tensor :: weighting={}'.format(wt), r)
    ctx.hit('weightobj/is_weighted/tensor')
    for wt in (None, 1.0, 2.0, [1.0, 2.0]):
        kw = {} if wt is None else {'weighting': wt}
        r = outcome(lambda: bool(odl.ProductSpace(odl.rn(2), odl.rn(1), **kw).is_weighted))
        if r != ('ok', wt not in (None, 1.0)):
            bad('is_weighted pspace :: weighting={}'.format(wt), r)
    ctx.hit('weightobj/is_weighted/pspace')
    # discretized: unit cells (cell volume exactly 1, no partial boundary cells) <=> unweighted
    r = outcome(lambda: (lambda s1, s2: (bool(s1.is_weighted), bool(s2.is_weighted),
                                         Fraction(float(s1.inner(s1.element(X), s1.element(Y)))),
                                         Fraction(float(s2.inner(s2.element(X), s2.element(Y))))))(
        odl.uniform_discr(0, n, n), odl.uniform_discr(0, 2 * n, n)))
    if r != ('ok', (False, True, plain, 2 * plain)):
        bad('is_weighted discr :: unit cells / cells of volume 2', r)
    ctx.hit('weightobj/is_weighted/discr')

    # ---- 6. spaces: equal construction => ==, equal hash, same inner/norm/dist; zero()
    shared = np.asarray(arr)
    mks = [('tensor', lambda: odl.rn(n, weighting=c)),
           ('tensor', lambda: odl.rn(n, weighting=shared)),
           ('tensor', lambda: odl.rn(n, weighting=c, exponent=p2)),
           ('pspace', lambda: odl.ProductSpace(odl.rn(2), odl.rn(n), weighting=c, exponent=p2)),
           ('pspace', lambda: odl.ProductSpace(odl.rn(2, weighting=c), 2)),
           ('discr', lambda: odl.uniform_discr(0, 2, n, nodes_on_bdry=True)),
           ('discr', lambda: odl.uniform_discr(0, 2, n, weighting=c, exponent=p2))]
    for kind, mk in mks:
        r = outcome(lambda: (mk(), mk()))
        if r[0] != 'ok':
            bad('space-eq-hash {} :: construction'.format(kind), r)
            continue
        s1, s2 = r[1]
        r = outcome(lambda: (s1 == s2, hash(s1) == hash(s2), s1 != s2))
        if r != ('ok', (True, True, False)):
            bad('space-eq-hash {} :: equal construction'.format(kind), r)
        r = outcome(lambda: (lambda a, b: (float(a.norm()), float(b.norm()),
                                           float(a.dist(s1.zero())), float(s1.zero().norm()),
                                           float(s2.zero().dist(s2.zero()))))(
            s1.one() * 1.5, s2.one() * 1.5))
        if r[0] != 'ok' or r[1][0] != r[1][1] or r[1][2] != r[1][0] or r[1][3] != 0.0 or \
                r[1][4] != 0.0 or not r[1][0] > 0:
            bad('space-eq-hash/zero {} :: norm on equal spaces, zero element'.format(kind), r)
        if s1.exponent == 2.0:
            r = outcome(lambda: (s1.inner(s1.one(), s1.zero()), s1.inner(s1.zero(), s1.one())))
            if r != ('ok', (0.0, 0.0)):
                bad('zero {} :: inner with zero'.format(kind), r)
        ctx.hit('weightobj/space-eq-hash/' + kind)
        ctx.hit('weightobj/zero/' + kind)

    # ---- 7. partition: cell_sizes_vecs are the quadrature weights per axis
    for rep in range(3):
        nd_ = rng.choice([1, 2])
        specs = []
        for ax in range(nd_):
            nn = rng.randint(1, 4)
            l, r_ = rng.choice([(0, 0), (1, 1), (1, 0), (0, 1)])
            a_, b_ = exact_extent(rng, nn, l, r_)
            specs.append((a_, b_, nn, l, r_))
        r = outcome(lambda: odl.uniform_discr([t[0] for t in specs], [t[1] for t in specs],
                                              [t[2] for t in specs],
                                              nodes_on_bdry=[(bool(t[3]), bool(t[4]))
                                                             for t in specs]))
        if r[0] != 'ok':
            bad('partition :: construction', r)
            continue
        sp = r[1]
        r = outcome(lambda: (sp.partition.cell_sizes_vecs, sp.partition.nodes_on_bdry,
                             sp.partition.nodes_on_bdry_byaxis, float(sp.one().norm()) ** 2,
                             float(sp.inner(sp.one(), sp.one()))))
        if r[0] != 'ok':
            bad('partition :: cell_sizes_vecs / nodes_on_bdry raise', r)
            continue
        csv, nob, nobax, n2, i11 = r[1]
        vol = 1.0
        for t in specs:
            vol *= (t[1] - t[0])
        tot = 1.0
        for v in csv:
            tot *= float(np.sum(v))
        if not close(tot, vol, rel=1e-12) or not close(i11, vol, rel=1e-12) or \
                not close(n2, vol, rel=1e-12):
            bad('partition :: prod(sum(cell_sizes_vecs)) = volume = <1,1>', (tot, vol, i11, n2))
        ctx.hit('weightobj/partition/cell_sizes_vecs')
        wantax = tuple((bool(t[3]) or t[2] == 1 and False, bool(t[4])) for t in specs)
        ok = True
        for t, got in zip(specs, nobax):
            if t[2] > 1 and (bool(got[0]), bool(got[1])) != (bool(t[3]), bool(t[4])):
                ok = False
        if not ok:
            bad('partition :: nodes_on_bdry_byaxis', (specs, nobax, wantax))
        ctx.hit('weightobj/partition/nodes_on_bdry')
    ctx.case(('weightobj', n, m), {'weightobj': {'seed': wseed}})
    return problems


# ---------------------------------------------------------------------------
# DERIVED stream (round 5): spaces obtained from other spaces / alternative constructors, sent
# through the FULL oracle and model comparison of run_case with the derived space injected:
# ProductSpace indexing (constant weighting), astype / real_space / complex_space (weighting
# object passed on), byaxis of constant-weighted tensor spaces, tangent_bundle,
# uniform_discr_fromdiscr, uniform_partition / uniform_partition_fromgrid argument forms.
# (What indexing / byaxis should do with ARRAY weightings belongs to C20: known findings there.)

DERIVED_STRATA = ['derived/' + t for t in (
    'pspace-getitem/slice', 'pspace-getitem/list', 'pspace-getitem/tuple', 'pspace-astype',
    'pspace-complex_space', 'pspace-real_space', 'tensor-byaxis', 'discr-tangent_bundle',
    'discr-fromdiscr/minmax', 'discr-fromdiscr/shape', 'discr-fromdiscr/cell_sides',
    'partition/min-cellsides-shape', 'partition/max-cellsides-shape',
    'partition/min-max-cellsides', 'partition/fromgrid-dict', 'discr-astype')]


def derived_cases(rng):
    import odl
    out = []

    def leafT(n, dt='float64', wt=None, p=2):
        return ('T', (n,), dt, 'C', wt, p)
    for p in (2, 1, INF, 1.5):
        c = rng.choice([0.5, 2.0, 4.0])
        comps = [leafT(rng.randint(1, 3), p=p) for _ in range(4)]
        base = ('P', comps, ('c', c), p)
        out.append(('pspace-getitem/slice', base, lambda s_: s_[1:3],
                    ('P', comps[1:3], ('c', c), p)))
        out.append(('pspace-getitem/list', base, lambda s_: s_[[3, 0, 3]],
                    ('P', [comps[3], comps[0], comps[3]], ('c', c), p)))
        out.append(('pspace-getitem/tuple', base, lambda s_: s_[0:2, ],
                    ('P', comps[0:2], ('c', c), p)))
    for wt in (('c', 2.0), ('a', [0.5, 2.0, 3.0]), None):
        p = rng.choice([2, 2, 1, 1.5])
        comps = [leafT(rng.randint(1, 3), p=p) for _ in range(3)]
        base = ('P', comps, wt, p)

        def cast(dt):
            return ('P', [(c_[0], c_[1], dt) + c_[3:] for c_ in comps], wt, p)
        out.append(('pspace-astype', base, lambda s_: s_.astype('float32'), cast('float32')))
        out.append(('pspace-complex_space', base, lambda s_: s_.complex_space,
                    cast('complex128')))
        out.append(('pspace-real_space', cast('complex128'), lambda s_: s_.real_space, base))
    for p in (2, 1, INF, 1.5):
        c = rng.choice([0.5, 2.0])
        shp = (rng.randint(2, 3), rng.randint(2, 4))
        base = ('T', shp, 'float64', 'C', ('c', c), p)
        out.append(('tensor-byaxis', base, lambda s_: s_.byaxis[[1, 0]],
                    ('T', (shp[1], shp[0]), 'float64', 'C', ('c', c), p)))
        out.append(('tensor-byaxis', base, lambda s_: s_.byaxis[1],
                    ('T', (shp[1],), 'float64', 'C', ('c', c), p)))
    for rep in range(2):
        nd = rng.choice([1, 2])
        specs = []
        for ax in range(nd):
            n = rng.randint(2, 4)
            l, r = rng.choice([(0, 0), (1, 1), (1, 0)])
            a, b = exact_extent(rng, n, l, r)
            specs.append((a, b, n, l, r))
        base = ('U', specs, 'float64', 'C', None, 2)
        out.append(('discr-tangent_bundle', base, lambda s_: s_.tangent_bundle,
                    ('P', [base] * nd, None, 2)))
        out.append(('discr-astype', base, lambda s_: s_.astype('complex128'),
                    ('U', specs, 'complex128', 'C', None, 2)))
        nob = [(bool(t[3]), bool(t[4])) for t in specs]
        new = [(t[0] - 1.0, t[1] + 2.0, t[2], t[3], t[4]) for t in specs]
        out.append(('discr-fromdiscr/minmax', base,
                    lambda s_, new=new, nob=nob: odl.uniform_discr_fromdiscr(
                        s_, min_pt=[t[0] for t in new], max_pt=[t[1] for t in new],
                        nodes_on_bdry=nob),
                    ('U', new, 'float64', 'C', None, 2)))
        new2 = [(t[0], t[1], t[2] + 2, t[3], t[4]) for t in specs]
        out.append(('discr-fromdiscr/shape', base,
                    lambda s_, new2=new2, nob=nob: odl.uniform_discr_fromdiscr(
                        s_, shape=[t[2] for t in new2], nodes_on_bdry=nob),
                    ('U', new2, 'float64', 'C', None, 2)))
        # cell_sides given (nodes not on the boundary): max_pt = min_pt + shape * cell_sides
        # (template: cells of side 1/2; min_pt / max_pt are kept, the shape doubles)
        a0s = [float(rng.randint(-2, 2)) for _ in specs]
        base0 = ('U', [(a0, a0 + t[2] * 0.5, t[2], 0, 0) for a0, t in zip(a0s, specs)],
                 'float64', 'C', None, 2)
        new3 = [(a0, a0 + t[2] * 0.5, 2 * t[2], 0, 0) for a0, t in zip(a0s, specs)]
        out.append(('discr-fromdiscr/cell_sides', base0,
                    lambda s_, k=len(specs): odl.uniform_discr_fromdiscr(
                        s_, cell_sides=[0.25] * k),
                    ('U', new3, 'float64', 'C', None, 2)))
        # uniform_partition argument forms (no nodes on the boundary)
        mins = [float(rng.randint(-2, 2)) for _ in range(nd)]
        hs = [rng.choice([0.5, 0.25, 1.0]) for _ in range(nd)]
        ns = [rng.randint(2, 4) for _ in range(nd)]
        maxs = [a + h * n for a, h, n in zip(mins, hs, ns)]
        d0 = ('U', [(a, b, n, 0, 0) for a, b, n in zip(mins, maxs, ns)], 'float64', 'C', None, 2)
        out.append(('partition/min-cellsides-shape', None,
                    lambda _, mins=mins, hs=hs, ns=ns: odl.uniform_discr_frompartition(
                        odl.uniform_partition(min_pt=mins, cell_sides=hs, shape=ns)), d0))
        out.append(('partition/max-cellsides-shape', None,
                    lambda _, maxs=maxs, hs=hs, ns=ns: odl.uniform_discr_frompartition(
                        odl.uniform_partition(max_pt=maxs, cell_sides=hs, shape=ns)), d0))
        out.append(('partition/min-max-cellsides', None,
                    lambda _, mins=mins, maxs=maxs, hs=hs: odl.uniform_discr_frompartition(
                        odl.uniform_partition(min_pt=mins, max_pt=maxs, cell_sides=hs)), d0))
        # uniform_partition_fromgrid with dicts: one side given, the other half a cell out
        gmin = [a + h / 2 for a, h in zip(mins, hs)]
        gmax = [b - h / 2 for b, h in zip(maxs, hs)]
        lo = mins[0] - 0.5
        coords = [[gmin[i] + hs[i] * k for k in range(ns[i])] for i in range(nd)]
        dg = ('G', coords, [lo] + mins[1:], maxs, 'float64', None, 2)
        out.append(('partition/fromgrid-dict', None,
                    lambda _, gmin=gmin, gmax=gmax, ns=ns, lo=lo: odl.uniform_discr_frompartition(
                        odl.uniform_partition_fromgrid(odl.uniform_grid(gmin, gmax, ns),
                                                       min_pt={0: lo}, max_pt={})), dg))
    return out


def run_derived(ctx, lines, recs, collect=True, only=None, dseed=None):
    if dseed is None:
        dseed = ctx.rng.getrandbits(32)
    rng = random.Random(dseed)
    allp = []
    for i, (name, base, derive, dd) in enumerate(derived_cases(rng)):
        vseed = rng.getrandbits(32)
        if only is not None and only != i:
            continue
        rep = {'derived': {'name': name, 'dseed': dseed, 'index': i}}
        o = outcome(lambda: derive(build(base) if base is not None else None))
        if o[0] != 'ok':
            ctx.violation('derived {} :: construction'.format(name), str(o)[:300], rep)
            allp.append((name, o))
            continue
        sp = o[1]
        # the derived space must BE the space its description says (exponent, weighting kind)
        chk = outcome(lambda: (lambda want: (float(sp.exponent) == float(want.exponent),
                                             type(sp.weighting) is type(want.weighting),
                                             bool(sp.weighting.equiv(want.weighting)),
                                             sp.shape == want.shape))(build(dd)))
        if chk != ('ok', (True, True, True, True)):
            ctx.violation('derived {} :: weighting/exponent/shape of the derived space'.format(name),
                          '{} got {!r}'.format(chk, sp)[:400], rep)
            allp.append((name, chk))
            continue
        pr = run_case(ctx, dd, vseed, lines, recs, collect=collect, space=sp,
                      hist={'scenario': 'derived/' + name, 'seed': 0, 'derived': rep['derived']})
        allp.extend(pr or [])
        ctx.hit('derived/' + name)
    return allp


# ---------------------------------------------------------------------------
# DISPATCH stream (round 5): which NumPy / BLAS routine `_inner_default` / `_norm_default`
# select for which dtype class and size (translator tools/extract/weighting_dispatch.py ->
# Gen/WeightingDispatch.lean, driver ops idispatch / ndispatch).  The routine the REAL code takes
# is observed by spying on the entry points (np.dot / np.vdot / np.tensordot / np.linalg.norm via
# a proxy for the module global `np` of npy_tensors, scipy's get_blas_funcs), together with the
# operand order of vdot.  Oracle: exact Fraction reference of sum x conj(y) resp. sqrt(sum |x|^2).

DISPATCH_DTYPES = ['float64', 'float32', 'int64', 'complex128', 'complex64']
DISPATCH_STRATA = ['dispatch/{}/{}/{}'.format(op, dt, side) for op in ('inner', 'norm')
                   for dt in DISPATCH_DTYPES for side in ('small', 'at-threshold', 'above')]


class _LinalgSpy(object):
    def __init__(self, calls):
        self._calls = calls

    def __getattr__(self, name):
        return getattr(np.linalg, name)

    def norm(self, *a, **kw):
        self._calls.append(('linalgNorm', None))
        return np.linalg.norm(*a, **kw)


class _NPSpy(object):
    def __init__(self, calls, xdata, ydata):
        self._calls, self._x, self._y = calls, xdata, ydata
        self.linalg = _LinalgSpy(calls)

    def __getattr__(self, name):
        return getattr(np, name)

    def _order(self, a, b):
        ax, ay = np.shares_memory(a, self._x), np.shares_memory(a, self._y)
        bx, by = np.shares_memory(b, self._x), np.shares_memory(b, self._y)
        if ax and by and not (ay or bx):
            return '12'
        if ay and bx and not (ax or by):
            return '21'
        return '??'

    def dot(self, a, b, *r, **kw):
        self._calls.append(('dot', self._order(a, b)))
        return np.dot(a, b, *r, **kw)

    def vdot(self, a, b):
        self._calls.append(('vdot' + self._order(a, b), None))
        return np.vdot(a, b)

    def tensordot(self, a, b, *r, **kw):
        self._calls.append(('tensordot', self._order(np.asarray(a), np.asarray(b))))
        return np.tensordot(a, b, *r, **kw)


def _spied(x, y, f):
    """run f() with the spies installed; returns (outcome, calls)"""
    import odl.space.npy_tensors as nt
    import scipy.linalg
    calls = []
    real_np, real_gbf = nt.np, scipy.linalg.blas.get_blas_funcs

    def gbf(names, *a, **kw):
        if names == 'nrm2' or names == ('nrm2',):
            calls.append(('nrm2', None))
        return real_gbf(names, *a, **kw)
    nt.np = _NPSpy(calls, x.data, y.data)
    scipy.linalg.blas.get_blas_funcs = gbf
    try:
        r = outcome(f)
    finally:
        nt.np = real_np
        scipy.linalg.blas.get_blas_funcs = real_gbf
    return r, calls


def dispatch_cases(ctx):
    thr = threshold()
    out = []
    for dt in DISPATCH_DTYPES:
        for side, n in (('small', ctx.rng.randint(2, 9)), ('at-threshold', thr),
                        ('above', thr + 1)):
            cplx = dt.startswith('complex')
            la, lb = ctx.rng.choice([(2, 3), (3, 5), (1, 4), (4, 3)])
            if cplx:
                xp = [complex(ctx.rng.randint(-2, 2), ctx.rng.randint(-2, 2)) for _ in range(la)]
                yp = [complex(ctx.rng.randint(-2, 2), ctx.rng.randint(-2, 2)) for _ in range(lb)]
                xp[0], yp[0] = complex(1, 2), complex(2, -1)
            else:
                xp = [float(ctx.rng.randint(-3, 3)) for _ in range(la)]
                yp = [float(ctx.rng.randint(-3, 3)) for _ in range(lb)]
                xp[0], yp[0] = 2.0, -1.0
            out.append({'dtype': dt, 'side': side, 'n': n, 'xp': xp, 'yp': yp,
                        'shape2d': side != 'small' and ctx.rng.random() < 0.5 and n % 2 == 0})
    return out


def run_dispatch_case(ctx, c, lines, recs, collect=True):
    import odl
    problems = []
    dt, n = c['dtype'], c['n']

    def bad(what, detail):
        problems.append((what, detail))
        ctx.violation('dispatch {}/{} :: {}'.format(dt, c['side'], what), str(detail)[:400],
                      {'dispatch': jsonable_c(c)})
    cplx = dt.startswith('complex')
    xp = [complex(*v) if isinstance(v, (list, tuple)) else v for v in c['xp']]
    yp = [complex(*v) if isinstance(v, (list, tuple)) else v for v in c['yp']]
    X = np.resize(np.asarray(xp), n).astype(dt)
    Y = np.resize(np.asarray(yp), n).astype(dt)
    shape = (2, n // 2) if c.get('shape2d') else (n,)
    o = outcome(lambda: (lambda sp: (sp.element(X.reshape(shape)), sp.element(Y.reshape(shape))))(
        odl.tensor_space(shape, dtype=dt)))
    if o[0] != 'ok':
        bad('construction', o)
        return problems
    x, y = o[1]
    # exact references (small integers: every partial sum is exactly representable)
    fx = [complex(v) for v in xp]
    fy = [complex(v) for v in yp]
    ref = 0
    nrm = 0
    for i in range(n):
        a, b = fx[i % len(fx)], fy[i % len(fy)]
        ref += a * b.conjugate()
        nrm += a.real * a.real + a.imag * a.imag
    r, calls = _spied(x, y, lambda: x.inner(y))
    if r[0] != 'ok' or complex(r[1]) != ref:
        bad('inner value', 'got {} want {!r}'.format(r, ref))
    leaves = [k if k.startswith('vdot') else k for k, _ in calls]
    orders = [o_ for k, o_ in calls if o_ is not None]
    # (LinearSpace.inner evaluates self._inner twice when the space has a field: the same
    # routine must be taken every time)
    if len(set(leaves)) != 1 or any(o_ != '12' for o_ in orders):
        bad('inner routine', 'observed calls {}'.format(calls))
    elif collect:
        lines.append('idispatch real={} size={} xp={} yp={}'.format(
            0 if cplx else 1, n, cwire(xp), cwire(yp)))
        recs.append((c, 'inner', leaves[0], complex(r[1]) if r[0] == 'ok' else r[0]))
    r, calls = _spied(x, y, lambda: x.norm())
    blas = dt in ('float32', 'float64', 'complex64', 'complex128') and n <= 2 ** 31 - 1
    if r[0] != 'ok' or abs(float(r[1]) - math.sqrt(nrm)) > 1e-6 * math.sqrt(nrm) * (
            1 if dt in ('float32', 'complex64') else 1e-6):
        bad('norm value', 'got {} want {!r}'.format(r, math.sqrt(nrm)))
    leaves = [k for k, _ in calls]
    if len(set(leaves)) != 1:
        bad('norm routine', 'observed calls {}'.format(calls))
    elif collect:
        lines.append('ndispatch blas={} real={} size={} xp={}'.format(
            1 if blas else 0, 0 if cplx else 1, n, cwire(xp)))
        recs.append((c, 'norm', leaves[0], float(r[1]) if r[0] == 'ok' else r[0]))
    ctx.case(('dispatch', dt, c['side']), None)
    return problems


def jsonable_c(c):
    out = dict(c)
    out['xp'] = [[v.real, v.imag] if isinstance(v, complex) else v for v in c['xp']]
    out['yp'] = [[v.real, v.imag] if isinstance(v, complex) else v for v in c['yp']]
    return out


def compare_dispatch(ctx, recs, outs):
    for (c, op, leaf, val), ans in zip(recs, outs):
        case = {'op': op + '-dispatch', 'dispatch': jsonable_c(c)}
        if not ans.startswith('ok leaf='):
            ctx.disagree(case, (leaf, val), ans)
            continue
        f = dict(t.split('=', 1) for t in ans.split()[1:])
        if f['leaf'] != leaf:
            ctx.disagree(case, 'routine taken by the code: ' + leaf,
                         'routine selected by the extracted tree: ' + f['leaf'])
            continue
        if op == 'inner':
            mr, mi = ([core.pfrac(u) for u in f['v'].split(':')] + [Fraction(0)])[:2]
            if isinstance(val, str) or cfrac(val) != (mr, mi):
                ctx.disagree(case, val, f['v'])
                continue
        else:
            m = float(core.pfrac(f['v']))
            tol = 1e-6 if c['dtype'] in ('float32', 'complex64') else 1e-12
            if isinstance(val, str) or abs(m - val) > tol * max(abs(m), abs(val)):
                ctx.disagree(case, val, m)
                continue
        ctx.hit('dispatch/{}/{}/{}'.format(op, c['dtype'], c['side']))


def run_dispatch(ctx):
    lines, recs = [], []
    for c in dispatch_cases(ctx):
        run_dispatch_case(ctx, c, lines, recs)
    outs = core.run_driver('C02', lines)
    compare_dispatch(ctx, recs, outs)


def regenerate(ctx):
    from extract import weighting_dispatch as wd
    name = 'extract(_inner_default, _norm_default, THRESHOLD_* -> Gen/WeightingDispatch.lean)'
    try:
        changed = wd.regenerate()
        ctx.extra['weighting_dispatch_tables'] = {k: v for k, v in wd.LAST.items()}
        return [(name, True, 'regenerated' if changed else 'unchanged')]
    except Exception as e:  # grammar no longer matches the source: broken obligation
        return [(name, False, '{}: {}'.format(type(e).__name__, e))]



# ---------------------------------------------------------------------------
# HISTORY stream: spaces built from SHARED objects (one grid under several partitions, one
# partition under several spaces, one weighting object under several spaces), queried
# interleaved.  Every answer goes through the same oracle and model comparison as a freshly
# built space (run_case with the shared space injected) and is compared with the same query on
# a freshly built equal space.

HIST_STRATA = ['history/shared-grid/single-point-axis', 'history/shared-grid/regular',
               'history/shared-partition', 'history/shared-weighting/tensor',
               'history/shared-weighting/pspace', 'history/requery-after-other-space',
               'stratum/single-point-axis/U', 'stratum/single-point-axis/G']


def fresh_compare(ctx, d, space, hist, vseed):
    """Same queries on the shared-object space and on a freshly built equal space."""
    problems = []
    o = outcome(lambda: build(d))
    if o[0] != 'ok':
        return [('fresh construction failed', str(o)[:160])]
    fresh = o[1]
    rng = random.Random(vseed)
    for name, f in (('cell_volume', lambda sp: float(sp.cell_volume)),
                    ('cell_sides', lambda sp: [float(v) for v in sp.cell_sides]),
                    ('weighting const', lambda sp: float(sp.weighting.const)),
                    ('exponent', lambda sp: float(sp.exponent))):
        a, b = outcome(lambda: f(space)), outcome(lambda: f(fresh))
        if a[0] == 'ok' and b[0] == 'ok' and a[1] != b[1]:
            problems.append(('history changes ' + name,
                             'shared objects: {} fresh space: {}'.format(a[1], b[1])))
    try:
        x1, X = make_elem(d, space, random.Random(vseed), 'rand')
        y1, Y = make_elem(d, space, random.Random(vseed + 1), 'rand')
        x2, _ = make_elem(d, fresh, random.Random(vseed), 'rand')
        y2, _ = make_elem(d, fresh, random.Random(vseed + 1), 'rand')
    except Exception as e:  # noqa
        return problems + [('element creation failed', '{}: {}'.format(type(e).__name__, e))]
    qs = [('norm(x)', lambda x, y, sp: x.norm()), ('dist(x,y)', lambda x, y, sp: x.dist(y)),
          ('one().norm()', lambda x, y, sp: sp.one().norm())]
    if has_inner(d):
        qs += [('inner(x,y)', lambda x, y, sp: complex(x.inner(y))),
               ('inner(1,1)', lambda x, y, sp: complex(sp.one().inner(sp.one())))]
    for name, f in qs:
        a = outcome(lambda: f(x1, y1, space))
        b = outcome(lambda: f(x2, y2, fresh))
        if a[0] != b[0] or (a[0] == 'ok' and abs(a[1] - b[1]) > 1e-13 * max(abs(b[1]), 1e-300)):
            problems.append(('history changes ' + name,
                             'shared objects: {} fresh space: {}'.format(a[1], b[1])))
    return problems


def history_scenarios(ctx, hseed):
    """Yield (scenario name, [(description, space built from shared objects)])."""
    import odl
    from odl.space.npy_tensors import (NumpyTensorSpaceArrayWeighting,
                                       NumpyTensorSpaceConstWeighting)
    from odl.space.pspace import ProductSpaceArrayWeighting
    rng = random.Random(hseed)

    # --- one RectGrid under several partitions with different min/max
    for single in (True, True, False):
        nd = rng.choice([2, 2, 3])
        coords = []
        for ax in range(nd):
            n = rng.choice([2, 3, 5])
            h = rng.choice([0.5, 0.25, 1.0])
            g0 = rng.choice([0.0, -1.0, 0.5])
            coords.append([g0 + i * h for i in range(n)])
        if single:
            for ax in rng.sample(range(nd), rng.choice([1, 1, 2]) if nd > 2 else 1):
                coords[ax] = [rng.choice([0.0, 0.5, -1.0])]
        grid = odl.RectGrid(*[np.asarray(cv, dtype=float) for cv in coords])
        items = []
        for k in range(3):
            mins, maxs = [], []
            for cv in coords:
                h = (cv[1] - cv[0]) if len(cv) > 1 else 1.0
                ext = rng.choice([0.0, 0.25, 0.5, 1.0, 2.0]) if len(cv) > 1 else \
                    [0.5, 2.0, 1.0][k] * rng.choice([1.0, 0.5])
                mins.append(cv[0] - ext * h)
                maxs.append(cv[-1] + rng.choice([0.0, 0.25, 0.5, 1.0]) * h if len(cv) > 1
                            else cv[0] + ext * h)
            p = rng.choice([2, 2, 1, 3])
            dt = rng.choice(['float64', 'float64', 'complex128', 'float32'])
            d = ('G', coords, mins, maxs, dt, None, p)
            o = outcome(lambda: odl.uniform_discr_frompartition(
                odl.uniform_partition_fromgrid(grid, min_pt=list(mins), max_pt=list(maxs)),
                dtype=dt, **_kw(None, p, dt)))
            items.append((d, o))
        yield ('shared-grid/' + ('single-point-axis' if single else 'regular'), items)

    # --- one partition under several spaces (weighting / exponent / dtype differ)
    for rep in range(2):
        n0, n1 = rng.choice([2, 3, 4]), rng.choice([1, 2, 3])
        coords = [[0.0 + i * 0.5 for i in range(n0)], [1.0 + i * 0.25 for i in range(n1)]]
        mins = [coords[0][0] - rng.choice([0.0, 0.25]), coords[1][0] - rng.choice([0.125, 0.5])]
        maxs = [coords[0][-1] + rng.choice([0.25, 0.5]), coords[1][-1] + rng.choice([0.0, 0.125, 1.0])]
        part = odl.RectPartition(odl.IntervalProd(mins, maxs),
                                 odl.RectGrid(*[np.asarray(cv) for cv in coords]))
        items = []
        for wk, p, dt in [('def', 2, 'float64'), ('const', 1, 'float64'), ('def', 3, 'complex128'),
                          ('array', 2, 'float32'), ('def', INF, 'float64'), ('def', 2, 'int64')]:
            wt = None if wk == 'def' else mk_wt(rng, wk, (n0, n1), dt)
            d = ('G', coords, mins, maxs, dt, wt, p)
            o = outcome(lambda: odl.uniform_discr_frompartition(part, dtype=dt, **_kw(wt, p, dt)))
            items.append((d, o))
        yield ('shared-partition', items)

    # --- one weighting OBJECT under several tensor / discretized spaces
    shape = (3, 2)
    warr = np.array(dy_weights(rng, 6)).reshape(shape)
    for p in [2, 1.5]:
        wobj = NumpyTensorSpaceArrayWeighting(warr, exponent=p)
        cobj = NumpyTensorSpaceConstWeighting(rng.choice([0.5, 2.0]), exponent=p)
        items = []
        for dt in ['float64', 'complex128']:
            d = ('T', shape, dt, 'C', ('a', warr.tolist()), p)
            items.append((d, outcome(lambda: odl.tensor_space(shape, dtype=dt, weighting=wobj))))
            d = ('T', shape, dt, 'C', ('c', cobj.const), p)
            items.append((d, outcome(lambda: odl.tensor_space(shape, dtype=dt, weighting=cobj))))
        specs = [(0.0, 1.0, 3, 1, 1), (0.0, 0.5, 2, 0, 0)]
        d = ('U', specs, 'float64', 'C', ('a', warr.tolist()), p)
        items.append((d, outcome(lambda: odl.uniform_discr(
            [0.0, 0.0], [1.0, 0.5], shape, nodes_on_bdry=[(True, True), (False, False)],
            weighting=wobj, exponent=p))))
        yield ('shared-weighting/tensor', items)

    # --- one product-space weighting object under two product spaces
    pw_ = [2.0, 0.5]
    for p in [2, 1]:
        pobj = ProductSpaceArrayWeighting(np.array(pw_), exponent=p)
        items = []
        for comps in ([('T', (2,), 'float64', 'C', None, p), ('T', (3,), 'float64', 'C', ('c', 2.0), p)],
                      [('T', (1,), 'float64', 'C', None, p),
                       ('U', [(0.0, 1.0, 3, 1, 1)], 'float64', 'C', None, p)]):
            d = ('P', comps, ('a', pw_), p)
            items.append((d, outcome(lambda: odl.ProductSpace(*[build(c) for c in comps],
                                                               weighting=pobj))))
        yield ('shared-weighting/pspace', items)


def run_history(ctx, lines, recs, hseed=None, collect=True):
    hseed = ctx.rng.getrandbits(32) if hseed is None else hseed
    allp = []
    for name, items in history_scenarios(ctx, hseed):
        hist = {'scenario': name, 'seed': hseed}
        built = []
        for d, o in items:
            if o[0] != 'ok':
                ctx.violation('space construction failed :: history=' + name, str(o)[:300],
                              {'hist': hist, 'desc': jsonable(d)})
                allp.append(('space construction failed', str(o)[:200]))
                continue
            built.append((d, o[1]))
        # interleaved queries: A, B, C, ... then A, B, C again (each full set of inner / norm /
        # dist / one / cell volume queries), then the comparison with fresh equal spaces
        for rnd in range(2):
            for k, (d, sp) in enumerate(built):
                vs = (hseed + 17 * k + 1000 * rnd) & 0xffffffff
                allp += run_case(ctx, d, vs, lines, recs, collect=collect, space=sp, hist=hist)
                if rnd == 1:
                    ctx.hit('history/requery-after-other-space')
                if collect:
                    ctx.hit('history/' + name)
        for k, (d, sp) in enumerate(built):
            pr = fresh_compare(ctx, d, sp, hist, hseed + k)
            for what, detail in pr:
                ctx.violation(key_of(d, what) + ' :: history=' + name, detail[:400],
                              {'hist': hist, 'desc': jsonable(d)})
            allp += pr
    return allp


# ---------------------------------------------------------------------------
# LARGE stream: every size-dependent branch of npy_tensors.py on both sides of its threshold
#   _inner_default : real dtype, size > THRESHOLD_MEDIUM -> tensordot, else dot; complex -> vdot
#   x1 - x2 (dist) : _lincomb_impl regimes  size < SMALL / < MEDIUM or not BLAS / BLAS axpy
#   _norm_default  : BLAS nrm2 for float/complex contiguous data, np.linalg.norm otherwise (int)
#   _pnorm_default / _pnorm_diagweight : no size condition (run here on large data as well)
# for each dtype class x weighting kind x layout.  Cheap: compared with explicit weighted NumPy
# sums in double precision on copies (tolerance), not with Fractions; no model lines (the
# exact model comparison of large arrays is done on the few `keep` cases of tensor_zoo).

LARGE_DTYPES = ['float32', 'float64', 'complex64', 'complex128', 'int64']
LARGE_WK = ['none', 'const', 'array']
LARGE_STRATA = ['size/{}/{}/{}/{}'.format(side, dt, wk, fn)
                for side in ('large', 'threshold') for dt in LARGE_DTYPES for wk in LARGE_WK
                for fn in ('inner', 'norm', 'dist')]


def large_cases(ctx):
    thr = threshold()
    rng = ctx.rng
    out = []
    for dt in LARGE_DTYPES:
        for wk in LARGE_WK:
            for side, layout, shape in [('large', 'C', (thr + 1,)),
                                        ('large', 'F', (thr // 250 + 1, 250)),
                                        ('threshold', 'C', (thr,)),
                                        ('threshold', 'F', (thr // 250, 250))]:
                for p in [2, rng.choice([1, INF, 3, 1.5])]:
                    out.append((side, dt, wk, layout, shape, p, rng.getrandbits(32)))
    return out


def run_large(ctx, case):
    import odl
    side, dt, wk, layout, shape, p, vseed = case
    shape = tuple(shape)
    r = np.random.RandomState(vseed)
    size = int(np.prod(shape))
    dtype = np.dtype(dt)
    cplx = np.issubdtype(dtype, np.complexfloating)
    isint = np.issubdtype(dtype, np.integer)
    den = 8.0 if dt in ('float64', 'complex128') else 1.0

    def vals():
        v = r.randint(-3, 4, size=size) / den
        if cplx:
            v = v + 1j * (r.randint(-3, 4, size=size) / den)
        return v.reshape(shape)
    xv, yv = vals(), vals()
    if wk == 'none':
        wv, kw, cw = np.ones(shape), {}, 1.0
    elif wk == 'const':
        cw = float(r.choice([0.5, 2.0, 4.0]))
        wv, kw = np.full(shape, cw), {'weighting': cw}
    else:
        wv = r.choice([1.0, 2.0, 3.0] if isint else [0.5, 1.0, 2.0, 4.0], size=size).reshape(shape)
        wdt = np.empty(0, dtype=dtype).real.dtype
        kw = {'weighting': wv.astype(wdt)}
    if p != 2:
        kw['exponent'] = p
    d = ('T', shape, dt, layout, None if wk == 'none' else
         (('c', cw) if wk == 'const' else ('a', None)), p)
    rep = {'large': [side, dt, wk, layout, list(shape), 'inf' if p == INF else p, vseed]}
    key = 'size regime {} :: space=T/{}/{}/{}/{}/{}'.format(side, wk, pclass(p), dt, layout, size)
    tol = 1e-4 if dt in ('float32', 'complex64') else 1e-10
    problems = []

    def bad(what, detail):
        problems.append((what, detail))
        ctx.violation(what + ' :: ' + key, detail[:400], rep)

    o = outcome(lambda: odl.tensor_space(shape, dtype=dt, **kw))
    if o[0] != 'ok':
        bad('space construction failed', str(o)[:200])
        return problems
    space = o[1]
    mk = (np.asfortranarray if layout == 'F' else np.ascontiguousarray)
    try:
        x, y = space.element(mk(xv.astype(dtype))), space.element(mk(yv.astype(dtype)))
    except Exception as e:  # noqa
        bad('element creation failed', '{}: {}'.format(type(e).__name__, e))
        return problems
    ctx.case(('large', side, dt, wk, layout, pclass(p)), None)
    x64 = xv.astype(complex if cplx else float)
    y64 = yv.astype(complex if cplx else float)

    def rnorm(v):
        a = np.abs(v)
        if p == INF:
            return float(np.max((cw * a) if wk != 'array' else wv * a))
        if p == 2:
            return math.sqrt(float(np.sum(wv * a * a)))
        return float(np.sum(wv * a ** p)) ** (1.0 / p)

    def cl(a, b, sc=0.0):
        return abs(a - b) <= tol * max(abs(a), abs(b), sc) + 1e-300

    tag = 'size/{}/{}/{}/'.format(side, dt, wk)
    oxx = None
    if p == 2:
        oxy, oyx, oxx = (outcome(lambda: x.inner(y)), outcome(lambda: y.inner(x)),
                         outcome(lambda: x.inner(x)))
        if any(q[0] != 'ok' for q in (oxy, oyx, oxx)):
            bad('inner raised', str([q for q in (oxy, oyx, oxx) if q[0] != 'ok'][0])[:200])
        else:
            ixy, iyx, ixx = complex(oxy[1]), complex(oyx[1]), complex(oxx[1])
            ref = complex(np.sum(wv * x64 * np.conj(y64)))
            refxx = float(np.sum(wv * np.abs(x64) ** 2))
            sc = float(np.sum(wv * np.abs(x64) * np.abs(y64)))
            if not cl(ixy, ref, sc):
                bad('inner != documented weighted sum', 'inner(x,y)={} expected {}'.format(ixy, ref))
            if not cl(iyx, ixy.conjugate(), sc):
                bad('inner not conjugate-symmetric', '{} vs {}'.format(ixy, iyx))
            if abs(ixx.imag) > tol * abs(ixx) or ixx.real <= 0 or not cl(ixx.real, refxx):
                bad('inner(x,x) not positive definite',
                    'inner(x,x)={} expected {!r}'.format(ixx, refxx))
            if not cplx or ref.imag != 0:
                ctx.hit(tag + 'inner')
    onx, odx, ond = (outcome(lambda: x.norm()), outcome(lambda: x.dist(y)),
                     outcome(lambda: (x - y).norm()))
    if onx[0] != 'ok':
        bad('norm raised', str(onx)[:200])
    else:
        nx = float(onx[1])
        if not cl(nx, rnorm(x64)):
            bad('norm != documented weighted p-norm', 'norm(x)={!r} expected {!r}'.format(
                nx, rnorm(x64)))
        if p == 2 and oxx is not None and oxx[0] == 'ok' and not cl(nx * nx, complex(oxx[1]).real):
            bad('norm^2 != inner(x,x) for exponent 2', '{!r}^2 vs {}'.format(nx, oxx[1]))
        ctx.hit(tag + 'norm')
    if odx[0] != 'ok' or ond[0] != 'ok':
        bad('dist raised', str(odx if odx[0] != 'ok' else ond)[:200])
    else:
        dxy = float(odx[1])
        if not cl(dxy, rnorm(x64 - y64)):
            bad('dist != documented weighted p-norm of x - y', 'dist(x,y)={!r} expected {!r}'
                .format(dxy, rnorm(x64 - y64)))
        if not cl(dxy, float(ond[1])):
            bad('dist != norm(x-y)', 'dist(x,y)={!r} norm(x-y)={!r}'.format(dxy, float(ond[1])))
        ctx.hit(tag + 'dist')
    return problems


# ---------------------------------------------------------------------------
# VALIDATION stream: the constructors' weighting / exponent / dtype combinations.  Every
# documented rejection must raise the documented error class; its nearest legal neighbour must
# be accepted and then goes through the full oracle + model comparison (run_case), in
# particular positivity for every accepted weighting.

def _f(*a):
    return 0.0


def validation_table():
    """(name, constructor thunk, expected exception class, description of the nearest legal
    neighbour or None)."""
    import odl
    from odl.space.npy_tensors import NumpyTensorSpaceConstWeighting as CW
    fr = np.array([[0.5, 1.0, 2.0], [1.0, 3.0, 0.25]])
    r2 = odl.rn(2)
    T = []
    for p in (2, 1):
        kw = {} if p == 2 else {'exponent': p}
        T += [
            ('tensor/int-space+fractional-float-array-weights/p{}'.format(p),
             lambda kw=kw: odl.tensor_space((2, 3), dtype='int64', weighting=fr, **kw), ValueError,
             ('T', (2, 3), 'int64', 'C', ('a', [[1, 1, 2], [1, 3, 1]]), p)),
            ('tensor/float32-space+float64-array-weights/p{}'.format(p),
             lambda kw=kw: odl.rn((2, 3), dtype='float32', weighting=fr, **kw), ValueError,
             ('T', (2, 3), 'float32', 'C', ('a', fr.tolist()), p)),
            ('tensor/real-space+complex-array-weights/p{}'.format(p),
             lambda kw=kw: odl.rn(3, weighting=np.array([1j, 1, 2]), **kw), ValueError,
             ('T', (3,), 'float64', 'C', ('a', [1.0, 1.0, 2.0]), p)),
            ('discr/int-space+fractional-float-array-weights/p{}'.format(p),
             lambda kw=kw: odl.uniform_discr(0, 1, 3, dtype='int64', weighting=[0.5, 1, 2],
                                             nodes_on_bdry=True, **kw), ValueError,
             ('U', [(0.0, 1.0, 3, 1, 1)], 'int64', 'C', ('a', [1, 1, 2]), p)),
            ('discr/float32-space+float64-array-weights/p{}'.format(p),
             lambda kw=kw: odl.uniform_discr(0, 1, 3, dtype='float32',
                                             weighting=np.array([0.5, 1, 2]), **kw), ValueError,
             ('U', [(0.0, 1.0, 3, 0, 0)], 'float32', 'C', ('a', [0.5, 1.0, 2.0]), p)),
        ]
    T += [
        ('tensor/array-weights-shape-mismatch', lambda: odl.rn((2, 3), weighting=np.ones((3, 2))),
         ValueError, ('T', (2, 3), 'float64', 'C', ('a', np.ones((2, 3)).tolist()), 2)),
        ('tensor/const-weight-zero', lambda: odl.rn(3, weighting=0.0), ValueError,
         ('T', (3,), 'float64', 'C', ('c', 0.25), 2)),
        ('tensor/const-weight-negative', lambda: odl.cn(3, weighting=-1.0), ValueError,
         ('T', (3,), 'complex128', 'C', ('c', 1.0), 2)),
        ('tensor/const-weight-nan', lambda: odl.rn(3, weighting=float('nan')), ValueError, None),
        ('tensor/const-weight-inf', lambda: odl.rn(3, weighting=float('inf')), ValueError, None),
        ('tensor/object-array-weights',
         lambda: odl.rn(3, weighting=np.array([1, None, 2], dtype=object)), ValueError, None),
        ('tensor/weighting+inner', lambda: odl.rn(3, weighting=2.0, inner=_f), ValueError, None),
        ('tensor/inner+norm', lambda: odl.rn(3, inner=_f, norm=_f), ValueError, None),
        ('tensor/norm+dist', lambda: odl.rn(3, dist=_f, norm=_f), ValueError, None),
        ('tensor/inner+exponent!=2', lambda: odl.rn(3, inner=_f, exponent=1), ValueError, None),
        ('tensor/norm+exponent!=2', lambda: odl.rn(3, norm=_f, exponent=3), ValueError, None),
        ('tensor/non-numeric-dtype+weighting',
         lambda: odl.tensor_space(3, dtype='U1', weighting=2.0), ValueError, None),
        ('tensor/weighting-object-exponent-conflict',
         lambda: odl.rn(3, weighting=CW(2.0, exponent=1.0), exponent=3.0), ValueError,
         ('T', (3,), 'float64', 'C', ('c', 2.0), 1)),
        ('tensor/exponent-zero', lambda: odl.rn(3, exponent=0), ValueError,
         ('T', (3,), 'float64', 'C', None, 0.5)),
        ('tensor/exponent-negative', lambda: odl.rn(3, exponent=-1), ValueError, None),
        ('tensor/unknown-keyword', lambda: odl.rn(3, foo=1), TypeError, None),
        ('discr/const-weight-negative', lambda: odl.uniform_discr(0, 1, 3, weighting=-1.0),
         ValueError, ('U', [(0.0, 1.0, 3, 0, 0)], 'float64', 'C', ('c', 0.5), 2)),
        ('discr/array-weights-shape-mismatch',
         lambda: odl.uniform_discr(0, 1, 3, weighting=[1.0, 2.0]), ValueError,
         ('U', [(0.0, 1.0, 3, 0, 0)], 'float64', 'C', ('a', [1.0, 2.0, 0.5]), 2)),
        ('discr/real-space+complex-array-weights',
         lambda: odl.uniform_discr(0, 1, 3, weighting=np.array([1j, 1, 2])), ValueError,
         ('U', [(0.0, 1.0, 3, 0, 0)], 'complex128', 'C', ('a', [1.0, 1.0, 2.0]), 2)),
        ('pspace/weighting+inner', lambda: odl.ProductSpace(r2, r2, weighting=2.0, inner=_f),
         ValueError, None),
        ('pspace/inner+exponent!=2', lambda: odl.ProductSpace(r2, r2, inner=_f, exponent=1),
         ValueError, None),
        ('pspace/const-weight-zero', lambda: odl.ProductSpace(r2, r2, weighting=0.0), ValueError,
         ('P', [('T', (2,), 'float64', 'C', None, 2)] * 2, ('c', 0.5), 2)),
        ('pspace/const-weight-negative', lambda: odl.ProductSpace(r2, r2, weighting=-2.0),
         ValueError, ('P', [('T', (2,), 'float64', 'C', None, 1)] * 2, ('c', 2.0), 1)),
        ('pspace/array-weights-2d', lambda: odl.ProductSpace(r2, r2, weighting=[[1, 2], [3, 4]]),
         ValueError, ('P', [('T', (2,), 'float64', 'C', None, 2)] * 2, ('a', [1.0, 2.0]), 2)),
        ('pspace/object-array-weights',
         lambda: odl.ProductSpace(r2, r2, weighting=np.array([1, None], dtype=object)),
         ValueError, None),
        ('pspace/mixed-fields', lambda: odl.ProductSpace(r2, odl.cn(2)), ValueError, None),
        ('pspace/unknown-keyword', lambda: odl.ProductSpace(r2, r2, foo=1), TypeError, None),
    ]
    return T


VALIDATION_NAMES = None


def validation_names():
    global VALIDATION_NAMES
    if VALIDATION_NAMES is None:
        VALIDATION_NAMES = [(t[0], t[3] is not None) for t in validation_table()]
    return VALIDATION_NAMES


def run_validation(ctx, lines, recs, collect=True):
    allp = []
    for k, (name, thunk, exc, neighbour) in enumerate(validation_table()):
        rep = {'validation': name}
        try:
            sp = thunk()
            got = 'accepted ({})'.format(type(sp).__name__)
        except Exception as e:  # noqa
            got = e
        ctx.case(('validation', name), None)
        if isinstance(got, str):
            detail = 'documented rejection ({}) but the constructor {}'.format(exc.__name__, got)
            # what the accepted space then does (positivity)
            try:
                one = sp.one()
                detail += '; one().norm()={!r}'.format(one.norm())
                x = sp.element(np.ones(sp.shape)) if hasattr(sp, 'shape') else one
                detail += ' inner(1,1)={!r}'.format(x.inner(x))
            except Exception as e:  # noqa
                detail += '; then {}: {}'.format(type(e).__name__, str(e)[:60])
            ctx.violation('validation: invalid combination accepted :: ' + name, detail[:400], rep)
            allp.append((name, detail))
        elif not isinstance(got, exc):
            detail = 'expected {} got {}: {}'.format(exc.__name__, type(got).__name__, got)
            ctx.violation('validation: wrong error class :: ' + name, detail[:300], rep)
            allp.append((name, detail))
        else:
            ctx.hit('validation/reject/' + name)
        if neighbour is not None:
            pr = run_case(ctx, neighbour, 7919 * (k + 1), lines, recs, collect=collect,
                          hist={'scenario': 'validation-neighbour/' + name, 'seed': 0})
            if not any(w == 'space construction failed' for w, _ in pr):
                ctx.hit('validation/accept/' + name)
            allp += pr
    return allp


# ---------------------------------------------------------------------------
# MAGNITUDE stream (oracle only, relative tolerance): vectors scaled by 2**k with k at both
# ends of the dtype's exponent range, so that squares / p-th powers overflow or underflow while
# the true norm 2**k * ||x|| is representable.  Checked: norm(s x) = |s| norm(x) (hence finite
# and positive), dist(s x, s y) = |s| dist(x, y), inner(s x, y / s) = inner(x, y), on every
# exponent class x weighting kind x size regime x {float32, float64, complex64, complex128}
# for tensor spaces and on discretized and product spaces.

def mag_descs(ctx):
    out = []
    for dt in ['float32', 'float64', 'complex64', 'complex128']:
        for wk in ['none', 'const', 'array']:
            for p in [2, 1, INF, 1.5, 3]:
                for n in [5, 120]:
                    wt = None if wk == 'none' else (('c', 2.0) if wk == 'const' else
                                                    ('a', [[0.5, 1.0, 2.0, 4.0, 1.0][i % 5]
                                                           for i in range(n)]))
                    out.append(('tensor', wk, ('T', (n,), dt, 'C', wt, p)))
    thr = threshold()
    for dt in ['float32', 'float64']:
        out.append(('tensor', 'none', ('T', (thr + 1,), dt, 'C', None, 2)))
        out.append(('tensor', 'const', ('T', (thr + 1,), dt, 'C', ('c', 0.5), 2)))
    for dt in ['float32', 'float64', 'complex128']:
        for p in [2, 1, 3, INF]:
            out.append(('discr', 'const', ('U', [(0.0, 2.0, 5, 1, 1)], dt, 'C', None, p)))
    for wk, wt in [('none', None), ('const', ('c', 2.0)), ('array', ('a', [0.5, 2.0]))]:
        for p in [2, 1, INF, 3]:
            comps = [('T', (2,), 'float64', 'C', None, 2), ('T', (3,), 'float64', 'C', ('c', 2.0), 2)]
            out.append(('pspace', wk, ('P', comps, wt, p)))
    return out


def elem_from_vals(d, space, vals):
    if d[0] == 'P':
        parts, pos = [], 0
        for c, sp in zip(d[1], space.spaces):
            n = flat_size(c)
            parts.append(elem_from_vals(c, sp, vals[pos:pos + n]))
            pos += n
        return space.element(parts)
    return space.element(np.asarray(vals).reshape(leaf_shape(d)).astype(d_dtype(d)))


def mag_stratum(kind, wk, d):
    dt = 'float64' if d[0] == 'P' else str(d_dtype(d))
    return 'magnitude/{}/{}/p={}/{}'.format(kind, wk, pclass(d_p(d)), dt)


def mag_strata():
    return sorted({mag_stratum(k, w, d) for k, w, d in mag_descs(None)})


def run_magnitude(ctx, only=None):
    allp = []
    for kind, wk, d in mag_descs(ctx):
        dt = np.dtype('float64') if d[0] == 'P' else d_dtype(d)
        single_ = dt in (np.dtype('float32'), np.dtype('complex64'))
        K = 70 if single_ else 600
        tol = 1e-5 if single_ else 1e-10
        n = flat_size(d)
        r = np.random.RandomState(n + int(d_p(d) == INF))
        bx = r.choice([1.0, -2.0, 0.5, 3.0, -1.5, 0.25], size=n)
        by = r.choice([1.0, 2.0, -0.5, 1.5, -3.0], size=n)
        if np.issubdtype(dt, np.complexfloating):
            bx = bx + 1j * r.choice([1.0, -0.5, 2.0], size=n)
            by = by - 1j * r.choice([0.5, 1.0, -2.0], size=n)
        o = outcome(lambda: build(d))
        if o[0] != 'ok':
            ctx.violation('magnitude: space construction failed :: ' + wire(d)[:80], str(o)[:200],
                          {'magnitude': jsonable(d)})
            continue
        space = o[1]
        if n > 2000:
            # large arrays (exponent 2, no / constant weighting only): NumPy reference sums
            c = 1.0 if d[4] is None else float(d[4][1])
            rnx = math.sqrt(c * float(np.sum(np.abs(bx) ** 2)))
            rnd = math.sqrt(c * float(np.sum(np.abs(bx - by) ** 2)))
            z = c * complex(np.sum(bx * np.conj(by)))
            rin = (z.real, z.imag)
        else:
            X, Y = bx.tolist(), by.tolist()
            rnx, rnd = ref_norm(d, X), ref_norm(d, [u - v for u, v in zip(X, Y)])
            rin = ref_inner(d, X, Y) if has_inner(d) else None
        ctx.hit(mag_stratum(kind, wk, d))
        for k in (K, -K):
            if only is not None and only != (wire(d), k):
                continue
            s = 2.0 ** k
            key = 'path={}/{}/p={}/{}/n={}/k={}'.format(kind, wk, pclass(d_p(d)), dt, n,
                                                        '+' if k > 0 else '-')
            rep = {'magnitude': jsonable(d), 'k': k}
            ctx.case(('magnitude', kind, wk, pclass(d_p(d)), str(dt), k > 0), None)
            try:
                x, y = elem_from_vals(d, space, bx * s), elem_from_vals(d, space, by * s)
                yi = elem_from_vals(d, space, by / s)
            except Exception as e:  # noqa
                ctx.violation('magnitude: element creation failed :: ' + key, str(e)[:200], rep)
                continue
            with np.errstate(all='ignore'):
                checks = [('norm', outcome(lambda: x.norm()), math.ldexp(rnx, k)),
                          ('dist', outcome(lambda: x.dist(y)), math.ldexp(rnd, k))]
                if rin is not None:
                    checks.append(('inner', outcome(lambda: x.inner(yi)),
                                   complex(float(rin[0]), float(rin[1]))))
            for nm, got, ref in checks:
                bad = None
                if got[0] != 'ok':
                    bad = '{}(..) raised {}'.format(nm, got)
                else:
                    v = complex(got[1])
                    if not (abs(v - ref) <= tol * abs(ref)):
                        bad = ('{} of the vector scaled by 2**{} is {!r}; |s| * {}(x) = {!r} is '
                               'representable (absolute homogeneity / positivity / finiteness)'
                               .format(nm, k, got[1], nm, ref))
                if bad:
                    ctx.violation('magnitude: {} not homogeneous under scaling :: {}'.format(nm, key),
                                  bad[:400], rep)
                    allp.append((key, bad))
    return allp


def EXPECTED_BRANCHES(ctx):
    out = list(_EXPECTED_STATIC)
    for name, has_neighbour in validation_names():
        out.append('validation/reject/' + name)
        if has_neighbour:
            out.append('validation/accept/' + name)
    return out + mag_strata() + CUSTOM_STRATA + WEIGHTOBJ_STRATA + DERIVED_STRATA + DISPATCH_STRATA


# ---------------------------------------------------------------------------

def threshold():
    import odl.space.npy_tensors as nt
    return int(nt.THRESHOLD_MEDIUM)


def all_cases(ctx):
    thr = threshold()
    ctx.extra['threshold_medium'] = thr
    cases = tensor_zoo(ctx, thr) + discr_zoo(ctx) + pspace_zoo(ctx, thr)
    return [(d, ctx.rng.getrandbits(32)) for d in cases]


def run(ctx):
    lines, recs = [], []
    for d, vseed in all_cases(ctx):
        run_case(ctx, d, vseed, lines, recs)
    for rep in range(1 if ctx.quick else 6):
        run_history(ctx, lines, recs)
    for rep in range(1 if ctx.quick else 3):
        for case in large_cases(ctx):
            run_large(ctx, case)
    run_validation(ctx, lines, recs)
    run_magnitude(ctx)
    custom_cases(ctx)
    run_derived(ctx, lines, recs)
    run_weightobj(ctx)
    outs = core.run_driver('C02', lines)
    compare(ctx, recs, outs)
    run_custom(ctx)
    run_dispatch(ctx)


def search(ctx, broken):
    """An obligation / the correspondence broke without an oracle failure: run the thorough
    enumeration of the oracle on the real code (several value seeds per space)."""
    saved = ctx.tier
    ctx.tier = 'thorough'
    try:
        run_validation(ctx, [], [], collect=False)
        run_magnitude(ctx)
        for c in custom_zoo(ctx):
            run_custom_case(ctx, c, [], [], collect=False)
        for c in dispatch_cases(ctx):
            run_dispatch_case(ctx, c, [], [], collect=False)
        for rep in range(3):
            run_weightobj(ctx)
            run_derived(ctx, [], [], collect=False)
        for case in large_cases(ctx):
            run_large(ctx, case)
        for rep in range(4):
            run_history(ctx, [], [], collect=False)
        for d, vseed in all_cases(ctx):
            for rep in range(2):
                run_case(ctx, d, vseed + rep, [], [], collect=False)
                if len(ctx.violations) >= 50:
                    return
    finally:
        ctx.tier = saved


def replay(ctx, case):
    if 'dispatch' in case:
        before = len(ctx.violations)
        pr = run_dispatch_case(ctx, case['dispatch'], [], [], collect=False)
        del ctx.violations[before:]
        return '; '.join('{}: {}'.format(*q) for q in pr[:3])[:600] if pr else None
    if 'weightobj' in case:
        before = len(ctx.violations)
        pr = run_weightobj(ctx, wseed=case['weightobj']['seed'])
        del ctx.violations[before:]
        pr = [q for q in pr if q[0] == case['weightobj'].get('key', q[0])]
        return '; '.join('{}: {}'.format(*q) for q in pr[:3])[:600] if pr else None
    dv = case.get('derived') or (case.get('hist') or {}).get('derived')
    if dv:
        before = len(ctx.violations)
        run_derived(ctx, [], [], collect=False, only=dv.get('index'), dseed=dv.get('dseed'))
        new = [v for v in ctx.violations[before:]]
        del ctx.violations[before:]
        return '; '.join(v['key'] + ': ' + v['what'] for v in new[:3])[:600] if new else None
    if 'cstream' in case:
        before = len(ctx.violations)
        pr = run_custom_case(ctx, case['cstream'], [], [], collect=False)
        del ctx.violations[before:]
        return '; '.join('{}: {}'.format(*q) for q in pr[:4])[:600] if pr else None
    if 'custom' in case:
        before = len(ctx.violations)
        custom_cases(ctx)
        new = ctx.violations[before:]
        del ctx.violations[before:]
        bad = [v for v in new if v['replay'].get('custom') == case['custom']]
        return bad[0]['what'] if bad else None
    if 'validation' in case:
        before = len(ctx.violations)
        pr = [q for q in run_validation(ctx, [], [], collect=False) if q[0] == case['validation']]
        del ctx.violations[before:]
        return '; '.join('{}: {}'.format(*q) for q in pr[:3]) if pr else None
    if 'magnitude' in case and 'k' in case:
        before = len(ctx.violations)
        pr = run_magnitude(ctx, only=(wire(unjson(case['magnitude'])), case['k']))
        del ctx.violations[before:]
        return '; '.join('{}: {}'.format(*q) for q in pr[:3]) if pr else None
    if 'large' in case:
        c = list(case['large'])
        c[5] = INF if c[5] == 'inf' else c[5]
        before = len(ctx.violations)
        problems = run_large(ctx, tuple(c))
        del ctx.violations[before:]
        return '; '.join('{}: {}'.format(*p) for p in problems[:5]) if problems else None
    if 'hist' in case:
        before = len(ctx.violations)
        problems = run_history(ctx, [], [], hseed=case['hist']['seed'], collect=False)
        del ctx.violations[before:]
        return '; '.join('{}: {}'.format(*p) for p in problems[:5]) if problems else None
    d = unjson(case['desc'])
    before = len(ctx.violations)
    problems = run_case(ctx, d, case['vseed'], [], [], collect=False)
    del ctx.violations[before:]
    return '; '.join('{}: {}'.format(*p) for p in problems) if problems else None
