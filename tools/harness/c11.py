"""C11 — optimised solvers match their reference implementations and resume exactly.

Tie to /repo (correspondence): the solver state machines of lean/OdlModel/Model/Solvers.lean
are instantiated (lean/Drivers/C11.lean) with the exact matrices of the real operator and
its adjoint and with the closed-form proximal / gradient maps of the functionals drawn, and
the WHOLE sequence of iterates recorded through the real solver's callback (x.copy() per
call) is compared with the model's, exactly when all values are short dyadic rationals.

Oracle (independent of the model, real code only): optimised vs *_simple on fresh random
problems including L1, group-L1, indicator, KL, Huber terms; a run of n+m iterations vs n
then m (PDHG with x_relax / y passed back); one callback per iteration, the k-th with the
k-th iterate.
"""
import random
from fractions import Fraction

import numpy as np

from vf import core
from vf.core import fs, fl, fmat
from harness import solverlib as sl
from harness.solverlib import flat, unflat, size_of, Recorder, guarded

RULE = ('one case = one (solver, problem) pair: random operator from the zoo (integer matrix, '
        'weighted matrix, partial derivative / gradient on a 1-d grid, scaling, identity) x '
        'functionals from the modelled zoo (zero, L1, translated/scaled L1, squared L2 and its '
        'translate, box, non-negativity) or, on the oracle streams, the opaque zoo (L2, Huber, '
        'KL, group-L1, separable sums, balls) x dyadic or general step sizes x start point x '
        'iteration count. Non-trivial when the iterate sequence is not constant; distinct = '
        'distinct (stream, solver, operator kind, functional kinds, step class, n) among those.')
TRUSTED = ['closed-form proximal/gradient maps (PSpec) written in tools/harness/solverlib.py for '
           'the modelled functional zoo (each is itself compared with the real proximal through '
           'the iterate sequences)',
           'NumPy/BLAS entry-wise arithmetic and lincomb (C01) as exact entry-wise maps']
ASSUMPTIONS = ['floating-point rounding is outside the model: comparison is exact when every '
               'model value is a dyadic rational of <= 44 significant bits, else relative 1e-9',
               'operators, proximals and gradients are parameters of the model: aliasing '
               'behaviour inside them (out is x) is C10, their values are C07/C05',
               'random orders (random=True), accelerated PDHG (gamma_primal/gamma_dual), '
               'callable lam and line searches with memory are excluded from the resume claim']


# ---------------------------------------------------------------------------
# helpers

def wire_op(op):
    A = sl.exact_matrix(op)
    At = sl.exact_matrix(op.adjoint)
    return A, At


def steps_class(exact):
    return 'pow2' if exact else 'general'


class Case(object):
    """One correspondence case: a driver line and what the real code produced."""

    def __init__(self, desc, sig, line, impl_status, impl_log, extra=None):
        self.desc, self.sig, self.line = desc, sig, line
        self.impl_status, self.impl_log, self.extra = impl_status, impl_log, extra or {}


def nontrivial(seq, x0):
    return any(np.any(np.asarray(v) != np.asarray(x0)) for v in seq)


# ---------------------------------------------------------------------------
# ADMM

def gen_admm(r, exact, opaque=False):
    import odl
    kind, L = sl.operator_zoo(r)
    if opaque:
        fk, f = sl.opaque_functional_zoo(r, L.domain)
        gk, g = sl.opaque_functional_zoo(r, L.range)
        F = G = None
    else:
        F = sl.functional_zoo(r, L.domain, exact=exact)
        G = sl.functional_zoo(r, L.range, exact=exact)
        fk, f, gk, g = F.name, F.f, G.name, G.f
    tau, sigma = sl.pick_step(r, exact), sl.pick_step(r, exact)
    x0 = sl.dy_vec(r, size_of(L.domain), 16, 8)
    if fk == 'kl' or gk == 'kl':
        x0 = np.abs(x0) + 0.5
    return dict(solver='admm', opkind=kind, L=L, f=f, g=g, F=F, G=G, fk=fk, gk=gk, tau=tau,
                sigma=sigma, x0=x0)


def impl_admm(p, variant, n):
    import odl
    from odl.solvers.nonsmooth.admm import admm_linearized, admm_linearized_simple
    fn = admm_linearized if variant == 'opt' else admm_linearized_simple
    x = unflat(p['L'].domain, p['x0'])
    rec = Recorder()
    st, _ = guarded(fn, x, p['f'], p['g'], p['L'], p['tau'], p['sigma'], n, callback=rec)
    return st, rec.iterates, flat(x).copy()


def desc_of(p, **kw):
    d = {k: (v if isinstance(v, (int, float, str, bool)) else str(v)) for k, v in p.items()
         if k in ('solver', 'opkind', 'fk', 'gk', 'hk', 'tau', 'sigma', 'gamma', 'mu', 'theta',
                  'omega', 'lam', 'stepsize', 'cseed', 'exact', 'opaque', 'm')}
    d['x0'] = [float(v) for v in p['x0']]
    d.update(kw)
    return d


def check_callback(ctx, p, n, log, final, what):
    """callbacks observe exactly one iterate per iteration, the last being the result."""
    if len(log) != n:
        ctx.violation('{} callback count opkind={} f={} g={}'.format(
            what, p.get('opkind'), p.get('fk'), p.get('gk')),
            'callback called {} times in {} iterations'.format(len(log), n), desc_of(p, n=n))
        return False
    if n and np.any(log[-1] != final):
        ctx.violation('{} last callback iterate != result opkind={} f={} g={}'.format(
            what, p.get('opkind'), p.get('fk'), p.get('gk')),
            'last callback saw {} but x is {}'.format(log[-1], final), desc_of(p, n=n))
        return False
    return True


def family_admm(ctx, r, exact, n, opaque=False):
    p = gen_admm(r, exact, opaque)
    p.update(cseed=r.cseed, exact=exact, opaque=opaque)
    st_o, log_o, x_o = impl_admm(p, 'opt', n)
    st_s, log_s, x_s = impl_admm(p, 'simple', n)
    key = 'admm_linearized vs admm_linearized_simple opkind={} f={} g={}'.format(
        p['opkind'], p['fk'], p['gk'])
    ok = True
    if st_o != st_s:
        ctx.violation(key, 'outcomes differ: optimised {} / simple {}'.format(st_o, st_s),
                      desc_of(p, n=n))
        ok = False
    elif st_o == 'ok':
        d = sl.arrays_differ(log_o, log_s)
        if d:
            ctx.violation(key, 'iterates differ: ' + d, desc_of(p, n=n))
            ok = False
        ok = check_callback(ctx, p, n, log_o, x_o, 'admm_linearized') and ok
    else:
        ctx.err(st_o.split(':')[1])
    sig = ('opaque' if opaque else 'model', 'admm', p['opkind'], p['fk'], p['gk'],
           steps_class(exact), n)
    nt = st_o == 'ok' and nontrivial(log_o, p['x0'])
    if opaque:
        ctx.case(sig if nt else None)
        ctx.hit('oracle/admm')
        return []
    A, At = wire_op(p['L'])
    cases = []
    for variant, st, log in (('opt', st_o, log_o), ('simple', st_s, log_s)):
        line = 'admm variant={} A={} At={} pf={} pg={} tau={} sigma={} x0={} n={}'.format(
            variant, fmat(A), fmat(At), p['F'].prox(p['tau']), p['G'].prox(p['sigma']),
            fs(p['tau']), fs(p['sigma']), fl(p['x0']), n)
        cases.append(Case(desc_of(p, n=n, variant=variant), sig + (variant,) if nt else None,
                          line, st, log))
        ctx.hit('model/admm/' + variant)
    return cases


FAMILIES = {
    'admm': family_admm,
}


class SeededRandom(random.Random):
    def __init__(self, cseed):
        random.Random.__init__(self, cseed)
        self.cseed = cseed


# ---------------------------------------------------------------------------

def plan(ctx, deep=False):
    """(family, cseed, exact, n, opaque) tuples for this run."""
    rng = ctx.rng
    quick = ctx.quick and not deep
    per = 14 if quick else 60
    nmax = 8 if quick else 24
    out = []
    for fam in sorted(FAMILIES):
        for i in range(per):
            exact = i % 3 != 2
            n = rng.randint(1, 5) if exact else rng.randint(1, nmax)
            out.append((fam, rng.getrandbits(48), exact, n, False))
        for i in range(per):
            out.append((fam, rng.getrandbits(48), False, rng.randint(1, nmax), True))
    return out


def run_one(ctx, fam, cseed, exact, n, opaque):
    r = SeededRandom(cseed)
    return FAMILIES[fam](ctx, r, exact, n, opaque=opaque)


def run(ctx, deep=False):
    cases = []
    for fam, cseed, exact, n, opaque in plan(ctx, deep):
        cases.extend(run_one(ctx, fam, cseed, exact, n, opaque))
    outs = core.run_driver('C11', [c.line for c in cases])
    for c, ans in zip(cases, outs):
        fields = sl.parse_answer(ans)
        sample = None
        if len(ctx.samples) < 10 and c.sig is not None and len(c.desc['x0']) <= 3:
            sample = {'case': c.desc, 'line': c.line[:300], 'model_answer': ans[:200]}
        ctx.case(c.sig, sample)
        if fields is None:
            # the model has no error outcomes: the real code must not fail on these inputs
            ctx.disagree(c.desc, c.impl_status, ans[:200])
            continue
        if c.impl_status != 'ok':
            ctx.disagree(c.desc, c.impl_status, 'ok')
            continue
        mlog = core.pfmat(fields.get('log', '-'))
        d = sl.seq_mismatch(c.impl_log, mlog)
        if d:
            ctx.disagree(c.desc, d, ans[:300])


def search(ctx, broken):
    """An obligation or the correspondence broke without an oracle failure in `run`:
    look harder with the oracle on the real code (more problems, more iterations)."""
    saved = ctx.tier
    ctx.tier = 'thorough'
    try:
        for fam, cseed, exact, n, opaque in plan(ctx, deep=True):
            run_one(ctx, fam, cseed, exact, n, opaque)
            ctx.evaluations += 1
            if len(ctx.violations) >= 5:
                break
    finally:
        ctx.tier = saved


def replay(ctx, case):
    """Re-run one recorded case (regenerated from its seed) on the real code."""
    fam = case.get('solver')
    if fam not in FAMILIES or 'cseed' not in case:
        return None
    sub = core.Ctx(ctx.pid, ctx.tier, ctx.seed)
    run_one(sub, fam, int(case['cseed']), bool(case.get('exact')), int(case.get('n', 1)),
            bool(case.get('opaque')))
    if sub.violations:
        return '; '.join('{}: {}'.format(v['key'], v['what']) for v in sub.violations[:3])
    return None
